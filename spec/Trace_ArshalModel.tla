------------------------- MODULE Trace_ArshalModel -------------------------
(* Trace validation of Marshal / Unmarshal executions against the type-      *)
(* directed model (Arshal.tla).  The driver generates random types inside    *)
(* the modelled fragment (any nesting, structs of up to 140 fields, tag      *)
(* options), random Go values and random - also ill-fitting and mutated -    *)
(* texts, executes the real library and logs, in the model's own language,   *)
(*   m  type, value, options, success and the bytes Marshal returned         *)
(*   u  type, pre-existing value, text, options, success and the resulting   *)
(*      Go value                                                             *)
(* TLC recomputes what the model prescribes: the exact bytes (Deterministic  *)
(* is always set), the exact resulting value with nil-ness, or an error.     *)
EXTENDS Arshal, TLC, Json, IOUtils

T == ndJsonDeserialize(IOEnv.VERIF_TRACE)

VARIABLES l, rej

Check(rec) ==
    IF rec.panic # "" THEN <<"C20", "panic">>
    ELSE IF rec.kind = "skip" THEN <<>>
    ELSE IF rec.kind = "m" THEN
         LET j == Marshal(rec.t, rec.v, rec.o, NoSt) IN
         IF IsErr(j) = rec.ok THEN <<rec.prop, "marshal-success", ~IsErr(j)>>
         ELSE IF rec.ok /\ Render(j) # rec.out THEN <<rec.prop, "marshal-bytes", Render(j)>>
         ELSE <<>>
    ELSE \* u
         IF ~ValidOne(Opt(FALSE, rec.o.ad, 10000), rec.text)
         THEN (IF rec.ok THEN <<rec.prop, "invalid-text-accepted">> ELSE <<>>)
         ELSE LET r == UnmarshalJ(rec.t, rec.old, ParseJ(rec.text), rec.o) IN
              IF r.ok # rec.ok THEN <<rec.prop, "unmarshal-success", r.ok>>
              ELSE IF r.ok /\ r.v # rec.v THEN <<rec.prop, "unmarshal-value", r.v>>
              ELSE <<>>

Init == l = 1 /\ rej = <<>>

Next == /\ l <= Len(T)
        /\ l' = l + 1
        /\ LET c == Check(T[l]) IN
           rej' = IF c = <<>> THEN rej ELSE Append(rej, <<T[l].id, c[1], c>>)

Spec == Init /\ [][Next]_<<l, rej>>

Done == l = Len(T) + 1 => PrintT(ToJson(<<"REJ", rej>>))
Consumed == TLCGet("stats").diameter = Len(T) + 1
=============================================================================
