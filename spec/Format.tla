------------------------------ MODULE Format ------------------------------
(***************************************************************************)
(* How a JSON value is rendered under the formatting options: whitespace,  *)
(* string spelling, number spelling, member order.  The same rendering is  *)
(* used by Encoder.WriteValue (a raw value written at some depth), by      *)
(* Value.Format / Compact / Indent / Canonicalize / AppendFormat, and -    *)
(* token by token - by Encoder.WriteToken (see Encoder.tla).               *)
(*                                                                         *)
(* Options (record F):                                                     *)
(*   ai ad                      AllowInvalidUTF8, AllowDuplicateNames      *)
(*   ml                         Multiline (also implied by an indent)      *)
(*   mlinit                     the defaults implied by Multiline apply:   *)
(*                              true when Multiline was among the options  *)
(*                              the coder was created with (see Effective) *)
(*   indent prefix              byte sequences; indent = <<-1>> means unset*)
(*   sac sacm                   SpaceAfterColon / Comma: -1 unset, 0, 1    *)
(*   html js                    EscapeForHTML, EscapeForJS                 *)
(*   prs cri crf ror            PreserveRawStrings, CanonicalizeRawInts,   *)
(*                              CanonicalizeRawFloats, ReorderRawObjects   *)
(***************************************************************************)
EXTENDS Strings, Numbers

DefaultFmt == [ai |-> FALSE, ad |-> FALSE, ml |-> FALSE, mlinit |-> FALSE, indent |-> <<-1>>, prefix |-> <<>>,
               sac |-> -1, sacm |-> -1, html |-> FALSE, js |-> FALSE, prs |-> FALSE,
               cri |-> FALSE, crf |-> FALSE, ror |-> FALSE]

\* effective values: Multiline implies a space after colons, none after commas and a
\* tab indent unless these were set explicitly
EffIndent(F) == IF F.indent = <<-1>> THEN (IF F.mlinit THEN <<9>> ELSE <<>>) ELSE F.indent
EffSac(F)  == IF F.sac = -1 THEN F.mlinit ELSE F.sac = 1
EffSacm(F) == IF F.sacm = -1 THEN FALSE ELSE F.sacm = 1
Esc(F) == [html |-> F.html, js |-> F.js]

RECURSIVE Repeat(_, _)
Repeat(s, k) == IF k <= 0 THEN <<>> ELSE s \o Repeat(s, k - 1)

NL(F, k) == <<10>> \o F.prefix \o Repeat(EffIndent(F), k)

\* what precedes an element / member name written inside dIn open containers
ElemLead(F, first, dIn) ==
    (IF first THEN <<>> ELSE <<44>> \o (IF EffSacm(F) THEN <<32>> ELSE <<>>))
    \o (IF F.ml THEN NL(F, dIn) ELSE <<>>)
\* what precedes the closer of a container whose elements are inside dIn containers
CloseLead(F, empty, dIn) == IF F.ml /\ ~empty THEN NL(F, dIn - 1) ELSE <<>>
ColonLead(F) == <<58>> \o (IF EffSac(F) THEN <<32>> ELSE <<>>)

\* ----------------------------------------------------------- UTF-16 order
Utf16(cps) == FoldLeft(LAMBDA a, c : IF c < 65536 THEN Append(a, c)
                                     ELSE a \o <<55296 + (c - 65536) \div 1024, 56320 + ((c - 65536) % 1024)>>,
                       <<>>, cps)
RECURSIVE SeqLess(_, _)
SeqLess(a, b) == IF a = <<>> THEN b # <<>>
                 ELSE IF b = <<>> THEN FALSE
                 ELSE IF a[1] # b[1] THEN a[1] < b[1]
                 ELSE SeqLess(Tail(a), Tail(b))

\* ---------------------------------------------------------------- values
\* S = [toks, src] token table and source bytes of one valid value
\* S.proj maps the start offset of a number token to the projection's [neg, d, n] of the
\* float64 nearest to the literal (shortest digits; saturated) where the specification does
\* not decide the canonical spelling by itself (more than 15 significant digits)
NumberText(F, S, tk) ==
    LET lit == SubSeq(S.src, tk.s + 1, tk.e)
        c == CanonNumber(lit, F.cri, F.crf) IN
    IF c # <<63>> THEN c
    ELSE IF tk.s \in DOMAIN S.proj
         THEN LET p == S.proj[tk.s] IN IF p.d = <<>> THEN <<48>> ELSE EcmaLayout(p.neg, p.d, p.n)
         ELSE c

ScalarText(F, S, tk) ==
    LET lit == SubSeq(S.src, tk.s + 1, tk.e) IN
    IF tk.k \in {"str", "name"} THEN ReformatLit(lit, tk.str, F.prs, Esc(F))
    ELSE IF tk.k = "num" THEN NumberText(F, S, tk)
    ELSE lit

(***************************************************************************)
(* One pass over the tokens with an explicit stack of unfinished           *)
(* containers (no recursion: values may be nested 10000 deep).  A frame    *)
(* collects the texts of its elements, or of its members as [name, text];  *)
(* when the container closes its text is assembled for depth               *)
(* d0 + (number of enclosing frames) and handed to the enclosing frame.    *)
(***************************************************************************)
ContainerText(F, f, dIn) ==
    IF f.t = "a"
    THEN <<91>> \o FoldLeft(LAMBDA acc, j : acc \o ElemLead(F, j = 1, dIn) \o f.items[j],
                            <<>>, [j \in 1..Len(f.items) |-> j])
              \o CloseLead(F, f.items = <<>>, dIn) \o <<93>>
    ELSE LET \* members are ordered by the UTF-16 code units of their names; equal names (possible
             \* only when duplicates are allowed) by the UTF-16 code units of the member text
             ms == IF F.ror
                   THEN SortSeq(f.items, LAMBDA x, y :
                          \/ SeqLess(Utf16(x.name), Utf16(y.name))
                          \/ x.name = y.name /\ SeqLess(Utf16(GoDecode(x.text).cps), Utf16(GoDecode(y.text).cps)))
                   ELSE f.items IN
         <<123>> \o FoldLeft(LAMBDA acc, j : acc \o ElemLead(F, j = 1, dIn) \o ms[j].text,
                             <<>>, [j \in 1..Len(ms) |-> j])
                 \o CloseLead(F, ms = <<>>, dIn) \o <<125>>

\* a finished value text x arrives at the innermost frame (or is the result)
PutValue(F, a, x) ==
    IF a.stack = <<>> THEN [a EXCEPT !.out = x]
    ELSE LET k == Len(a.stack)  f == a.stack[k] IN
         IF f.t = "a" THEN [a EXCEPT !.stack[k].items = Append(@, x)]
         ELSE [a EXCEPT !.stack[k].items = Append(@, [name |-> f.pname, text |-> f.ptext \o ColonLead(F) \o x])]

FmtStep(F, S, d0, a, tk) ==
    IF tk.k \in {"[", "{"}
    THEN [a EXCEPT !.stack = Append(@, [t |-> IF tk.k = "[" THEN "a" ELSE "o", items |-> <<>>,
                                        pname |-> <<>>, ptext |-> <<>>])]
    ELSE IF tk.k \in {"]", "}"}
    THEN LET k == Len(a.stack) IN
         PutValue(F, [a EXCEPT !.stack = SubSeq(@, 1, k - 1)], ContainerText(F, a.stack[k], d0 + k))
    ELSE IF tk.k = "name"
    THEN LET k == Len(a.stack) IN
         [a EXCEPT !.stack[k].pname = tk.str, !.stack[k].ptext = ScalarText(F, S, tk)]
    ELSE PutValue(F, a, ScalarText(F, S, tk))

\* rendering of the (single, valid) value whose tokens are S.toks, written inside d0 open containers
FmtTokens(F, S, d0) ==
    FoldLeft(LAMBDA a, tk : FmtStep(F, S, d0, a, tk), [stack |-> <<>>, out |-> <<>>], S.toks).out

\* the rendering of the value src (surrounding whitespace allowed) written inside d
\* open containers; src must be exactly one valid value under (F.ai, F.ad)
FormatAtP(F, src, d, maxd, proj) ==
    LET s == Finish(Run(Opt(F.ai, F.ad, maxd), src)) IN
    FmtTokens(F, [toks |-> s.toks, src |-> src, proj |-> proj], d)

FormatAt(F, src, d, maxd) == FormatAtP(F, src, d, maxd, <<>>)

(***************************************************************************)
(* The Format family.  Each entry point joins the caller's options after   *)
(* its preset (a caller option wins over the preset).                      *)
(*   "format"  no preset                                                   *)
(*   "compact" AllowDuplicateNames AllowInvalidUTF8 PreserveRawStrings     *)
(*   "indent"  the same + Multiline                                        *)
(*   "canon"   CanonicalizeRawInts CanonicalizeRawFloats ReorderRawObjects *)
(* The caller's record says which options it sets: G.set is the set of     *)
(* field names given explicitly.                                           *)
(***************************************************************************)
Preset(entry) ==
    CASE entry = "compact" -> [DefaultFmt EXCEPT !.ad = TRUE, !.ai = TRUE, !.prs = TRUE]
      [] entry = "indent" -> [DefaultFmt EXCEPT !.ad = TRUE, !.ai = TRUE, !.prs = TRUE, !.ml = TRUE, !.mlinit = TRUE]
      [] entry = "canon" -> [DefaultFmt EXCEPT !.cri = TRUE, !.crf = TRUE, !.ror = TRUE]
      [] OTHER -> DefaultFmt

\* Compact/Indent/Canonicalize create the coder with their preset and join the caller's
\* options afterwards; the defaults implied by Multiline (tab indent, space after colon) are
\* set up when the coder is created, so they apply iff Multiline was in the preset - or, for
\* Format/AppendFormat, among the caller's options.  (Canonicalize(Multiline(true)) therefore
\* breaks lines without indenting; the listed properties do not speak about this.)
Effective(entry, G) ==
    LET P == Preset(entry)
        ml == IF "ml" \in G.set THEN G.ml
              ELSE IF {"indent", "prefix"} \cap G.set # {} THEN TRUE   \* an indent implies Multiline
              ELSE P.ml IN
    [k \in DOMAIN DefaultFmt |->
        IF k = "ml" THEN ml
        ELSE IF k = "mlinit" THEN (IF entry \in {"format", "append"} THEN ml ELSE P.ml)
        ELSE IF k \in G.set THEN G[k]
        ELSE P[k]]

\* result of the operation: ok and the new contents (unchanged on error)
FormatResult(entry, G, src, maxd, proj) ==
    LET F == Effective(entry, G) IN
    IF ValidOne(Opt(F.ai, F.ad, maxd), src)
    THEN [ok |-> TRUE, out |-> FormatAtP(F, src, 0, maxd, proj)]
    ELSE [ok |-> FALSE, out |-> src]

\* every number of the value has a canonical spelling the specification decides by itself
AllDecidable(F, src, maxd) ==
    LET s == Finish(Run(Opt(F.ai, F.ad, maxd), src)) IN
    \A i \in 1..Len(s.toks) : s.toks[i].k = "num" =>
        CanonNumber(SubSeq(src, s.toks[i].s + 1, s.toks[i].e), F.cri, F.crf) # <<63>>
=============================================================================
