----------------------------- MODULE MC_Options -----------------------------
(* All sequences of option setters up to a length bound over a list of        *)
(* representative setters.  Model theorem (C19): whatever way the sequence is *)
(* grouped into nested JoinOptions, the resulting store equals applying the   *)
(* setters one after the other - the last setter of each key wins.            *)
(* Every sequence is emitted with the expected GetOption result of every key. *)
EXTENDS Options, TLC, Json

CONSTANTS Setters, MaxLen, EmitCases

VARIABLE seq      \* indices into Setters

Init == seq = <<>>
Next == Len(seq) < MaxLen /\ \E i \in 1..Len(Setters) : seq' = Append(seq, i)
Spec == Init /\ [][Next]_seq

Items == [i \in 1..Len(seq) |-> Setters[seq[i]]]
Flat == Eval(Items)

\* groupings: everything in one join; left-nested; right-nested; consecutive pairs
RECURSIVE NestLeft(_), NestRight(_)
NestLeft(items) == IF Len(items) <= 1 THEN items
                   ELSE <<Join(NestLeft(SubSeq(items, 1, Len(items) - 1)) \o <<items[Len(items)]>>)>>
NestRight(items) == IF Len(items) <= 1 THEN items
                    ELSE <<Join(<<items[1]>> \o NestRight(Tail(items)))>>
Pairs(items) == [j \in 1..((Len(items) + 1) \div 2) |->
                    Join(SubSeq(items, 2 * j - 1, IF 2 * j <= Len(items) THEN 2 * j ELSE 2 * j - 1))]

Grouping == /\ Eval(<<Join(Items)>>) = Flat
            /\ Eval(NestLeft(Items)) = Flat
            /\ Eval(NestRight(Items)) = Flat
            /\ Eval(Pairs(Items)) = Flat
            /\ Eval(<<Join(<<>>)>> \o Items \o <<[k |-> "nil"]>>) = Flat

\* the last setter of a key determines what GetOption reports
LastWins == \A key \in BoolKeys :
    LET hits == {i \in 1..Len(seq) : Items[i].k = "flag" /\ Items[i].key = key} IN
    (hits # {} /\ \A i \in 1..Len(seq) : Items[i].k \in {"flag", "marshalers", "unmarshalers", "nil"}) =>
        Flat[key] = B(Items[CHOOSE i \in hits : \A j \in hits : j <= i].v)

\* DefaultOptionsV2 after anything cancels every v1 option
V2Cancels == (seq # <<>> /\ Items[Len(seq)].k = "v2") => \A k \in V1Keys : Flat[k] = "false"

KeyList == SetToSeq(Keys)
EmitInv == EmitCases => PrintT(ToJson(<<Items, [i \in 1..Len(KeyList) |-> <<KeyList[i], Flat[KeyList[i]]>>]>>))
=============================================================================
