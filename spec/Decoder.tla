------------------------------ MODULE Decoder ------------------------------
(***************************************************************************)
(* The streaming Decoder as a state machine over the token table of its    *)
(* input.                                                                  *)
(*                                                                         *)
(* The table is what JsonText recognises in the complete input: the tokens *)
(* up to the first dead byte (or the end).  A decoder state is the index   *)
(* of the next token, the stack of open containers with their lengths and  *)
(* last names, and whether a transient I/O error is cached by PeekKind.    *)
(* How the bytes arrive (chunking, empty reads, faults) is deliberately    *)
(* absent from the state: every call must behave as a function of the      *)
(* table and the state alone - that is the content of property C05.        *)
(*                                                                         *)
(* Calls:  "tok" ReadToken   "val" ReadValue   "skip" SkipValue            *)
(*         "peek" PeekKind   "ptr" StackPointer (an observer with side     *)
(*         effects in the implementation, hence scheduled like a call)     *)
(***************************************************************************)
EXTENDS JsonText

KindOf(tok) == CASE tok.k \in {"str", "name"} -> 34
                 [] tok.k = "num" -> 48
                 [] tok.k = "null" -> 110
                 [] tok.k = "true" -> 116
                 [] tok.k = "false" -> 102
                 [] tok.k = "{" -> 123 [] tok.k = "}" -> 125
                 [] tok.k = "[" -> 91  [] tok.k = "]" -> 93

\* The table of an input under options o.
Table(o, input) ==
    LET f == Finish(Run(o, input)) IN
    [toks |-> f.toks, dead |-> f.dead, clean |-> AtBoundary(f), at |-> f.at, len |-> Len(input),
     why |-> f.why, ts |-> f.ts, lx |-> f.lx, ex |-> f.ex, inp |-> input, cur |-> f.cur]

\* Decoder state.
DInit == [ti |-> 1, stk |-> <<[t |-> "t", n |-> 0, name |-> <<>>]>>, pe |-> FALSE]

ApplyTok(stk, tok) ==
    LET d == Len(stk) IN
    CASE tok.k \in {"{", "["} ->
           Append([stk EXCEPT ![d].n = @ + 1],
                  [t |-> IF tok.k = "{" THEN "o" ELSE "a", n |-> 0, name |-> <<>>])
      [] tok.k \in {"}", "]"} -> SubSeq(stk, 1, d - 1)
      [] tok.k = "name" -> [stk EXCEPT ![d].n = @ + 1, ![d].name = tok.str]
      [] OTHER -> [stk EXCEPT ![d].n = @ + 1]

\* index of the token closing the container opened at index i, or 0
MatchClose(toks, i) ==
    LET r == FoldLeft(LAMBDA acc, j :
                        IF acc.found # 0 THEN acc
                        ELSE IF toks[j].k \in {"{", "["} THEN [acc EXCEPT !.d = @ + 1]
                        ELSE IF toks[j].k \in {"}", "]"}
                             THEN IF acc.d = 1 THEN [acc EXCEPT !.found = j] ELSE [acc EXCEPT !.d = @ - 1]
                        ELSE acc,
                      [d |-> 0, found |-> 0], [k \in 1..(Len(toks) - i + 1) |-> i + k - 1])
    IN r.found

\* decimal digits of a natural number, as code points
RECURSIVE Digits(_)
Digits(n) == IF n < 10 THEN <<48 + n>> ELSE Append(Digits(n \div 10), 48 + (n % 10))

\* RFC 6901 reference tokens (as code point sequences) of the most recently read value
PointerOf(stk) ==
    LET lv == SelectSeq([j \in 1..(Len(stk) - 1) |-> stk[j + 1]], LAMBDA f : f.n > 0) IN
    [j \in 1..Len(lv) |-> IF lv[j].t = "a" THEN Digits(lv[j].n - 1) ELSE lv[j].name]

\* what the cheap observers report: InputOffset, StackDepth, StackIndex of the levels 0, d-1, d
OffsetOf(tab, d) == IF d.ti = 1 THEN 0 ELSE tab.toks[d.ti - 1].e
Index(stk, i) == <<i, CASE stk[i + 1].t = "o" -> 123 [] stk[i + 1].t = "a" -> 91 [] OTHER -> 0, stk[i + 1].n>>
Observe(tab, d) ==
    LET dep == Len(d.stk) - 1 IN
    [off |-> OffsetOf(tab, d), depth |-> dep,
     idx |-> [j \in 1..(IF dep = 0 THEN 1 ELSE IF dep = 1 THEN 2 ELSE 3) |->
                 Index(d.stk, IF j = 1 THEN 0 ELSE IF dep = 1 THEN 1 ELSE dep - 3 + j)]]

\* the error class a read call reports when no token is left
EndErr(tab) == IF ~tab.dead /\ tab.clean THEN "eof" ELSE "syn"

More(tab, d) == d.ti <= Len(tab.toks)

(***************************************************************************)
(* One call without an I/O fault: predicted result and next state.         *)
(* res = [err, k, len] : error class, kind byte and byte length of the     *)
(* returned token / value (0 when none).                                   *)
(***************************************************************************)
Ok(k, len) == [err |-> "nil", k |-> k, len |-> len]
Fail(e)    == [err |-> e, k |-> 0, len |-> 0]

ReadTokenStep(tab, d) ==
    IF More(tab, d)
    THEN LET tk == tab.toks[d.ti] IN
         [res |-> Ok(KindOf(tk), tk.e - tk.s),
          next |-> [d EXCEPT !.ti = @ + 1, !.stk = ApplyTok(@, tk)]]
    ELSE [res |-> Fail(EndErr(tab)), next |-> d]

ReadValueStep(tab, d) ==
    IF ~More(tab, d) THEN [res |-> Fail(EndErr(tab)), next |-> d]
    ELSE LET tk == tab.toks[d.ti] IN
         IF tk.k \in {"}", "]"} THEN [res |-> Fail("syn"), next |-> d]
         ELSE IF tk.k \in {"{", "["}
              THEN LET j == MatchClose(tab.toks, d.ti) IN
                   IF j = 0 THEN [res |-> Fail("syn"), next |-> d]   \* truncated or invalid inside
                   ELSE [res |-> Ok(KindOf(tk), tab.toks[j].e - tk.s),
                         next |-> [d EXCEPT !.ti = j + 1, !.stk[Len(d.stk)].n = @ + 1]]
              ELSE ReadTokenStep(tab, d)

\* SkipValue is a loop of ReadToken on containers: on failure the tokens read so far stay consumed
SkipValueStep(tab, d) ==
    IF More(tab, d) /\ tab.toks[d.ti].k \in {"{", "["} /\ MatchClose(tab.toks, d.ti) = 0
    THEN [res |-> Fail("syn"),
          next |-> [d EXCEPT !.ti = Len(tab.toks) + 1,
                             !.stk = FoldLeft(ApplyTok, d.stk, SubSeq(tab.toks, d.ti, Len(tab.toks)))]]
    ELSE LET r == ReadValueStep(tab, d) IN [r EXCEPT !.res.k = 0, !.res.len = 0]

\* PeekKind looks at one byte only.  When a complete token follows, that is its kind.
\* At the end of the table (end of input, or the text is invalid from here on) the
\* documentation only promises KindInvalid "if an error occurs"; whether the error is
\* noticed by the peek or only by the following read is left open: k = -1 stands for
\* "0 or the kind of the next significant byte" (PeekKinds).
PeekStep(tab, d) ==
    [res |-> [err |-> "nil", k |-> IF More(tab, d) THEN KindOf(tab.toks[d.ti]) ELSE -1, len |-> 0],
     next |-> d]

ByteKind(b) == IF b = 45 \/ b \in 48..57 THEN 48
               ELSE IF b \in {110, 116, 102, 34, 123, 125, 91, 93} THEN b ELSE 0

RECURSIVE SkipWs(_, _)
SkipWs(inp, i) == IF i <= Len(inp) /\ inp[i] \in WS THEN SkipWs(inp, i + 1) ELSE i

PeekKinds(tab, d) ==
    LET i == SkipWs(tab.inp, OffsetOf(tab, d) + 1)
        j == IF i <= Len(tab.inp) /\ tab.inp[i] \in {44, 58} THEN SkipWs(tab.inp, i + 1) ELSE i IN
    {0} \cup (IF j <= Len(tab.inp) THEN {ByteKind(tab.inp[j])} ELSE {})

Call(tab, d, op) ==
    CASE op = "tok" -> ReadTokenStep(tab, d)
      [] op = "val" -> ReadValueStep(tab, d)
      [] op = "skip" -> SkipValueStep(tab, d)
      [] op = "peek" -> PeekStep(tab, d)
      [] op = "ptr" -> [res |-> Ok(0, 0), next |-> d]

(***************************************************************************)
(* Error positions (property C16), relational:                             *)
(*  - the bytes before ByteOffset are a viable prefix, and the offset lies *)
(*    at or before the first dead byte and not before the token or         *)
(*    separator the error belongs to;                                      *)
(*  - JSONPointer designates the innermost value containing the error, or  *)
(*    the object/array directly containing it.                             *)
(***************************************************************************)
StackAfter(toks) == FoldLeft(ApplyTok, DInit.stk, toks)

\* reference token of the element a frame is currently at
CurTok(f) == IF f.t = "a" THEN Digits(f.n - 1) ELSE f.name

\* Where the text ends or dies: frames open at that point (from the complete tokens).
\*   ContainerPtr  pointer of the innermost open object/array
\*   SlotPtrs      pointer(s) of the value that was being read inside it, if any:
\*                 the next array element, the member whose name was already read,
\*                 or (duplicate name) the member with the offending name
ContainerPtr(stk) == [j \in 1..(Len(stk) - 2) |-> CurTok(stk[j + 1])]

SlotPtrs(tab, stk) ==
    LET f == stk[Len(stk)]  c == ContainerPtr(stk) IN
    IF Len(stk) = 1 THEN {}
    ELSE IF f.t = "a" THEN {Append(c, Digits(f.n))}
    ELSE IF f.n % 2 = 1 THEN {Append(c, f.name)}
    ELSE IF tab.why = "dup" THEN {Append(c, tab.cur)}
    ELSE {}

\* ByteOffset: everything before it is a viable prefix (it is not beyond the first dead
\* byte / the end of a truncated text) and it is not before the end of the last complete
\* token, i.e. it lies in the offending token or on the separator directly before it.
OffsetOK(tab, eoff) ==
    LET lo == IF tab.toks = <<>> THEN 0 ELSE tab.toks[Len(tab.toks)].e
        hi == IF tab.dead THEN tab.at - 1 ELSE tab.len IN
    lo <= eoff /\ eoff <= hi

\* The innermost value in which the error lies is the value that was being read (a slot)
\* when the text dies inside a token or where a value must start, and the innermost open
\* container when the text dies on its structure (wrong closer, missing separator, name
\* or colon expected).  The property admits that value or the object/array directly
\* containing it; for a duplicate name it demands the duplicated member.
Structural(tab) == tab.dead /\ tab.why \in {"mismatch", "sep", "name", "colon"}

PointerOK(tab, eptr) ==
    LET stk == StackAfter(tab.toks)
        c == ContainerPtr(stk) IN
    IF tab.why = "dup" THEN eptr \in SlotPtrs(tab, stk)
    ELSE \/ eptr = c
         \/ eptr \in SlotPtrs(tab, stk)
         \/ Structural(tab) /\ Len(c) > 0 /\ eptr = SubSeq(c, 1, Len(c) - 1)

\* an error that is about the input (not about calling ReadValue at a closing delimiter)
InputError(tab, d, op) ==
    ~(More(tab, d) /\ op \in {"val", "skip"} /\ tab.toks[d.ti].k \in {"}", "]"})
=============================================================================
