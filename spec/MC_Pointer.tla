----------------------------- MODULE MC_Pointer -----------------------------
(* Exhaustive check of the pointer laws on token lists over a small          *)
(* alphabet, and emission of cases for replay on jsontext.Pointer.           *)
EXTENDS Pointer, TLC, Json

CONSTANTS Chars, MaxTok, MaxToks, MaxStr, EmitCases

VARIABLES mode, toks, str

vars == <<mode, toks, str>>

Init == mode \in {"toks", "str"} /\ toks = <<>> /\ str = <<>>

\* build token lists: either start a new (empty) token or extend the last one
Next == \/ /\ mode = "toks" /\ Len(toks) < MaxToks
           /\ toks' = Append(toks, <<>>) /\ UNCHANGED <<mode, str>>
        \/ /\ mode = "toks" /\ toks # <<>> /\ Len(toks[Len(toks)]) < MaxTok
           /\ \E c \in Chars : toks' = [toks EXCEPT ![Len(toks)] = Append(@, c)]
           /\ UNCHANGED <<mode, str>>
        \/ /\ mode = "str" /\ Len(str) < MaxStr
           /\ \E c \in Chars : str' = Append(str, c)
           /\ UNCHANGED <<mode, toks>>

Spec == Init /\ [][Next]_vars

Laws == mode = "toks" =>
    LET p == PtrOf(toks) IN
    /\ IsValidPtr(p)
    /\ TokensOf(p) = toks
    /\ \A i \in 1..Len(toks) : Unescape(Escape(toks[i])) = toks[i]
    /\ toks # <<>> => ParentOf(p) = PtrOf(SubSeq(toks, 1, Len(toks) - 1)) /\ LastTokenOf(p) = toks[Len(toks)]
    /\ toks = <<>> => ParentOf(p) = <<>>
    /\ ContainsPtr(ParentOf(p), p) /\ ContainsPtr(p, p)
    /\ (toks # <<>> => ~ContainsPtr(p, ParentOf(p)))

\* ["toks", tokens, pointer, parent, last]   |   ["str", chars, isValid]
EmitInv == EmitCases =>
    IF mode = "toks"
    THEN LET p == PtrOf(toks) IN PrintT(ToJson(<<"toks", toks, p, ParentOf(p), LastTokenOf(p)>>))
    ELSE PrintT(ToJson(<<"str", str, IsValidPtr(str),
                         IF IsValidPtr(str) THEN TokensOf(str) ELSE <<>>,
                         IF IsValidPtr(str) THEN ParentOf(str) ELSE <<>>>>))
=============================================================================
