------------------------------- MODULE Pools -------------------------------
(***************************************************************************)
(* Pooled coders (C18).  Marshal/Unmarshal/Format calls take a coder       *)
(* object from a pool, reset it, use it and put it back - on every exit    *)
(* path.  A coder carries residual attributes from its previous use:       *)
(*   buf      unflushed bytes         stack   open containers              *)
(*   names    open object names       seen    pointers being visited       *)
(*   peek     cached peek result      cache   interned strings (benign)    *)
(* The result of a call may depend on every attribute except cache.        *)
(*                                                                         *)
(* Goroutines: Begin (take any idle object or a new one, then reset),      *)
(* Work (the call dirties attributes; it may fail or panic half way),      *)
(* End (the exit path cleans what reset does not, then Put).               *)
(***************************************************************************)
EXTENDS Integers, FiniteSets, Sequences

CONSTANTS Goroutines, Objects,
          ResetAttrs,     \* attributes cleared by reset on Get
          ExitAttrs       \* attributes cleared by the (deferred) exit path of a call

Attrs == {"buf", "stack", "names", "seen", "peek", "cache"}
Matter == Attrs \ {"cache"}        \* what a call's result may depend on

VARIABLES owner,     \* object -> goroutine or "idle"
          dirty,     \* object -> set of attributes holding residue
          pc,        \* goroutine -> "idle" | "working" | "exiting"
          tainted    \* goroutine -> its current call started on a dirty object

vars == <<owner, dirty, pc, tainted>>

Init == /\ owner = [o \in Objects |-> "idle"]
        /\ dirty = [o \in Objects |-> {}]
        /\ pc = [g \in Goroutines |-> "idle"]
        /\ tainted = [g \in Goroutines |-> FALSE]

Held(g) == {o \in Objects : owner[o] = g}

Begin(g, o) ==
    /\ pc[g] = "idle" /\ owner[o] = "idle"
    /\ owner' = [owner EXCEPT ![o] = g]
    /\ dirty' = [dirty EXCEPT ![o] = @ \ ResetAttrs]
    /\ tainted' = [tainted EXCEPT ![g] = (dirty[o] \ ResetAttrs) \cap Matter # {}]
    /\ pc' = [pc EXCEPT ![g] = "working"]

\* the call dirties some attributes and ends normally, with an error, or with a recovered panic;
\* all three continue on the same (deferred) exit path
Work(g, o, d) ==
    /\ pc[g] = "working" /\ owner[o] = g
    /\ dirty' = [dirty EXCEPT ![o] = @ \cup d]
    /\ pc' = [pc EXCEPT ![g] = "exiting"]
    /\ UNCHANGED <<owner, tainted>>

End(g, o) ==
    /\ pc[g] = "exiting" /\ owner[o] = g
    /\ dirty' = [dirty EXCEPT ![o] = @ \ ExitAttrs]
    /\ owner' = [owner EXCEPT ![o] = "idle"]
    /\ pc' = [pc EXCEPT ![g] = "idle"]
    /\ tainted' = [tainted EXCEPT ![g] = FALSE]

Next == \E g \in Goroutines, o \in Objects :
           \/ Begin(g, o)
           \/ \E d \in SUBSET Attrs : Work(g, o, d)
           \/ End(g, o)

Spec == Init /\ [][Next]_vars

\* an object is used by at most one goroutine, a goroutine uses at most one object per call
Exclusive == \A g \in Goroutines : Cardinality(Held(g)) <= 1 /\ (pc[g] = "idle" <=> Held(g) = {})

\* no call ever starts on residue that could influence its result
Isolated == \A g \in Goroutines : ~tainted[g]

\* what is left on an idle object cannot influence a later call
IdleClean == \A o \in Objects : owner[o] = "idle" => (dirty[o] \ ResetAttrs) \cap Matter = {}
=============================================================================
