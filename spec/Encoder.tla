------------------------------ MODULE Encoder ------------------------------
(***************************************************************************)
(* The streaming Encoder: WriteToken and WriteValue over the grammar       *)
(* push-down automaton, with the rendered output.                          *)
(*                                                                         *)
(* State  fr   the innermost open frame [t, n, names, name]                *)
(*        stk  the enclosing frames, outermost (top level) first; kept     *)
(*             apart from fr so that a call inside a container does not    *)
(*             copy a stack that may be 10000 long                         *)
(*        out  every byte produced so far (delivered or still buffered)    *)
(*                                                                         *)
(* A call is a record:                                                     *)
(*   [op |-> "tok", k |-> kind, b |-> payload bytes]                       *)
(*        kind: "null" "true" "false" "{" "}" "[" "]" "zero" (the zero     *)
(*        Token), "str" (b = bytes of the Go string), "num" (b = the       *)
(*        decimal text the number must be rendered as)                     *)
(*   [op |-> "val", b |-> raw bytes]                                       *)
(* A rejected call leaves stk and out unchanged (the whole point of C06).  *)
(***************************************************************************)
EXTENDS Format

EInit == [stk |-> <<>>, fr |-> [t |-> "t", n |-> 0, names |-> {}, name |-> <<>>], out |-> <<>>]

EDepth(e) == Len(e.stk)
Top(e) == e.fr
\* frame of level i (0 = top level)
FrameAt(e, i) == IF i = Len(e.stk) THEN e.fr ELSE e.stk[i + 1]

NeedName(f)  == f.t = "o" /\ f.n % 2 = 0
NeedValue(f) == f.t = "o" /\ f.n % 2 = 1

\* bytes written before a token of the given class ("close" or "elem") at the current position
Lead(F, e, closing) ==
    LET f == Top(e)  d == EDepth(e) IN
    IF d = 0 THEN <<>>
    ELSE IF closing THEN CloseLead(F, f.n = 0, d)
    ELSE IF NeedValue(f) THEN ColonLead(F)
    ELSE ElemLead(F, f.n = 0, d)

\* a complete top-level value is followed by a newline
Terminate(e) == IF EDepth(e) = 0 THEN [e EXCEPT !.out = Append(@, 10)] ELSE e

\* account for one scalar value / name at the current position
Count(e, isName, cps) ==
    IF isName THEN [e EXCEPT !.fr.n = @ + 1, !.fr.names = @ \cup {cps}, !.fr.name = cps]
    ELSE [e EXCEPT !.fr.n = @ + 1]

Accept(e) == [ok |-> TRUE, next |-> e]
Reject(e) == [ok |-> FALSE, next |-> e]

WriteScalar(F, e, text, isString, cps) ==
    LET f == Top(e) IN
    IF NeedName(f) /\ ~isString THEN Reject(e)
    ELSE IF NeedName(f) /\ ~F.ad /\ cps \in f.names THEN Reject(e)
    ELSE Accept(Terminate(Count([e EXCEPT !.out = @ \o Lead(F, e, FALSE) \o text], NeedName(f), cps)))

WriteTokenStep(F, e, c, maxd) ==
    LET f == Top(e) IN
    CASE c.k \in {"null", "true", "false"} ->
           WriteScalar(F, e, CASE c.k = "null" -> <<110, 117, 108, 108>>
                               [] c.k = "true" -> <<116, 114, 117, 101>>
                               [] c.k = "false" -> <<102, 97, 108, 115, 101>>, FALSE, <<>>)
      [] c.k = "num" -> WriteScalar(F, e, c.b, FALSE, <<>>)
      [] c.k = "str" ->
           LET g == GoDecode(c.b) IN
           IF g.bad /\ ~F.ai THEN Reject(e)
           ELSE WriteScalar(F, e, Quote(g.cps, Esc(F)), TRUE, g.cps)
      [] c.k \in {"{", "["} ->
           IF NeedName(f) \/ EDepth(e) >= maxd THEN Reject(e)
           ELSE Accept([stk |-> Append(e.stk, [e.fr EXCEPT !.n = @ + 1]),
                        fr |-> [t |-> IF c.k = "{" THEN "o" ELSE "a", n |-> 0, names |-> {}, name |-> <<>>],
                        out |-> e.out \o Lead(F, e, FALSE) \o <<IF c.k = "{" THEN 123 ELSE 91>>])
      [] c.k \in {"}", "]"} ->
           IF (c.k = "}" /\ f.t = "o" /\ f.n % 2 = 0) \/ (c.k = "]" /\ f.t = "a")
           THEN Accept(Terminate([stk |-> SubSeq(e.stk, 1, Len(e.stk) - 1),
                                  fr |-> e.stk[Len(e.stk)],
                                  out |-> e.out \o Lead(F, e, TRUE) \o <<IF c.k = "}" THEN 125 ELSE 93>>]))
           ELSE Reject(e)
      [] OTHER -> Reject(e)

\* a raw value: exactly one valid JSON value (surrounding whitespace allowed)
WriteValueStep(F, e, c, maxd) ==
    LET f == Top(e)
        d == EDepth(e)
        s == Finish(Run(Opt(F.ai, F.ad, maxd - d), c.b))
        valid == AtBoundary(s) /\ TopN(s) = 1
        first == IF valid THEN s.toks[1] ELSE [k |-> "none"] IN
    IF ~valid THEN Reject(e)
    ELSE IF first.k \in {"str", "name"}
         THEN WriteScalar(F, e, FormatAt(F, c.b, d, maxd), TRUE, first.str)
    ELSE IF NeedName(f) THEN Reject(e)
    ELSE Accept(Terminate(Count([e EXCEPT !.out = @ \o Lead(F, e, FALSE) \o FormatAt(F, c.b, d, maxd)], FALSE, <<>>)))

ECall(F, e, c, maxd) == IF c.op = "tok" THEN WriteTokenStep(F, e, c, maxd) ELSE WriteValueStep(F, e, c, maxd)

\* observers: OutputOffset, StackDepth, StackIndex (levels 0, d-1, d), StackPointer
EIndex(e, i) == LET f == FrameAt(e, i) IN <<i, CASE f.t = "o" -> 123 [] f.t = "a" -> 91 [] OTHER -> 0, f.n>>
EObserve(e) ==
    LET dep == EDepth(e) IN
    [off |-> Len(e.out), depth |-> dep,
     idx |-> [j \in 1..(IF dep = 0 THEN 1 ELSE IF dep = 1 THEN 2 ELSE 3) |->
                 EIndex(e, IF j = 1 THEN 0 ELSE IF dep = 1 THEN 1 ELSE dep - 3 + j)]]

RECURSIVE EDigits(_)
EDigits(n) == IF n < 10 THEN <<48 + n>> ELSE Append(EDigits(n \div 10), 48 + (n % 10))
EPointer(e) ==
    LET lv == SelectSeq([j \in 1..EDepth(e) |-> FrameAt(e, j)], LAMBDA f : f.n > 0) IN
    [j \in 1..Len(lv) |-> IF lv[j].t = "a" THEN EDigits(lv[j].n - 1) ELSE lv[j].name]
=============================================================================
