------------------------------ MODULE JsonText ------------------------------
(***************************************************************************)
(* What a JSON text is (RFC 8259 grammar, RFC 7493 restrictions).          *)
(*                                                                         *)
(* A byte-level push-down automaton: one Step per input byte.  The state   *)
(* holds the lexer mode, the syntactic expectation, the stack of open      *)
(* containers with the set of member names already seen in each object     *)
(* (names are compared after unescaping, as sequences of code points) and  *)
(* the tokens recognised so far with their byte extents.                   *)
(*                                                                         *)
(* The options are a record o = [ai, ad, maxd]:                            *)
(*   ai   - AllowInvalidUTF8    ad - AllowDuplicateNames                   *)
(*   maxd - maximal nesting depth (10000 in the library)                   *)
(*                                                                         *)
(* Everything else in the specification (Decoder, Encoder, Format, the     *)
(* marshal model) is defined on top of this module.                        *)
(***************************************************************************)
EXTENDS Integers, Sequences, FiniteSets, SequencesExt

WS      == {32, 9, 10, 13}
Digit   == 48..57
RuneErr == 65533

HexVal(b) == IF b \in 48..57 THEN b - 48
             ELSE IF b \in 97..102 THEN b - 87
             ELSE IF b \in 65..70 THEN b - 55 ELSE -1

IsHigh(c) == c \in 55296..56319      \* D800..DBFF
IsLow(c)  == c \in 56320..57343      \* DC00..DFFF
IsSurr(c) == c \in 55296..57343

Lit(k) == CASE k = "n" -> <<117, 108, 108>>          \* "ull"
            [] k = "t" -> <<114, 117, 101>>          \* "rue"
            [] k = "f" -> <<97, 108, 115, 101>>      \* "alse"

(***************************************************************************)
(* State.                                                                  *)
(*  dead  no extension of the bytes consumed so far is acceptable          *)
(*  at    number of bytes consumed                                         *)
(*  lx    lexer mode                                                       *)
(*  ex    syntactic expectation at the current nesting level               *)
(*          TOP  top level, between values        V   a value              *)
(*          VC   value or ']'                     N   a name               *)
(*          NC   name or '}'                      COL ':'                  *)
(*          SEP  ',' or the closer                                         *)
(*  fr    the innermost open frame [t, names, n]: t is "t" (top level),    *)
(*        "o" or "a"; n counts the names and values started in the frame   *)
(*  stack the enclosing frames, outermost first (so Depth = Len(stack));   *)
(*        kept apart from fr so that a step inside a container does not    *)
(*        touch the (possibly 10000 long) sequence                         *)
(*  ts    start offset of the token being lexed                            *)
(*  cur   code points of the string being lexed                            *)
(*  sur   pending high-surrogate escape (0 = none); hs = it must be paired *)
(*  toks  tokens so far: [k, s, e, str]                                    *)
(***************************************************************************)
Init0 == [dead |-> FALSE, at |-> 0, lx |-> "ws", ex |-> "TOP",
          stack |-> <<>>, fr |-> [t |-> "t", names |-> {}, n |-> 0],
          ts |-> 0, lit |-> <<>>, k |-> 0, lo |-> 0, hi |-> 0, cp |-> 0,
          pend |-> 0, sur |-> 0, cur |-> <<>>, isName |-> FALSE,
          toks |-> <<>>, why |-> ""]

Depth(s) == Len(s.stack)

Dead(s, why) == [s EXCEPT !.dead = TRUE, !.why = why]

Emit(s, kind, str) ==
    [s EXCEPT !.toks = Append(@, [k |-> kind, s |-> s.ts, e |-> s.at, str |-> str])]

\* A complete value (scalar or closed container) at the current level.
ValueDone(s) == [s EXCEPT !.fr.n = @ + 1, !.ex = IF s.stack = <<>> THEN "TOP" ELSE "SEP"]

TopN(s) == IF s.stack = <<>> THEN s.fr.n ELSE s.stack[1].n

\* End of a string token whose code points are s.cur (s.at already counts the quote).
StringDone(o, s) ==
    IF s.isName
    THEN LET f == s.fr IN
         IF ~o.ad /\ s.cur \in f.names
         THEN Dead(s, "dup")
         ELSE LET s1 == Emit(s, "name", s.cur) IN
              [s1 EXCEPT !.fr =
                             [f EXCEPT !.names = IF o.ad THEN @ ELSE @ \cup {s.cur},
                                       !.n = @ + 1],
                         !.ex = "COL", !.lx = "ws", !.cur = <<>>, !.isName = FALSE]
    ELSE LET s1 == ValueDone(Emit(s, "str", s.cur)) IN
         [s1 EXCEPT !.lx = "ws", !.cur = <<>>]

\* Append one code point to the current string.
Push(s, c) == [s EXCEPT !.cur = Append(@, c)]

\* A pending high surrogate that turned out to be unpaired.
FlushSur(o, s) ==
    IF s.sur = 0 THEN s
    ELSE IF o.ai THEN [Push(s, RuneErr) EXCEPT !.sur = 0]
    ELSE Dead(s, "surrogate")

\* Result of a complete \uXXXX escape with value c.
EscapeDone(o, s, c) ==
    IF s.sur # 0 /\ IsLow(c)
    THEN [Push(s, 65536 + (s.sur - 55296) * 1024 + (c - 56320))
             EXCEPT !.sur = 0, !.lx = "str"]
    ELSE LET s1 == FlushSur(o, s) IN
         IF s1.dead THEN s1
         ELSE IF IsHigh(c) THEN [s1 EXCEPT !.sur = c, !.lx = "str"]
         ELSE IF IsLow(c) THEN
              IF o.ai THEN [Push(s1, RuneErr) EXCEPT !.lx = "str"]
              ELSE Dead(s1, "surrogate")
         ELSE [Push(s1, c) EXCEPT !.lx = "str"]

\* ---------------------------------------------------------------- strings
\* Byte b while inside a string, no escape or multi-byte sequence pending.
StrByte(o, s0, b) ==
    LET s == IF b = 92 THEN s0 ELSE FlushSur(o, s0) IN
    IF s.dead THEN s
    ELSE IF b = 34 THEN StringDone(o, s)
    ELSE IF b = 92 THEN [s EXCEPT !.lx = "esc"]
    ELSE IF b < 32 THEN Dead(s, "control")
    ELSE IF b < 128 THEN Push(s, b)
    ELSE IF b \in 194..223 THEN [s EXCEPT !.lx = "u8", !.k = 1, !.lo = 128, !.hi = 191, !.cp = b - 192, !.pend = 1]
    ELSE IF b \in 224..239 THEN [s EXCEPT !.lx = "u8", !.k = 2, !.cp = b - 224, !.pend = 1,
                                          !.lo = IF b = 224 THEN 160 ELSE 128,
                                          !.hi = IF b = 237 THEN 159 ELSE 191]
    ELSE IF b \in 240..244 THEN [s EXCEPT !.lx = "u8", !.k = 3, !.cp = b - 240, !.pend = 1,
                                          !.lo = IF b = 240 THEN 144 ELSE 128,
                                          !.hi = IF b = 244 THEN 143 ELSE 191]
    ELSE IF o.ai THEN Push(s, RuneErr) ELSE Dead(s, "utf8")

\* Each byte of an ill-formed sequence becomes one U+FFFD.
PushErrs(s, n) == [s EXCEPT !.cur = @ \o [i \in 1..n |-> RuneErr]]

\* --------------------------------------------------------------- numbers
NumAccepting(lx) == lx \in {"zero", "int", "frac", "exp"}
NumMode(lx) == lx \in {"neg", "zero", "int", "dot", "frac", "exp0", "exps", "exp"}

\* Start of a token in a position where a value may begin.
StartValue(o, s, b) ==
    LET s1 == [s EXCEPT !.ts = s.at - 1] IN
    IF b = 34 THEN [s1 EXCEPT !.lx = "str", !.cur = <<>>, !.isName = FALSE, !.sur = 0]
    ELSE IF b = 110 THEN [s1 EXCEPT !.lx = "lit", !.lit = Lit("n"), !.k = 110]
    ELSE IF b = 116 THEN [s1 EXCEPT !.lx = "lit", !.lit = Lit("t"), !.k = 116]
    ELSE IF b = 102 THEN [s1 EXCEPT !.lx = "lit", !.lit = Lit("f"), !.k = 102]
    ELSE IF b = 45 THEN [s1 EXCEPT !.lx = "neg"]
    ELSE IF b = 48 THEN [s1 EXCEPT !.lx = "zero"]
    ELSE IF b \in 49..57 THEN [s1 EXCEPT !.lx = "int"]
    ELSE IF b \in {123, 91} THEN
         IF Len(s.stack) >= o.maxd THEN Dead(s1, "depth")
         ELSE [Emit(s1, IF b = 123 THEN "{" ELSE "[", <<>>)
                 EXCEPT !.stack = Append(@, [s.fr EXCEPT !.n = @ + 1]),   \* counted when it starts
                        !.fr = [t |-> IF b = 123 THEN "o" ELSE "a", names |-> {}, n |-> 0],
                        !.ex = IF b = 123 THEN "NC" ELSE "VC"]
    ELSE Dead(s1, "value")

Close(o, s, b) ==
    LET f == s.fr
        s1 == [s EXCEPT !.ts = s.at - 1] IN
    IF (b = 125 /\ f.t = "o") \/ (b = 93 /\ f.t = "a")
    THEN [Emit(s1, IF b = 125 THEN "}" ELSE "]", <<>>)
             EXCEPT !.stack = SubSeq(@, 1, Len(@) - 1),
                    !.fr = s.stack[Len(s.stack)],
                    !.ex = IF Len(s.stack) = 1 THEN "TOP" ELSE "SEP"]
    ELSE Dead(s1, "mismatch")

\* Byte b between tokens.
WsByte(o, s, b) ==
    IF b \in WS THEN s
    ELSE CASE s.ex \in {"TOP", "V"} -> StartValue(o, s, b)
           [] s.ex = "VC" -> IF b = 93 THEN Close(o, s, b) ELSE StartValue(o, s, b)
           [] s.ex \in {"N", "NC"} ->
                IF b = 34 THEN [s EXCEPT !.ts = s.at - 1, !.lx = "str", !.cur = <<>>,
                                         !.isName = TRUE, !.sur = 0]
                ELSE IF b = 125 /\ s.ex = "NC" THEN Close(o, s, b)
                ELSE Dead(s, "name")
           [] s.ex = "COL" -> IF b = 58 THEN [s EXCEPT !.ex = "V"] ELSE Dead(s, "colon")
           [] s.ex = "SEP" ->
                IF b = 44 THEN [s EXCEPT !.ex = IF s.fr.t = "o" THEN "N" ELSE "V"]
                ELSE IF b \in {125, 93} THEN Close(o, s, b)
                ELSE Dead(s, "sep")

NumberDone(s) == ValueDone(Emit([s EXCEPT !.lx = "ws"], "num", <<>>))

(***************************************************************************)
(* One byte.  s.at is advanced first; token extents are [ts, at).          *)
(***************************************************************************)
Step(o, s0, b) ==
    IF s0.dead THEN s0 ELSE
    LET s == [s0 EXCEPT !.at = @ + 1] IN
    CASE s.lx = "ws" -> WsByte(o, s, b)
      [] s.lx = "lit" ->
            IF b = Head(s.lit)
            THEN IF Len(s.lit) = 1
                 THEN [ValueDone(Emit(s, CASE s.k = 110 -> "null" [] s.k = 116 -> "true" [] s.k = 102 -> "false", <<>>))
                          EXCEPT !.lx = "ws"]
                 ELSE [s EXCEPT !.lit = Tail(@)]
            ELSE Dead(s, "literal")
      [] s.lx = "str" -> StrByte(o, s, b)
      [] s.lx = "esc" ->
            IF b = 117 THEN [s EXCEPT !.lx = "hex", !.k = 4, !.cp = 0]
            ELSE LET s1 == FlushSur(o, s)
                     c == CASE b = 34 -> 34 [] b = 92 -> 92 [] b = 47 -> 47
                            [] b = 98 -> 8 [] b = 102 -> 12 [] b = 110 -> 10
                            [] b = 114 -> 13 [] b = 116 -> 9 [] OTHER -> -1 IN
                 IF s1.dead THEN s1
                 ELSE IF c < 0 THEN Dead(s1, "escape")
                 ELSE [Push(s1, c) EXCEPT !.lx = "str"]
      [] s.lx = "hex" ->
            IF HexVal(b) < 0 THEN Dead(s, "escape")
            ELSE IF s.sur # 0 /\ ~o.ai /\ ((s.k = 4 /\ HexVal(b) # 13) \/ (s.k = 3 /\ HexVal(b) < 12))
                 THEN Dead(s, "surrogate")      \* cannot become \uDC00..\uDFFF any more
            ELSE IF s.k = 1 THEN EscapeDone(o, s, s.cp * 16 + HexVal(b))
            ELSE [s EXCEPT !.k = @ - 1, !.cp = @ * 16 + HexVal(b)]
      [] s.lx = "u8" ->
            IF b \in s.lo..s.hi
            THEN IF s.k = 1 THEN [Push(s, s.cp * 64 + (b - 128)) EXCEPT !.lx = "str", !.pend = 0]
                 ELSE [s EXCEPT !.k = @ - 1, !.cp = @ * 64 + (b - 128), !.lo = 128, !.hi = 191,
                                !.pend = @ + 1]
            ELSE IF o.ai THEN StrByte(o, [PushErrs(s, s.pend) EXCEPT !.lx = "str", !.pend = 0], b)
            ELSE Dead(s, "utf8")
      [] s.lx = "neg" -> IF b = 48 THEN [s EXCEPT !.lx = "zero"]
                         ELSE IF b \in 49..57 THEN [s EXCEPT !.lx = "int"]
                         ELSE Dead(s, "number")
      [] s.lx \in {"zero", "int", "frac", "exp"} ->
            IF b \in Digit /\ s.lx # "zero" THEN s
            ELSE IF b = 46 /\ s.lx \in {"zero", "int"} THEN [s EXCEPT !.lx = "dot"]
            ELSE IF b \in {101, 69} /\ s.lx \in {"zero", "int", "frac"} THEN [s EXCEPT !.lx = "exp0"]
            ELSE \* the number ended one byte ago; b belongs to what follows
                 LET s1 == NumberDone([s EXCEPT !.at = s0.at]) IN
                 WsByte(o, [s1 EXCEPT !.at = s.at], b)
      [] s.lx = "dot" -> IF b \in Digit THEN [s EXCEPT !.lx = "frac"] ELSE Dead(s, "number")
      [] s.lx = "exp0" -> IF b \in Digit THEN [s EXCEPT !.lx = "exp"]
                          ELSE IF b \in {43, 45} THEN [s EXCEPT !.lx = "exps"]
                          ELSE Dead(s, "number")
      [] s.lx = "exps" -> IF b \in Digit THEN [s EXCEPT !.lx = "exp"] ELSE Dead(s, "number")

\* End of input: a number that may legitimately end here is completed.
Finish(s) == IF ~s.dead /\ NumAccepting(s.lx) THEN NumberDone(s) ELSE s

Run(o, bytes) == FoldLeft(LAMBDA s, b : Step(o, s, b), Init0, bytes)

AtBoundary(s) == ~s.dead /\ s.lx = "ws" /\ s.stack = <<>>

\* Exactly one JSON text (IsValid, Unmarshal).
ValidOne(o, bytes) == LET s == Finish(Run(o, bytes)) IN AtBoundary(s) /\ TopN(s) = 1
\* A stream of zero or more texts (Decoder read until io.EOF).
ValidStream(o, bytes) == AtBoundary(Finish(Run(o, bytes)))
\* Some extension might still be accepted.
Viable(o, bytes) == ~Run(o, bytes).dead

\* Offset of the first byte at which the text became unacceptable (0-based), or -1.
DeadAt(o, bytes) == LET s == Run(o, bytes) IN IF s.dead THEN s.at - 1 ELSE -1

Opt(ai, ad, maxd) == [ai |-> ai, ad |-> ad, maxd |-> maxd]
=============================================================================
