----------------------------- MODULE MC_Unquote -----------------------------
(* Every JSON string literal over an escape-critical alphabet (up to a length *)
(* bound) with its RFC 8259 meaning: the code points JsonText assigns to it,  *)
(* whether it is valid only when invalid UTF-8 is allowed, for replay on      *)
(* AppendUnquote and on decoder tokens (C11).                                 *)
EXTENDS Strings, TLC, Json

CONSTANTS Alphabet, Prefix, MaxLen, EmitCases

VARIABLES bytes, st     \* st[1] strict, st[2] AllowInvalidUTF8

O(i) == Opt(i = 2, FALSE, 10)
Init == bytes = Prefix /\ st = [i \in 1..2 |-> Run(O(i), Prefix)]
Next == /\ Len(bytes) < Len(Prefix) + MaxLen
        /\ ~st[2].dead /\ ~AtBoundary(st[2])          \* stop once the literal is closed
        /\ \E b \in Alphabet : bytes' = Append(bytes, b) /\ st' = [i \in 1..2 |-> Step(O(i), st[i], b)]
Spec == Init /\ [][Next]_<<bytes, st>>

Closed(i) == ~st[i].dead /\ AtBoundary(st[i]) /\ Len(st[i].toks) = 1

\* re-quoting the meaning and unquoting again is the identity (model theorem)
Stable == Closed(2) =>
    LET cps == st[2].toks[1].str
        r == Finish(Run(O(1), Quote(cps, NoEsc))) IN
    AtBoundary(r) /\ r.toks[1].str = cps

\* [literal, valid without AllowInvalidUTF8, code points]
EmitInv == (EmitCases /\ Closed(2)) => PrintT(ToJson(<<bytes, Closed(1), st[2].toks[1].str>>))
=============================================================================
