------------------------------ MODULE Numbers ------------------------------
(***************************************************************************)
(* JSON number literals as digit strings.  TLC integers are 32 bit, so no  *)
(* number is ever converted to an integer: a literal is normalised to      *)
(*     (neg, digits d1..dk without leading/trailing zeros, n)              *)
(* denoting 0.d1..dk * 10^n (k = 0 for zero), literals are compared by     *)
(* length and then lexicographically, and the ECMA-262 Number::toString    *)
(* layout is a function of (digits, n).                                    *)
(***************************************************************************)
EXTENDS Integers, Sequences, SequencesExt

IsDigit(b) == b \in 48..57

\* exponents beyond this are clamped: far outside every float64 / integer range
ExpCap == 100000

\* split a valid JSON number literal
ParseNumber(lit) ==
    LET neg == lit[1] = 45
        body == IF neg THEN Tail(lit) ELSE lit
        st == FoldLeft(LAMBDA a, b :
                 IF a.m = "int" THEN (IF IsDigit(b) THEN [a EXCEPT !.int = Append(@, b - 48)]
                                      ELSE IF b = 46 THEN [a EXCEPT !.m = "frac"]
                                      ELSE [a EXCEPT !.m = "exp0"])
                 ELSE IF a.m = "frac" THEN (IF IsDigit(b) THEN [a EXCEPT !.frac = Append(@, b - 48)]
                                            ELSE [a EXCEPT !.m = "exp0"])
                 ELSE IF b = 45 THEN [a EXCEPT !.eneg = TRUE, !.m = "exp"]
                 ELSE IF b = 43 THEN [a EXCEPT !.m = "exp"]
                 ELSE [a EXCEPT !.m = "exp", !.exp = IF @ * 10 + (b - 48) > ExpCap THEN ExpCap ELSE @ * 10 + (b - 48)],
               [m |-> "int", int |-> <<>>, frac |-> <<>>, exp |-> 0, eneg |-> FALSE], body)
    IN [neg |-> neg, int |-> st.int, frac |-> st.frac, exp |-> IF st.eneg THEN -st.exp ELSE st.exp,
        isFloat |-> \E i \in 1..Len(lit) : lit[i] \in {46, 101, 69}]

RECURSIVE StripLeft(_)
StripLeft(d) == IF d # <<>> /\ d[1] = 0 THEN StripLeft(Tail(d)) ELSE d
RECURSIVE StripRight(_)
StripRight(d) == IF d # <<>> /\ d[Len(d)] = 0 THEN StripRight(SubSeq(d, 1, Len(d) - 1)) ELSE d

\* normal form [neg, d, n]: value = (-1)^neg * 0.d1..dk * 10^n
Normal(lit) ==
    LET p == ParseNumber(lit)
        all == p.int \o p.frac
        l == StripLeft(all)
        d == StripRight(l) IN
    [neg |-> p.neg, d |-> d, n |-> IF d = <<>> THEN 0 ELSE Len(l) + p.exp - Len(p.frac), isFloat |-> p.isFloat]

Chars(d) == [i \in 1..Len(d) |-> 48 + d[i]]
Zeros(k) == [i \in 1..k |-> 48]

RECURSIVE NatChars(_)
NatChars(v) == IF v < 10 THEN <<48 + v>> ELSE Append(NatChars(v \div 10), 48 + (v % 10))

\* ECMA-262 Number::toString for the value 0.d1..dk * 10^n (k >= 1)
EcmaLayout(neg, d, n) ==
    LET k == Len(d)
        sign == IF neg THEN <<45>> ELSE <<>>
        body ==
          IF k <= n /\ n <= 21 THEN Chars(d) \o Zeros(n - k)
          ELSE IF 0 < n /\ n <= 21 THEN Chars(SubSeq(d, 1, n)) \o <<46>> \o Chars(SubSeq(d, n + 1, k))
          ELSE IF -6 < n /\ n <= 0 THEN <<48, 46>> \o Zeros(-n) \o Chars(d)
          ELSE LET e == n - 1
                   es == (IF e < 0 THEN <<45>> ELSE <<43>>) \o NatChars(IF e < 0 THEN -e ELSE e) IN
               IF k = 1 THEN Chars(d) \o <<101>> \o es
               ELSE <<48 + d[1]>> \o <<46>> \o Chars(SubSeq(d, 2, k)) \o <<101>> \o es
    IN sign \o body

(***************************************************************************)
(* A decimal with at most 15 significant digits and a value well inside    *)
(* the float64 range is the shortest decimal of the float64 nearest to it  *)
(* (DBL_DIG = 15), so its canonical ECMA spelling is a function of the     *)
(* literal alone.  Everything else needs arbitrary precision arithmetic    *)
(* and is supplied by the projection (see DESIGN.md section 7).            *)
(***************************************************************************)
Decidable(nf) == Len(nf.d) <= 15 /\ nf.n > -290 /\ nf.n < 290

\* canonical number spelling of a raw literal under the CanonicalizeRaw* options
\* (cri, crf).  "?" elements mark a result the specification does not decide.
CanonNumber(lit, cri, crf) ==
    IF ~(cri \/ crf) THEN lit
    ELSE IF lit = <<45, 48>> THEN <<48>>
    ELSE LET nf == Normal(lit) IN
         IF nf.isFloat /\ ~crf THEN lit
         ELSE IF ~nf.isFloat /\ (~cri \/ Len(lit) < 16) THEN lit
         ELSE IF nf.d = <<>> THEN <<48>>
         ELSE IF Decidable(nf) THEN EcmaLayout(nf.neg, nf.d, nf.n)
         \* 0.d1..dk * 10^n: from n = 310 on beyond the largest float64 - saturated;
         \* up to n = -330 below half the smallest one - zero (and -0 is written 0)
         ELSE IF nf.n >= 310 THEN EcmaLayout(nf.neg, <<1, 7, 9, 7, 6, 9, 3, 1, 3, 4, 8, 6, 2, 3, 1, 5, 7>>, 309)
         ELSE IF nf.n <= -330 THEN <<48>>
         ELSE <<63>>

(***************************************************************************)
(* Integers.  A JSON number converts to a Go integer only if it is         *)
(* spelled as an integer: optional minus, digits without leading zeros, no *)
(* fraction, no exponent.  Unsigned destinations refuse any minus sign     *)
(* (also -0).  Ranges are decided on digit strings.                        *)
(***************************************************************************)
IsIntSyntax(lit) ==
    LET body == IF lit # <<>> /\ lit[1] = 45 THEN Tail(lit) ELSE lit IN
    /\ body # <<>>
    /\ \A i \in 1..Len(body) : IsDigit(body[i])
    /\ (Len(body) > 1 => body[1] # 48)

\* magnitude digits (as numbers 0..9) of an integer literal
MagOf(lit) == LET body == IF lit[1] = 45 THEN Tail(lit) ELSE lit IN [i \in 1..Len(body) |-> body[i] - 48]

\* comparison of magnitudes without leading zeros
MagLess(a, b) == Len(a) < Len(b) \/ (Len(a) = Len(b) /\ \E i \in 1..Len(a) : a[i] < b[i] /\ \A j \in 1..(i - 1) : a[j] = b[j])
MagLeq(a, b) == a = b \/ MagLess(a, b)

Pow2(bits) == CASE bits = 7 -> <<1, 2, 8>>
                [] bits = 8 -> <<2, 5, 6>>
                [] bits = 15 -> <<3, 2, 7, 6, 8>>
                [] bits = 16 -> <<6, 5, 5, 3, 6>>
                [] bits = 31 -> <<2, 1, 4, 7, 4, 8, 3, 6, 4, 8>>
                [] bits = 32 -> <<4, 2, 9, 4, 9, 6, 7, 2, 9, 6>>
                [] bits = 63 -> <<9, 2, 2, 3, 3, 7, 2, 0, 3, 6, 8, 5, 4, 7, 7, 5, 8, 0, 8>>
                [] bits = 64 -> <<1, 8, 4, 4, 6, 7, 4, 4, 0, 7, 3, 7, 0, 9, 5, 5, 1, 6, 1, 6>>

\* value in range of an integer type: signed: -2^(b-1) <= v <= 2^(b-1)-1; unsigned: 0 <= v <= 2^b-1
InRange(neg, mag, bits, signed) ==
    IF signed THEN (IF neg /\ mag # <<0>> THEN MagLeq(mag, Pow2(bits - 1)) ELSE MagLess(mag, Pow2(bits - 1)))
    ELSE MagLess(mag, Pow2(bits))

\* unmarshaling the literal into an integer destination succeeds
IntAccepts(lit, bits, signed) ==
    /\ IsIntSyntax(lit)
    /\ (signed \/ lit[1] # 45)
    /\ InRange(lit[1] = 45, MagOf(lit), bits, signed)

(***************************************************************************)
(* Token.Int / Token.Uint on a number read from JSON text: the value and   *)
(* the class of error.  A number that is not spelled as a (signed /        *)
(* unsigned) integer is a syntax error and yields its truncation toward    *)
(* zero, saturated; an integer outside the 64-bit range is a range error   *)
(* and yields the nearest bound.  Values are [neg, mag].                   *)
(***************************************************************************)
\* integer part (truncation toward zero) of the normal form, as magnitude digits
TruncMag(nf) == IF nf.d = <<>> \/ nf.n <= 0 THEN <<0>>
                ELSE IF nf.n >= Len(nf.d) THEN nf.d \o [i \in 1..(nf.n - Len(nf.d)) |-> 0]
                ELSE SubSeq(nf.d, 1, nf.n)

MaxI64 == <<9, 2, 2, 3, 3, 7, 2, 0, 3, 6, 8, 5, 4, 7, 7, 5, 8, 0, 7>>
MaxU64 == <<1, 8, 4, 4, 6, 7, 4, 4, 0, 7, 3, 7, 0, 9, 5, 5, 1, 6, 1, 5>>

SatInt(neg, mag) == IF neg /\ mag # <<0>> THEN (IF MagLeq(mag, Pow2(63)) THEN [neg |-> TRUE, mag |-> mag] ELSE [neg |-> TRUE, mag |-> Pow2(63)])
                    ELSE IF MagLess(mag, Pow2(63)) THEN [neg |-> FALSE, mag |-> mag] ELSE [neg |-> FALSE, mag |-> MaxI64]
SatUint(neg, mag) == IF neg THEN [neg |-> FALSE, mag |-> <<0>>]
                     ELSE IF MagLess(mag, Pow2(64)) THEN [neg |-> FALSE, mag |-> mag] ELSE [neg |-> FALSE, mag |-> MaxU64]

\* the literal is small enough for the truncation to be exact in the implementation's float64 detour
TruncDecidable(nf) == Len(nf.d) <= 15 \/ nf.n > 25

TokenInt(lit) ==
    IF IsIntSyntax(lit)
    THEN LET neg == lit[1] = 45  mag == MagOf(lit) IN
         [v |-> SatInt(neg, mag), err |-> IF InRange(neg, mag, 64, TRUE) THEN "nil" ELSE "range"]
    ELSE LET nf == Normal(lit) IN [v |-> SatInt(nf.neg, TruncMag(nf)), err |-> "syntax"]

TokenUint(lit) ==
    IF IsIntSyntax(lit) /\ lit[1] # 45
    THEN LET mag == MagOf(lit) IN
         [v |-> SatUint(FALSE, mag), err |-> IF InRange(FALSE, mag, 64, FALSE) THEN "nil" ELSE "range"]
    ELSE LET nf == Normal(lit) IN [v |-> SatUint(nf.neg \/ lit[1] = 45, TruncMag(nf)), err |-> "syntax"]

(***************************************************************************)
(* Token.Int / Token.Uint on a token constructed from a Go number          *)
(* (Int, Uint, Float, Float32): the classification follows the value, not  *)
(* a spelling: a value with a fractional part is a syntax error            *)
(* (truncated), an integral value outside the range a range error          *)
(* (saturated); any negative value, also -0, is a syntax error for Uint.   *)
(***************************************************************************)
Integral(nf) == nf.d = <<>> \/ nf.n >= Len(nf.d)

ValueInt(nf) ==
    LET mag == TruncMag(nf) IN
    [v |-> SatInt(nf.neg, mag),
     err |-> IF ~Integral(nf) THEN "syntax" ELSE IF InRange(nf.neg /\ nf.d # <<>>, mag, 64, TRUE) THEN "nil" ELSE "range"]

ValueUint(nf) ==
    LET mag == TruncMag(nf) IN
    [v |-> SatUint(nf.neg, mag),
     err |-> IF ~Integral(nf) \/ nf.neg THEN "syntax" ELSE IF InRange(FALSE, mag, 64, FALSE) THEN "nil" ELSE "range"]
=============================================================================
