----------------------------- MODULE MC_Dispatch -----------------------------
(* All configurations of user-supplied marshal code for one type (bounded):   *)
(* 81 receiver assignments x behaviours of the first applicable candidates x  *)
(* function lists.  Model theorems: exactly the candidates before the one     *)
(* that answers are invoked, each at most once and in the documented order;   *)
(* nothing is invoked on a nil pointer; a candidate that wrote to the encoder *)
(* or returned anything but exactly one value never yields success.           *)
EXTENDS Dispatch, TLC, Json

CONSTANTS EmitCases, Behs, FuncLists, Dir

VARIABLE cfg

Recvs == IF Dir = "marshal" THEN [{"to", "json", "app", "text"} -> {"n", "v", "p"}]
         ELSE [{"from", "json", "text"} -> {"n", "p"}]
Names == {"to", "from", "json", "app", "text", "f1", "f2"}

\* behaviours vary for the first two candidates only; the rest answer "ok"
Init == \E r \in Recvs, fl \in FuncLists, b1 \in Behs, b2 \in Behs, nl \in BOOLEAN :
          LET base == [dir |-> Dir, recv |-> r, funcs |-> fl, nil |-> nl /\ Dir = "marshal", beh |-> [n \in Names |-> "ok"]]
              cs == Candidates(base) IN
          cfg = [base EXCEPT !.beh = [n \in Names |->
                                        IF Len(cs) >= 1 /\ n = cs[1].name THEN b1
                                        ELSE IF Len(cs) >= 2 /\ n = cs[2].name THEN b2 ELSE "ok"]]
Next == UNCHANGED cfg
Spec == Init /\ [][Next]_cfg

D == Dispatch(cfg)

Ordered ==
    LET cs == Candidates(cfg) IN
    /\ Len(D.calls) <= Len(cs)
    /\ \A i \in 1..Len(D.calls) : D.calls[i] = cs[i].name           \* a prefix of the candidates, in order
    /\ cfg.nil => D.calls = <<>>
    /\ (D.out[1] = "by") => cfg.beh[D.out[2]] = "ok" /\ D.calls[Len(D.calls)] = D.out[2]
    /\ \A i \in 1..(Len(D.calls) - 1) : cfg.beh[D.calls[i]] = "unsup" /\ cs[i].coder

EmitInv == EmitCases => PrintT(ToJson(<<cfg.recv, cfg.funcs, cfg.beh, cfg.nil, D.calls, D.out, cfg.dir>>))
=============================================================================
