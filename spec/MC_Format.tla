----------------------------- MODULE MC_Format -----------------------------
(* The Format family over all byte strings of a bounded universe (prefix +  *)
(* strings over an alphabet, pruned at the first dead byte) x a list of     *)
(* (entry point, caller options).  Model theorems (C12, C13):               *)
(*   ResValid    a successful result is valid under the effective options   *)
(*   SameMeaning it denotes the same value: strings by code points, numbers *)
(*               by normal form (modulo -0 under canonicalisation), members *)
(*               in order unless ReorderRawObjects                          *)
(*   Idem        formatting the result again changes nothing                *)
(*   CanonForm   Canonicalize: no whitespace, members sorted by UTF-16,     *)
(*               minimal strings                                            *)
(* Every (text, case) is emitted with the predicted result for replay.      *)
EXTENDS Format, JsonValue, TLC, Json

CONSTANTS Alphabet, Prefix, MaxLen, Cases, MaxD, EmitCases, CheckLaws

VARIABLES bytes, st

Permissive == Opt(TRUE, TRUE, MaxD)

Init == bytes = Prefix /\ st = Run(Permissive, Prefix)

Next == /\ Len(bytes) < Len(Prefix) + MaxLen
        /\ ~st.dead
        /\ \E b \in Alphabet : bytes' = Append(bytes, b) /\ st' = Step(Permissive, st, b)

Spec == Init /\ [][Next]_<<bytes, st>>

Res(c) == FormatResult(c.entry, c.g, bytes, MaxD, <<>>)

NumSame(a, b) == a = b \/ (a.t = "num" /\ b.t = "num" /\ a.d = <<>> /\ b.d = <<>>)

RECURSIVE TreeSame(_, _)
TreeSame(a, b) ==
    IF a.t # b.t THEN FALSE
    ELSE IF a.t = "num" THEN NumSame(a, b)
    ELSE IF a.t = "arr" THEN Len(a.e) = Len(b.e) /\ \A i \in 1..Len(a.e) : TreeSame(a.e[i], b.e[i])
    ELSE IF a.t = "obj" THEN Len(a.m) = Len(b.m) /\ \A i \in 1..Len(a.m) :
                                a.m[i][1] = b.m[i][1] /\ TreeSame(a.m[i][2], b.m[i][2])
    ELSE a = b

\* -0 becomes 0 under canonicalisation: forget the sign of zero before comparing bags
RECURSIVE Unsign(_)
Unsign(v) == IF v.t = "num" /\ v.d = <<>> THEN [v EXCEPT !.neg = FALSE]
             ELSE IF v.t = "arr" THEN [v EXCEPT !.e = [i \in 1..Len(v.e) |-> Unsign(v.e[i])]]
             ELSE IF v.t = "obj" THEN [v EXCEPT !.m = [i \in 1..Len(v.m) |-> <<v.m[i][1], Unsign(v.m[i][2])>>]]
             ELSE v

NoWS(out) == \* no whitespace outside strings: every whitespace byte lies inside a string token
    LET s == Finish(Run(Permissive, out)) IN
    \A i \in 1..Len(out) : out[i] \in WS =>
        \E k \in 1..Len(s.toks) : s.toks[k].k \in {"str", "name"} /\ s.toks[k].s < i /\ i <= s.toks[k].e

RECURSIVE SortedTree(_)
SortedTree(v) ==
    IF v.t = "arr" THEN \A i \in 1..Len(v.e) : SortedTree(v.e[i])
    ELSE IF v.t = "obj" THEN /\ \A i \in 1..Len(v.m) : SortedTree(v.m[i][2])
                             /\ \A i \in 1..(Len(v.m) - 1) : ~SeqLess(Utf16(v.m[i + 1][1]), Utf16(v.m[i][1]))
    ELSE TRUE

MinimalStrings(out) ==
    LET s == Finish(Run(Permissive, out)) IN
    \A k \in 1..Len(s.toks) : s.toks[k].k \in {"str", "name"} =>
        SubSeq(out, s.toks[k].s + 1, s.toks[k].e) = Quote(s.toks[k].str, NoEsc)

Laws == CheckLaws => \A ci \in 1..Len(Cases) :
    LET c == Cases[ci]
        F == Effective(c.entry, c.g)
        o == Opt(F.ai, F.ad, MaxD)
        r == Res(c) IN
    /\ r.ok = ValidOne(o, bytes)
    /\ ~r.ok => r.out = bytes
    /\ r.ok =>
         /\ ValidOne(o, r.out)
         /\ FormatResult(c.entry, c.g, r.out, MaxD, <<>>) = r
         /\ LET a == Meaning(o, bytes)  b == Meaning(o, r.out) IN
            IF F.ror THEN Unordered(Unsign(a)) = Unordered(Unsign(b)) ELSE TreeSame(a, b)
         /\ (c.entry = "canon" /\ c.g.set = {}) =>
               NoWS(r.out) /\ SortedTree(Meaning(o, r.out)) /\ MinimalStrings(r.out)

\* (a case whose output holds a number the specification does not spell by itself - an
\* exponent next to the limits of float64 - is not emitted: C10 decides those)
EmitInv == EmitCases => \A ci \in 1..Len(Cases) :
    LET r == Res(Cases[ci]) IN
    (r.ok => AllDecidable(Effective(Cases[ci].entry, Cases[ci].g), bytes, MaxD)) =>
        PrintT(ToJson(<<bytes, Cases[ci].entry, Cases[ci].g, r.ok, r.out>>))
=============================================================================
