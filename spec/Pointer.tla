------------------------------ MODULE Pointer ------------------------------
(* RFC 6901 JSON Pointers over character sequences.  A pointer is the        *)
(* concatenation of "/" + Escape(token) for each reference token, where      *)
(* "~" is spelled "~0" and "/" is spelled "~1".                              *)
EXTENDS Integers, Sequences, SequencesExt

TILDE == 126
SLASH == 47

Escape(tok) == FoldLeft(LAMBDA acc, c : IF c = TILDE THEN acc \o <<TILDE, 48>>
                                         ELSE IF c = SLASH THEN acc \o <<TILDE, 49>>
                                         ELSE Append(acc, c), <<>>, tok)

PtrOf(toks) == FoldLeft(LAMBDA acc, t : acc \o <<SLASH>> \o Escape(t), <<>>, toks)

\* a character sequence is a valid pointer: empty or starting with "/", every "~" followed by 0 or 1
IsValidPtr(p) == /\ (p = <<>> \/ p[1] = SLASH)
                 /\ \A i \in 1..Len(p) : p[i] = TILDE => i < Len(p) /\ p[i + 1] \in {48, 49}

\* split a valid pointer into its unescaped tokens (independent of PtrOf)
RECURSIVE Unescape(_)
Unescape(t) == IF t = <<>> THEN <<>>
               ELSE IF t[1] = TILDE /\ Len(t) >= 2 /\ t[2] = 48 THEN <<TILDE>> \o Unescape(SubSeq(t, 3, Len(t)))
               ELSE IF t[1] = TILDE /\ Len(t) >= 2 /\ t[2] = 49 THEN <<SLASH>> \o Unescape(SubSeq(t, 3, Len(t)))
               ELSE <<t[1]>> \o Unescape(Tail(t))

RECURSIVE RawTokens(_)
RawTokens(p) == IF p = <<>> THEN <<>>
                ELSE LET rest == Tail(p)      \* drop the leading "/"
                         n == IF \E i \in 1..Len(rest) : rest[i] = SLASH
                              THEN (CHOOSE i \in 1..Len(rest) : rest[i] = SLASH /\ \A j \in 1..(i - 1) : rest[j] # SLASH) - 1
                              ELSE Len(rest) IN
                     <<SubSeq(rest, 1, n)>> \o RawTokens(SubSeq(rest, n + 1, Len(rest)))

TokensOf(p) == [i \in 1..Len(RawTokens(p)) |-> Unescape(RawTokens(p)[i])]

ParentOf(p) == LET ts == RawTokens(p) IN
               IF ts = <<>> THEN <<>>
               ELSE FoldLeft(LAMBDA acc, t : acc \o <<SLASH>> \o t, <<>>, SubSeq(ts, 1, Len(ts) - 1))

LastTokenOf(p) == LET ts == TokensOf(p) IN IF ts = <<>> THEN <<>> ELSE ts[Len(ts)]

\* p designates a value that equals or contains the value pc designates
ContainsPtr(p, pc) == LET a == RawTokens(p)  b == RawTokens(pc) IN
                      Len(a) <= Len(b) /\ \A i \in 1..Len(a) : a[i] = b[i]
=============================================================================
