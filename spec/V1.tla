--------------------------------- MODULE V1 ---------------------------------
(***************************************************************************)
(* Package v1 against the classic encoding/json (C09).  The property names *)
(* its own oracle - the classic package of the installed toolchain - so    *)
(* the specification here is the refinement relation between two           *)
(* executions of the same call program, plus the part of the classic       *)
(* behaviour the rest of the specification predicts by itself (Valid),     *)
(* which calibrates the specification against the reference.               *)
(*                                                                         *)
(* A result is <<ok, rendering>>.                                          *)
(*   Equivalent  both succeed or both fail; on success identical bytes /   *)
(*               identically rendered Go values.  Error text and the value *)
(*               left behind by a failed call are not compared.            *)
(*   Untouched   on syntactically invalid input Unmarshal leaves the       *)
(*               target as it was.                                         *)
(***************************************************************************)
EXTENDS Strings, Numbers

Equivalent(a, b) == a[1] = b[1] /\ (a[1] => a[2] = b[2])

\* the classic package spells the replacement of an ill-formed byte as the escape �,
\* v1 writes U+FFFD itself: the same bytes once the escape is written out
RECURSIVE SpellFFFD(_)
SpellFFFD(b) ==
    IF Len(b) < 6 THEN b
    ELSE IF SubSeq(b, 1, 6) = <<92, 117, 102, 102, 102, 100>> THEN <<239, 191, 189>> \o SpellFFFD(SubSeq(b, 7, Len(b)))
    ELSE <<b[1]>> \o SpellFFFD(Tail(b))

\* U+2028 / U+2029 written as escapes or as themselves
RECURSIVE SpellJS(_)
SpellJS(b) ==
    IF Len(b) < 6 THEN b
    ELSE IF SubSeq(b, 1, 5) = <<92, 117, 50, 48, 50>> /\ b[6] \in {56, 57}
         THEN <<226, 128, 168 + (b[6] - 56)>> \o SpellJS(SubSeq(b, 7, Len(b)))
    ELSE <<b[1]>> \o SpellJS(Tail(b))

\* classic Valid: RFC 8259 without the RFC 7493 restrictions
ClassicValid(bytes, maxd) == ValidOne(Opt(TRUE, TRUE, maxd), bytes)

(***************************************************************************)
(* The stream API of encoding/json (Decoder.Token, More, InputOffset) on   *)
(* an input that is one valid JSON text, as a state machine over the token *)
(* table of the input: state [i, off] - i tokens have been returned, off   *)
(* is the read position.  Token returns the next token of the table        *)
(* (delimiters as json.Delim; names and strings as string; numbers as      *)
(* float64, or json.Number after UseNumber; literals as bool / nil) and    *)
(* leaves the position behind it - separators are passed over on the way   *)
(* to the next token - and io.EOF once the text is used up.  More passes   *)
(* over whitespace only and answers whether a byte other than ] and }      *)
(* follows.  InputOffset is the read position.                             *)
(***************************************************************************)
SInit == [i |-> 0, off |-> 0]

\* position of the first byte at or after off that is not whitespace (Len + 1: none)
SkipWS(input, off) ==
    LET rest == {p \in (off + 1)..Len(input) : input[p] \notin WS} IN
    IF rest = {} THEN Len(input) + 1 ELSE CHOOSE p \in rest : \A q \in rest : p <= q

Ascii(str) == CASE str = "json.Delim " -> <<106, 115, 111, 110, 46, 68, 101, 108, 105, 109, 32>>
                [] str = "string " -> <<115, 116, 114, 105, 110, 103, 32>>
                [] str = "float64 " -> <<102, 108, 111, 97, 116, 54, 52, 32>>
                [] str = "json.Number " -> <<106, 115, 111, 110, 46, 78, 117, 109, 98, 101, 114, 32>>
                [] str = "bool true" -> <<98, 111, 111, 108, 32, 116, 114, 117, 101>>
                [] str = "bool false" -> <<98, 111, 111, 108, 32, 102, 97, 108, 115, 101>>
                [] str = "<nil> <nil>" -> <<60, 110, 105, 108, 62, 32, 60, 110, 105, 108, 62>>

\* what fmt.Sprintf("%T %v", token) starts with (all of it, except for float64 values)
TokenText(input, tk, useNumber) ==
    CASE tk.k \in {"[", "]", "{", "}"} -> Ascii("json.Delim ") \o <<input[tk.s + 1]>>
      [] tk.k \in {"str", "name"} -> Ascii("string ") \o FoldLeft(LAMBDA a, c : a \o Utf8Enc(c), <<>>, tk.str)
      [] tk.k = "num" -> IF useNumber THEN Ascii("json.Number ") \o SubSeq(input, tk.s + 1, tk.e) ELSE Ascii("float64 ")
      [] tk.k = "true" -> Ascii("bool true")
      [] tk.k = "false" -> Ascii("bool false")
      [] tk.k = "null" -> Ascii("<nil> <nil>")

\* 0.d1..dk * 10^n with n >= 310 is beyond the largest float64; n = 309 is decided by the digits
\* (1.797...e308) and left to the pairwise comparison (Trace_V1!Modelled keeps such inputs out)
NumTooLarge(input, tk) == tk.k = "num" /\ LET nf == Normal(SubSeq(input, tk.s + 1, tk.e)) IN nf.d # <<>> /\ nf.n >= 310
NumBorderline(input, tk) == tk.k = "num" /\ LET nf == Normal(SubSeq(input, tk.s + 1, tk.e)) IN nf.d # <<>> /\ nf.n = 309

\* one call: [next state, ok, text] (text: prefix of the rendering; for More ok is the answer)
SCall(input, toks, st, op, useNumber) ==
    IF op = "Token" THEN
         IF st.i < Len(toks)
         \* a number becomes a float64 unless UseNumber is set: one that is too large is an error
         \* (the value is consumed all the same)
         THEN [st |-> [i |-> st.i + 1, off |-> toks[st.i + 1].e],
               ok |-> ~(~useNumber /\ NumTooLarge(input, toks[st.i + 1])),
               text |-> TokenText(input, toks[st.i + 1], useNumber)]
         \* (white space is passed over only when something follows it: looking ahead at the end
         \* of the input leaves the read position where it was)
         ELSE [st |-> st, ok |-> FALSE, text |-> <<>>]
    ELSE IF op = "More" THEN
         LET p == SkipWS(input, st.off) IN
         [st |-> IF p <= Len(input) THEN [st EXCEPT !.off = p - 1] ELSE st,
          ok |-> p <= Len(input) /\ input[p] \notin {93, 125}, text |-> <<>>]
    ELSE [st |-> st, ok |-> TRUE, text |-> NatChars(st.off)]
=============================================================================
