--------------------------------- MODULE V1 ---------------------------------
(***************************************************************************)
(* Package v1 against the classic encoding/json (C09).  The property names *)
(* its own oracle - the classic package of the installed toolchain - so    *)
(* the specification here is the refinement relation between two           *)
(* executions of the same call program, plus the part of the classic       *)
(* behaviour the rest of the specification predicts by itself (Valid),     *)
(* which calibrates the specification against the reference.               *)
(*                                                                         *)
(* A result is <<ok, rendering>>.                                          *)
(*   Equivalent  both succeed or both fail; on success identical bytes /   *)
(*               identically rendered Go values.  Error text and the value *)
(*               left behind by a failed call are not compared.            *)
(*   Untouched   on syntactically invalid input Unmarshal leaves the       *)
(*               target as it was.                                         *)
(***************************************************************************)
EXTENDS JsonText

Equivalent(a, b) == a[1] = b[1] /\ (a[1] => a[2] = b[2])

\* the classic package spells the replacement of an ill-formed byte as the escape �,
\* v1 writes U+FFFD itself: the same bytes once the escape is written out
RECURSIVE SpellFFFD(_)
SpellFFFD(b) ==
    IF Len(b) < 6 THEN b
    ELSE IF SubSeq(b, 1, 6) = <<92, 117, 102, 102, 102, 100>> THEN <<239, 191, 189>> \o SpellFFFD(SubSeq(b, 7, Len(b)))
    ELSE <<b[1]>> \o SpellFFFD(Tail(b))

\* U+2028 / U+2029 written as escapes or as themselves
RECURSIVE SpellJS(_)
SpellJS(b) ==
    IF Len(b) < 6 THEN b
    ELSE IF SubSeq(b, 1, 5) = <<92, 117, 50, 48, 50>> /\ b[6] \in {56, 57}
         THEN <<226, 128, 168 + (b[6] - 56)>> \o SpellJS(SubSeq(b, 7, Len(b)))
    ELSE <<b[1]>> \o SpellJS(Tail(b))

\* classic Valid: RFC 8259 without the RFC 7493 restrictions
ClassicValid(bytes, maxd) == ValidOne(Opt(TRUE, TRUE, maxd), bytes)
=============================================================================
