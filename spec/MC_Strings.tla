----------------------------- MODULE MC_Strings -----------------------------
(* Quoting of strings (C11) over all Go strings (byte sequences) up to a     *)
(* length bound over a critical byte alphabet (controls, quote, backslash,   *)
(* slash, HTML characters, DEL, pieces of 2-, 3- and 4-byte sequences incl.  *)
(* U+2028/2029, surrogate encodings, U+FFFD, U+10000, U+10FFFF, 0xFF).       *)
(* Model theorems:                                                           *)
(*   RoundTrip  the literal Quote(GoDecode(s)) is a valid JSON string whose  *)
(*              meaning (JsonText) is exactly GoDecode(s), for every escape  *)
(*              option set; each ill-formed byte became exactly one U+FFFD   *)
(*   Minimal    without escape options every character has its shortest      *)
(*              permitted spelling (RFC 8785 section 3.2.2.2)                *)
(*   NoRaw      with EscapeForHTML / EscapeForJS the literal contains no raw *)
(*              '<' '>' '&' / U+2028 U+2029                                  *)
EXTENDS Strings, TLC, Json

CONSTANTS Bytes, MaxLen, EmitCases

VARIABLE s

Init == s = <<>>
Next == Len(s) < MaxLen /\ \E b \in Bytes : s' = Append(s, b)
Spec == Init /\ [][Next]_s

EscSets == <<[html |-> FALSE, js |-> FALSE], [html |-> TRUE, js |-> FALSE],
             [html |-> FALSE, js |-> TRUE], [html |-> TRUE, js |-> TRUE]>>

Strict == Opt(FALSE, FALSE, 10)

\* the shortest permitted spelling of one code point (no escape options)
ShortestLen(c) == IF c \in {34, 92, 8, 9, 10, 12, 13} THEN 2
                  ELSE IF c < 32 THEN 6
                  ELSE Len(Utf8Enc(c))

RoundTrip == \A i \in 1..4 :
    LET g == GoDecode(s)
        lit == Quote(g.cps, EscSets[i])
        r == Finish(Run(Strict, lit)) IN
    /\ AtBoundary(r) /\ TopN(r) = 1 /\ Len(r.toks) = 1
    /\ r.toks[1].str = g.cps

Minimal == LET g == GoDecode(s) IN
    Len(Quote(g.cps, NoEsc)) = 2 + FoldLeft(LAMBDA a, c : a + ShortestLen(c), 0, g.cps)

HasSub(lit, pat) == \E i \in 1..(Len(lit) - Len(pat) + 1) : SubSeq(lit, i, i + Len(pat) - 1) = pat

NoRaw == LET g == GoDecode(s) IN
    /\ \A b \in {60, 62, 38} : ~HasSub(Quote(g.cps, EscSets[2]), <<b>>) /\ ~HasSub(Quote(g.cps, EscSets[4]), <<b>>)
    /\ \A x \in {168, 169} : ~HasSub(Quote(g.cps, EscSets[3]), <<226, 128, x>>) /\ ~HasSub(Quote(g.cps, EscSets[4]), <<226, 128, x>>)

\* [bytes, bad, [literal under each escape set], code points]
EmitInv == EmitCases =>
    LET g == GoDecode(s) IN
    PrintT(ToJson(<<s, g.bad, [i \in 1..4 |-> Quote(g.cps, EscSets[i])], g.cps>>))
=============================================================================
