---------------------------- MODULE Trace_Strings ----------------------------
(* Trace validation for string quoting (C11): a record holds the bytes of a   *)
(* Go string, the escape options and, for every path by which the string      *)
(* reached the output (AppendQuote, String token, member name, Marshal, map   *)
(* key, text marshalers, struct field name, raw literals passed through), the *)
(* literal produced or the fact that an error was returned; also what         *)
(* AppendUnquote made of the specification's literal.                         *)
EXTENDS Strings, TLC, Json, IOUtils

T == ndJsonDeserialize(IOEnv.VERIF_TRACE)

VARIABLES l, rej

Check(rec) ==
    LET g == GoDecode(rec.s)
        e == [html |-> rec.html, js |-> rec.js]
        lit == Quote(g.cps, e)
        wantErr == g.bad /\ ~rec.ai
        \* res entries: [path, err, literal]
        badp == {i \in 1..Len(rec.res) :
                   \/ rec.res[i][2] # wantErr
                   \/ ~wantErr /\ rec.res[i][3] # lit} IN
    IF rec.panic # "" THEN <<"C20", "panic">>
    ELSE IF badp # {} THEN LET i == CHOOSE i \in badp : TRUE IN <<"C11", rec.res[i][1], wantErr, lit>>
    ELSE IF rec.unq # g.cps THEN <<"C11", "unquote", g.cps>>
    ELSE <<>>

Init == l = 1 /\ rej = <<>>

Next == /\ l <= Len(T)
        /\ l' = l + 1
        /\ LET c == Check(T[l]) IN
           rej' = IF c = <<>> THEN rej ELSE Append(rej, <<T[l].id, c[1], c>>)

Spec == Init /\ [][Next]_<<l, rej>>

Done == l = Len(T) + 1 => PrintT(ToJson(<<"REJ", rej>>))
Consumed == TLCGet("stats").diameter = Len(T) + 1
=============================================================================
