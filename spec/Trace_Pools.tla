----------------------------- MODULE Trace_Pools -----------------------------
(* Validation of the pool events recorded by the verif hooks while the real   *)
(* library served a history of calls (sequentially or on 16 goroutines).      *)
(* Each event is [seq, ev, kind, obj, residue]: "get" is logged after the     *)
(* reset of the object handed out, "put" before it is returned.  The trace    *)
(* must be a behaviour of Pools: an object is handed out only while idle, it  *)
(* is returned only by a call that holds it, and what survives the reset on   *)
(* Get holds nothing that can influence the next call (the residue vector -   *)
(* buffered bytes, open containers, names, namespaces, tracked pointers,      *)
(* peek / offsets - is all zero).                                             *)
EXTENDS Integers, Sequences, FiniteSets, TLC, Json, IOUtils

T == ndJsonDeserialize(IOEnv.VERIF_TRACE)

VARIABLES l, held, bad

Clean(res) == \A i \in 1..Len(res) : res[i] = 0

Init == l = 1 /\ held = {} /\ bad = <<>>

Next == /\ l <= Len(T)
        /\ l' = l + 1
        /\ LET e == T[l]  key == e.obj IN     \* the identity of the coder object (pools do not share objects)
           IF e.ev = "get"
           THEN /\ held' = held \cup {key}
                /\ bad' = IF key \in held THEN Append(bad, <<e.seq, "C18", <<"handed-out-while-in-use", e.kind>>>>)
                          ELSE IF ~Clean(e.residue) THEN Append(bad, <<e.seq, "C18", <<"residue-after-reset", e.kind, e.residue>>>>)
                          ELSE bad
           ELSE /\ held' = held \ {key}
                /\ bad' = IF key \notin held THEN Append(bad, <<e.seq, "C18", <<"returned-but-not-held", e.kind>>>>) ELSE bad

Spec == Init /\ [][Next]_<<l, held, bad>>

Done == l = Len(T) + 1 => PrintT(ToJson(<<"REJ", bad>>))
Consumed == TLCGet("stats").diameter = Len(T) + 1
=============================================================================
