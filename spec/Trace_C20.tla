------------------------------ MODULE Trace_C20 ------------------------------
(* Resource bounds when marshaling Go values (C20).                            *)
(*  heap cases: a Go value given as a graph of reference nodes; marshaling it   *)
(*    must return an error iff a cycle is reachable from the root;              *)
(*  nest cases: `repeat` copies of a shape of containers (s slice, m map) and   *)
(*    indirections (p pointer, i interface) around a leaf; marshaling succeeds  *)
(*    iff the JSON nesting (slices and maps, plus the levels of the leaf when   *)
(*    that is an empty container) is at most MaxD.                              *)
(*  awk cases: Unmarshal / Marshal of awkward struct shapes (embedded pointers  *)
(*    to unexported structs, named unexported embedded structs, fallbacks       *)
(*    behind nil pointers, diamonds) with probing inputs.                       *)
(* In no case may the library panic, crash or fail to terminate.               *)
EXTENDS Integers, Sequences, FiniteSets, TLC, Json, IOUtils

CONSTANT MaxD

T == ndJsonDeserialize(IOEnv.VERIF_TRACE)

VARIABLES l, rej

\* nodes are 0-based in the log
Succ(nodes, i) == {nodes[i + 1].succ[k] : k \in 1..Len(nodes[i + 1].succ)}

RECURSIVE ReachFrom(_, _, _)
ReachFrom(nodes, frontier, seen) ==
    LET nxt == (UNION {Succ(nodes, i) : i \in frontier}) \ seen IN
    IF nxt = {} THEN seen ELSE ReachFrom(nodes, nxt, seen \cup nxt)

\* nodes reachable from i in one or more steps
Reach1(nodes, i) == ReachFrom(nodes, Succ(nodes, i), Succ(nodes, i))

HasCycle(nodes, root) ==
    LET r == {root} \cup Reach1(nodes, root) IN
    \E x \in r : x \in Reach1(nodes, x)

Expected(rec) ==
    \* struct shapes that reflection can only half reach, fed with probing inputs: the calls may
    \* succeed or fail as they like, none may panic
    IF rec.kind = "awk" THEN "ok"
    ELSE IF rec.kind = "heap"
    THEN IF HasCycle(rec.nodes, rec.root) THEN "err" ELSE "ok"
    ELSE LET per == Cardinality({k \in 1..Len(rec.shape) : rec.shape[k] \in {"s", "m"}})
             \* levels the innermost value adds: an (empty) container is a level, struct{X []int} two
             leaf == CASE rec.leaf = "" -> 0 [] rec.leaf = "sx" -> 2 [] OTHER -> 1 IN
         IF per * rec.repeat + leaf > MaxD THEN "err" ELSE "ok"

Init == l = 1 /\ rej = <<>>

Next == /\ l <= Len(T)
        /\ l' = l + 1
        /\ rej' = IF T[l].outcome = Expected(T[l]) THEN rej
                  ELSE Append(rej, <<T[l].id, "C20", <<"marshal-" \o T[l].kind, Expected(T[l]), T[l].outcome>>>>)

Spec == Init /\ [][Next]_<<l, rej>>

Done == l = Len(T) + 1 => PrintT(ToJson(<<"REJ", rej>>))
Consumed == TLCGet("stats").diameter = Len(T) + 1
=============================================================================
