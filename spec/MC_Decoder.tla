----------------------------- MODULE MC_Decoder -----------------------------
(* Exhaustive exploration of decoder call programs over small documents.    *)
(* Model theorems checked by TLC on every reachable state:                  *)
(*   ParseInv  offsets/stack of the decoder model equal those of an         *)
(*             independent parse (byte automaton) of the consumed bytes     *)
(*   PathEq    reading a value whole, token by token, or skipping it lead   *)
(*             to the same state                                            *)
(*   NoEffect  a failing ReadToken/ReadValue/PeekKind leaves the state      *)
(* Every complete program is emitted with the predicted result of each call *)
(* for replay against the real Decoder under many read schedules.           *)
EXTENDS Decoder, TLC, Json

CONSTANTS Docs,        \* sequence of documents (byte sequences)
          MaxCalls, MaxD, EmitCases

VARIABLES doc, oi, d, hist

vars == <<doc, oi, d, hist>>

OptAt(i) == Opt(i \in {3, 4}, i \in {2, 4}, MaxD)
\* constant-level, so TLC evaluates the tables once
Tabs == [i \in 1..Len(Docs) |-> [o \in 1..4 |-> Table(OptAt(o), Docs[i])]]
Tab == Tabs[doc][oi]

Ops == {"tok", "val", "skip", "peek", "ptr"}

Init == /\ doc \in 1..Len(Docs) /\ oi \in {1, 2, 3, 4} /\ d = DInit /\ hist = <<>>

Do(op) ==
    LET r == Call(Tab, d, op)
        nd == r.next
        o == Observe(Tab, nd) IN
    /\ d' = nd
    /\ hist' = Append(hist, <<op, r.res.err, r.res.k, r.res.len, o.off, o.depth, o.idx,
                              IF op = "ptr" THEN PointerOf(d.stk) ELSE <<>>,
                              IF op = "tok" /\ r.res.err = "nil" /\ r.res.k = 34 THEN Tab.toks[d.ti].str ELSE <<>>>>)
    /\ UNCHANGED <<doc, oi>>

Next == Len(hist) < MaxCalls /\ \E op \in Ops : Do(op)

Spec == Init /\ [][Next]_vars

----------------------------------------------------------------------------
\* frames (type, length) of the byte automaton after the consumed prefix
AutoFrames(s) == [j \in 1..(Len(s.stack) + 1) |->
                    LET f == IF j <= Len(s.stack) THEN s.stack[j] ELSE s.fr IN <<f.t, f.n>>]
ModelFrames(stk) == [j \in 1..Len(stk) |-> <<stk[j].t, stk[j].n>>]

ParseInv ==
    LET off == OffsetOf(Tab, d)
        s == Finish(Run(OptAt(oi), SubSeq(Docs[doc], 1, off))) IN
    /\ ~s.dead
    /\ AutoFrames(s) = ModelFrames(d.stk)
    /\ Len(d.stk) - 1 <= MaxD

\* token path == value path == skip path
RECURSIVE TokensUntil(_, _)
TokensUntil(x, depth) ==     \* ReadToken until the stack is back at depth
    LET r == ReadTokenStep(Tab, x) IN
    IF r.res.err # "nil" THEN r.next
    ELSE IF Len(r.next.stk) <= depth THEN r.next ELSE TokensUntil(r.next, depth)

PathEq ==
    More(Tab, d) /\ Tab.toks[d.ti].k \notin {"}", "]"} =>
        LET v == ReadValueStep(Tab, d)
            k == SkipValueStep(Tab, d)
            t == TokensUntil(d, Len(d.stk)) IN
        /\ (v.res.err = "nil") = (k.res.err = "nil")
        /\ v.res.err = "nil" => v.next = k.next /\ t = v.next
        /\ v.res.err # "nil" => v.next = d /\ k.next = t

NoEffect == \A op \in {"tok", "val", "peek", "ptr"} :
               LET r == Call(Tab, d, op) IN
               (r.res.err # "nil" \/ op \in {"peek", "ptr"}) => r.next = d

EmitInv == (EmitCases /\ Len(hist) = MaxCalls) =>
              PrintT(ToJson(<<Docs[doc], oi \in {3, 4}, oi \in {2, 4}, hist>>))
=============================================================================
