---------------------------- MODULE Trace_Options ----------------------------
(* Behavioural clauses of the options property (C19), validated on logged     *)
(* executions.  Results are [ok, bytes] pairs (bytes = output of a marshal    *)
(* call, or a canonical rendering of the value an unmarshal call produced).   *)
(*  shapes      the same operation with the same option sequence passed       *)
(*              separately, joined, and nested: all results equal             *)
(*  irrelevant  the operation with a base option list, and with extra setters *)
(*              that touch only keys documented as not affecting it, before   *)
(*              and after the base list: all results equal                    *)
(*  scoped      an Encoder/Decoder created with options A; MarshalEncode /    *)
(*              UnmarshalDecode called with options B (succeeding, failing,   *)
(*              or with panicking user code): the coder's options afterwards  *)
(*              are those before, which are Eval(A); for the probe value the  *)
(*              output is what Eval(A ++ B) prescribes                        *)
(*  v1eq        v1.Marshal/Unmarshal equal the v2 functions with              *)
(*              DefaultOptionsV1; adding DefaultOptionsV2 restores v2         *)
EXTENDS Options, TLC, Json, IOUtils

T == ndJsonDeserialize(IOEnv.VERIF_TRACE)

VARIABLES l, rej

\* keys a setter list touches
RECURSIVE Touched(_)
Touched(items) ==
    UNION {CASE items[i].k = "flag" -> {items[i].key}
             [] items[i].k = "indent" -> {"Multiline", "Indent"}
             [] items[i].k = "prefix" -> {"Multiline", "IndentPrefix"}
             [] items[i].k = "marshalers" -> {"Marshalers"}
             [] items[i].k = "unmarshalers" -> {"Unmarshalers"}
             [] items[i].k \in {"v1", "v2"} -> V1Keys
             [] items[i].k = "nil" -> {}
             [] items[i].k = "join" -> Touched(items[i].items) : i \in 1..Len(items)}

\* logged store: sequence of <<key, value>>
StoreOf(kvs) == [k \in Keys |-> LET i == CHOOSE j \in 1..Len(kvs) : kvs[j][1] = k IN kvs[i][2]]

\* an Encoder created with Multiline fills in the defaults it implies
CoderView(st, isEncoder) ==
    IF isEncoder /\ st["Multiline"] = "true"
    THEN [st EXCEPT !["SpaceAfterColon"] = IF @ = Unset THEN "true" ELSE @,
                    !["SpaceAfterComma"] = IF @ = Unset THEN "false" ELSE @,
                    !["Indent"] = IF @ = Unset THEN "s:\t" ELSE @]
    ELSE st

\* the probe struct{N int; S []int; M map[string]int}{5, nil, nil} under a store
On(st, k) == st[k] = "true"
ProbeOut(st) ==
    LET n == <<34, 78, 34, 58>> \o (IF On(st, "StringifyNumbers") THEN <<34, 53, 34>> ELSE <<53>>) IN
    IF On(st, "OmitZeroStructFields") THEN <<123>> \o n \o <<125>>      \* nil slice and map are zero values
    ELSE <<123>> \o n
         \o <<44, 34, 83, 34, 58>> \o (IF On(st, "FormatNilSliceAsNull") THEN <<110, 117, 108, 108>> ELSE <<91, 93>>)
         \o <<44, 34, 77, 34, 58>> \o (IF On(st, "FormatNilMapAsNull") THEN <<110, 117, 108, 108>> ELSE <<123, 125>>)
         \o <<125>>

AllEqual(rs) == \A i \in 1..Len(rs) : rs[i] = rs[1]

Check(rec) ==
    IF rec.panic # "" THEN <<"C20", "panic">>
    ELSE IF rec.kind = "shapes" THEN (IF AllEqual(rec.results) THEN <<>> ELSE <<"C19", "shapes-differ">>)
    ELSE IF rec.kind = "irrelevant"
         THEN IF ~(Touched(rec.extra) \subseteq Irrelevant(rec.op)) THEN <<"SPEC", "driver-extra-not-irrelevant">>
              ELSE IF AllEqual(rec.results) THEN <<>> ELSE <<"C19", "irrelevant-option-changed-result">>
    ELSE IF rec.kind = "scoped"
         THEN LET a == CoderView(Eval(rec.a), rec.coder = "encoder") IN
              IF StoreOf(rec.before) # a THEN <<"C19", "coder-options-not-eval", rec.coder>>
              ELSE IF StoreOf(rec.after) # StoreOf(rec.before) THEN <<"C19", "coder-options-changed-by-call", rec.outcome>>
              ELSE IF rec.probe /\ rec.outcome = "ok" /\ rec.out # ProbeOut(Eval(rec.a \o rec.b)) THEN <<"C19", "call-options-precedence">>
              ELSE <<>>
    ELSE IF rec.kind = "v1eq" THEN (IF AllEqual(rec.results) THEN <<>> ELSE <<"C19", "v1-differs-from-v2-with-DefaultOptionsV1">>)
    ELSE <<"SPEC", "unknown-kind">>

Init == l = 1 /\ rej = <<>>

Next == /\ l <= Len(T)
        /\ l' = l + 1
        /\ LET c == Check(T[l]) IN
           rej' = IF c = <<>> THEN rej ELSE Append(rej, <<T[l].id, c[1], c>>)

Spec == Init /\ [][Next]_<<l, rej>>

Done == l = Len(T) + 1 => PrintT(ToJson(<<"REJ", rej>>))
Consumed == TLCGet("stats").diameter = Len(T) + 1
=============================================================================
