----------------------------- MODULE Trace_C01 -----------------------------
(* Trace validation for C01: every record logged by the Go driver holds an  *)
(* input and what each entry point of the real library answered under the   *)
(* four option combinations.  TLC recomputes the verdict of the input from  *)
(* the specification (JsonText) and rejects records that disagree.  One     *)
(* step per record; rejected records are collected and printed at the end   *)
(* so that the rest of the trace is still examined.                         *)
EXTENDS JsonText, TLC, Json, IOUtils

CONSTANT MaxD

T == ndJsonDeserialize(IOEnv.VERIF_TRACE)

VARIABLES l, rej

OptAt(i) == Opt(i \in {3, 4}, i \in {2, 4}, MaxD)

\* a number token with three or more exponent digits or hundreds of digits: float64
\* overflow is possible, the Unmarshal entry point is then decided by C03/C10, not here
BigExp(s, bytes) ==
    \E i \in 1..Len(s.toks) : s.toks[i].k = "num" /\
        (\/ s.toks[i].e - s.toks[i].s > 300
         \/ \E j \in (s.toks[i].s + 1)..(s.toks[i].e - 3) : bytes[j] \in {101, 69})

CodeOf(s) == IF s.dead THEN 0 ELSE IF ~AtBoundary(s) THEN 1
             ELSE IF TopN(s) = 1 THEN 3 ELSE 2

\* entry order: isvalid unmarshal values tokens values1 tokens1 valuesbuf tokensbuf
Want(e, code) == IF e \in {1, 2} THEN code = 3 ELSE code >= 2

Codes(rec) == LET fin == [i \in 1..4 |-> Finish(Run(OptAt(i), rec.b))] IN
              <<[i \in 1..4 |-> CodeOf(fin[i])], BigExp(fin[4], rec.b)>>

Accepts(rec, cb) ==
    /\ rec.panic = ""
    /\ \A i \in 1..4 : \A e \in 1..8 :
             \/ e = 2 /\ cb[2]
             \* duplicates that are allowed are merged by Unmarshal (C14); merging
             \* may fail for type reasons, so this entry point is not a pure acceptor then
             \/ e = 2 /\ i \in {2, 4} /\ cb[1][i] = 3 /\ cb[1][i - 1] # 3
             \/ rec.got[i][e] = Want(e, cb[1][i])

Init == l = 1 /\ rej = <<>>

Next == /\ l <= Len(T)
        /\ l' = l + 1
        /\ LET cb == Codes(T[l]) IN
           rej' = IF Accepts(T[l], cb) THEN rej
                  ELSE Append(rej, <<T[l].id, IF T[l].panic = "" THEN "C01" ELSE "C20", cb[1]>>)

Spec == Init /\ [][Next]_<<l, rej>>

Done == l = Len(T) + 1 => PrintT(ToJson(<<"REJ", rej>>))
Consumed == TLCGet("stats").diameter = Len(T) + 1
=============================================================================
