----------------------------- MODULE Trace_Format -----------------------------
(* Trace validation for the Format family (C12, C13): each record holds a     *)
(* text, the entry point and caller options, what the real library returned,  *)
(* and the projection of the numbers of the text (nearest float64 as shortest *)
(* digits) for canonical spellings the specification does not decide alone.   *)
(* For C13 a record may carry a re-spelling of the text (member order,        *)
(* whitespace, escapes, number spelling): both must canonicalise to the same  *)
(* bytes.                                                                      *)
EXTENDS Format, TLC, Json, IOUtils

CONSTANT MaxD

T == ndJsonDeserialize(IOEnv.VERIF_TRACE)

VARIABLES l, rej

\* projections are logged as [offset, neg, digits, n]; the pair's have offset -1-o
ProjMap(ps, pair) ==
    LET mine == {i \in 1..Len(ps) : (ps[i][1] < 0) = pair}
        key(i) == IF pair THEN -1 - ps[i][1] ELSE ps[i][1] IN
    [o \in {key(i) : i \in mine} |->
        LET i == CHOOSE j \in mine : key(j) = o IN [neg |-> ps[i][2], d |-> ps[i][3], n |-> ps[i][4]]]

\* caller options as logged: a record with the fields of DefaultFmt and "set" as a sequence
G(rec) == [rec.g EXCEPT !.set = {rec.g.set[i] : i \in 1..Len(rec.g.set)}]

Entry(rec) == IF rec.entry = "append" THEN "format" ELSE rec.entry

Check(rec) ==
    LET r == FormatResult(Entry(rec), G(rec), rec.src, MaxD, ProjMap(rec.proj, FALSE)) IN
    IF rec.panic # "" THEN <<"C20", "panic">>
    ELSE IF rec.ok # r.ok THEN <<rec.prop, "accept", r.ok>>
    ELSE IF rec.out # r.out THEN <<rec.prop, "bytes", r.out>>
    ELSE IF rec.pair = <<>> THEN <<>>
    ELSE LET rp == FormatResult(Entry(rec), G(rec), rec.pair, MaxD, ProjMap(rec.proj, TRUE)) IN
         IF rec.pairok # rp.ok \/ rec.pairout # rp.out THEN <<rec.prop, "pair-bytes", rp.out>>
         \* the driver's re-spelling keeps the meaning, so the specification itself must give
         \* both texts the same canonical form; if not the specification or the driver is wrong
         ELSE IF r.ok /\ (~rp.ok \/ rp.out # r.out) THEN <<"SPEC", "respell-invariance">>
         ELSE <<>>

Init == l = 1 /\ rej = <<>>

Next == /\ l <= Len(T)
        /\ l' = l + 1
        /\ LET c == Check(T[l]) IN
           rej' = IF c = <<>> THEN rej ELSE Append(rej, <<T[l].id, c[1], c>>)

Spec == Init /\ [][Next]_<<l, rej>>

Done == l = Len(T) + 1 => PrintT(ToJson(<<"REJ", rej>>))
Consumed == TLCGet("stats").diameter = Len(T) + 1
=============================================================================
