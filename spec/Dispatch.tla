------------------------------ MODULE Dispatch ------------------------------
(***************************************************************************)
(* Which user-supplied representation Marshal uses for a value (C17).      *)
(*                                                                         *)
(* Candidates in the documented order: the caller-supplied functions in    *)
(* list order, then MarshalerTo, Marshaler, TextAppender, TextMarshaler,   *)
(* then the default representation.  A configuration says                  *)
(*   recv   for each of the four methods: "n" absent, "v" value receiver,  *)
(*          "p" pointer receiver                                           *)
(*   funcs  sequence of [to: the function takes the encoder, ptr: it is    *)
(*          declared for *T rather than T]                                 *)
(*   beh    behaviour of each callable (a function from its name):         *)
(*          "ok" one value, "zero" nothing, "two" two values, "partial" an *)
(*          unfinished object, "unsup" ErrUnsupported without touching the *)
(*          encoder, "unsupafter" ErrUnsupported after writing, "error",   *)
(*          "reset" calls Reset on the encoder it was given,               *)
(*          "nestreset" first passes the coder on to a nested MarshalEncode *)
(*          / UnmarshalDecode of a value that has a method of its own, and  *)
(*          then calls Reset: the outer call is still in progress           *)
(*   nil    the value is reached through a nil pointer                     *)
(* Pointer-receiver methods and *T functions are reached for addressable   *)
(* and non-addressable values alike; nothing is called on a nil pointer.   *)
(***************************************************************************)
EXTENDS Integers, Sequences, FiniteSets

\* cfg.dir is "marshal" or "unmarshal"; the methods in order of precedence, and the one that is
\* handed the coder
MethodOrderOf(dir) == IF dir = "marshal" THEN <<"to", "json", "app", "text">> ELSE <<"from", "json", "text">>
CoderMethod(dir) == IF dir = "marshal" THEN "to" ELSE "from"

FuncName(i) == CASE i = 1 -> "f1" [] i = 2 -> "f2" [] i = 3 -> "f3"

\* the callables that could represent the value, in the documented order;
\* each is [name, coder: it is handed the encoder]
Candidates(cfg) ==
    [i \in 1..Len(cfg.funcs) |-> [name |-> FuncName(i), coder |-> cfg.funcs[i].to]]
    \o SelectSeq([j \in 1..Len(MethodOrderOf(cfg.dir)) |->
                     [name |-> MethodOrderOf(cfg.dir)[j], coder |-> MethodOrderOf(cfg.dir)[j] = CoderMethod(cfg.dir)]],
                 LAMBDA c : cfg.recv[c.name] # "n")

\* outcome of running the candidates from index i on: [calls, out]
\* out: <<"by", name>> the value is represented by that callable | <<"default">> | <<"err">> |
\*      <<"panic-reset">>
RECURSIVE Run(_, _, _)
Run(cfg, cands, i) ==
    IF i > Len(cands) THEN [calls |-> <<>>, out |-> <<"default">>]
    ELSE LET c == cands[i]
             b == cfg.beh[c.name]
             here(out) == [calls |-> <<c.name>>, out |-> out] IN
         CASE b = "ok" -> here(<<"by", c.name>>)
           \* only a callable that is handed the encoder may decline; a bytes-returning one may not
           [] b = "unsup" /\ c.coder ->
                LET r == Run(cfg, cands, i + 1) IN [calls |-> <<c.name>> \o r.calls, out |-> r.out]
           [] b \in {"reset", "nestreset"} /\ c.coder -> here(<<"panic-reset">>)
           [] OTHER -> here(<<"err">>)

Dispatch(cfg) ==
    IF cfg.nil THEN [calls |-> <<>>, out |-> <<"null">>]
    ELSE Run(cfg, Candidates(cfg), 1)
=============================================================================
