---------------------------- MODULE Trace_Encoder ----------------------------
(* Trace validation for the streaming Encoder (C06, C07, C16, C20).          *)
(* One record per case: options, the calls made on the real Encoder, what    *)
(* each returned, the cheap observers after each call, the number of bytes   *)
(* the writer had received by then, and finally all bytes it received.       *)
(* The writer may have been scripted to fail or to accept only part of a     *)
(* Write (wf = a write fault was delivered during the call).                 *)
EXTENDS Encoder, TLC, Json, IOUtils

CONSTANT MaxD

T == ndJsonDeserialize(IOEnv.VERIF_TRACE)

VARIABLES l, rej

\* logged step: [ok, err, off, depth, idx, ptr, panic, got, wf]
S(st) == [ok |-> st[1], err |-> st[2], off |-> st[3], depth |-> st[4], idx |-> st[5], ptr |-> st[6],
          panic |-> st[7], got |-> st[8], wf |-> st[9]]

StepCheck(F, acc, x) ==
    IF ~acc.ok THEN acc ELSE
    LET st == S(x[2])
        c == x[1]
        e == acc.e
        r == IF c.op = "ptr" THEN Accept(e) ELSE ECall(F, e, c, MaxD)
        o == EObserve(r.next)
        bad(why) == [acc EXCEPT !.ok = FALSE, !.why = <<acc.i, why, r.ok, o>>]
        good == [acc EXCEPT !.e = r.next, !.i = @ + 1] IN
    IF st.panic # "" THEN [acc EXCEPT !.ok = FALSE, !.why = <<acc.i, "panic">>, !.prop = "C20"]
    \* a call the grammar accepts succeeds, unless the writer failed: then it reports the
    \* I/O error but the token stays accepted (C07)
    ELSE IF r.ok /\ ~(st.err = "nil" \/ (st.wf /\ st.err = "io")) THEN bad("accept")
    ELSE IF ~r.ok /\ st.err # "syn" THEN bad("reject")
    ELSE IF st.off # o.off THEN bad("offset")
    ELSE IF st.depth # o.depth \/ st.idx # o.idx THEN bad("stack")
    ELSE IF c.op = "ptr" /\ st.ptr # EPointer(e) THEN bad("pointer")
    ELSE IF st.got > o.off THEN bad("delivered-too-much")
    \* an accepted call that brings the depth back to zero flushes everything (including what an
    \* earlier failed write left behind), unless this very call hit a write fault
    ELSE IF r.ok /\ c.op # "ptr" /\ o.depth = 0 /\ ~st.wf /\ st.got # o.off THEN bad("not-flushed-at-depth-0")
    ELSE good

CheckCase(rec) ==
    LET r == FoldLeft(LAMBDA acc, x : StepCheck(rec.f, acc, x),
                      [e |-> EInit, ok |-> TRUE, i |-> 1, why |-> <<>>, prop |-> rec.prop],
                      [i \in 1..Len(rec.calls) |-> <<rec.calls[i], rec.steps[i]>>]) IN
    IF ~r.ok THEN r
    \* what the writer accepted is a prefix of the fault-free output (nothing lost or duplicated)
    ELSE IF Len(rec.delivered) > Len(r.e.out) \/ rec.delivered # SubSeq(r.e.out, 1, Len(rec.delivered))
         THEN [r EXCEPT !.ok = FALSE, !.why = <<0, "delivered-bytes", Len(r.e.out)>>]
    ELSE r

Init == l = 1 /\ rej = <<>>

Next == /\ l <= Len(T)
        /\ l' = l + 1
        /\ LET r == CheckCase(T[l]) IN
           rej' = IF r.ok THEN rej ELSE Append(rej, <<T[l].id, r.prop, r.why>>)

Spec == Init /\ [][Next]_<<l, rej>>

Done == l = Len(T) + 1 => PrintT(ToJson(<<"REJ", rej>>))
Consumed == TLCGet("stats").diameter = Len(T) + 1
=============================================================================
