----------------------------- MODULE MC_AnyFuncs -----------------------------
(* Caller-supplied functions for the types arbitrary JSON decodes into (bool,  *)
(* string, float64, map[string]any, []any) and for other types an `any` may    *)
(* hold when marshaling (int, int64, []string), applied to values held behind an *)
(* `any` (C17).  A joined function list is a sequence of target types; the     *)
(* first function whose type is the dynamic type of the value represents it -  *)
(* wherever in the list it stands and whatever the other functions target.     *)
EXTENDS Integers, Sequences, TLC, Json

CONSTANTS Kinds, MaxFuncs, EmitCases

VARIABLES funcs, vk

Init == funcs = <<>> /\ vk \in (Kinds \ {"other"})
Next == Len(funcs) < MaxFuncs /\ \E k \in Kinds : funcs' = Append(funcs, k) /\ UNCHANGED vk
Spec == Init /\ [][Next]_<<funcs, vk>>

Hits == {i \in 1..Len(funcs) : funcs[i] = vk}
Winner == IF Hits = {} THEN 0 ELSE CHOOSE i \in Hits : \A j \in Hits : i <= j

\* order independence: whether a function for vk is reached does not depend on what follows it
Law == Winner # 0 => \A k \in Kinds : LET f2 == Append(funcs, k)
                                          h2 == {i \in 1..Len(f2) : f2[i] = vk} IN
                                      (CHOOSE i \in h2 : \A j \in h2 : i <= j) = Winner

EmitInv == EmitCases => PrintT(ToJson(<<funcs, vk, Winner>>))
=============================================================================
