----------------------------- MODULE JsonValue -----------------------------
(***************************************************************************)
(* The meaning of a JSON text: an abstract value tree built from the token *)
(* table.                                                                  *)
(*   [t |-> "null"]   [t |-> "bool", b]   [t |-> "str", s (code points)]   *)
(*   [t |-> "num", neg, d, n]   (normal form, see Numbers.tla)             *)
(*   [t |-> "arr", e (sequence)]   [t |-> "obj", m (sequence of <<name, value>>)] *)
(***************************************************************************)
EXTENDS JsonText, Numbers

RECURSIVE ValueAt(_, _, _), ElemsAt(_, _, _, _), MembersAt(_, _, _, _)
\* value starting at token i: [v, nx]
ValueAt(toks, src, i) ==
    LET tk == toks[i] IN
    CASE tk.k = "null" -> [v |-> [t |-> "null"], nx |-> i + 1]
      [] tk.k = "true" -> [v |-> [t |-> "bool", b |-> TRUE], nx |-> i + 1]
      [] tk.k = "false" -> [v |-> [t |-> "bool", b |-> FALSE], nx |-> i + 1]
      [] tk.k \in {"str", "name"} -> [v |-> [t |-> "str", s |-> tk.str], nx |-> i + 1]
      [] tk.k = "num" -> LET nf == Normal(SubSeq(src, tk.s + 1, tk.e)) IN
                         [v |-> [t |-> "num", neg |-> nf.neg /\ nf.d # <<>>, d |-> nf.d, n |-> nf.n], nx |-> i + 1]
      [] tk.k = "[" -> ElemsAt(toks, src, i + 1, <<>>)
      [] tk.k = "{" -> MembersAt(toks, src, i + 1, <<>>)

ElemsAt(toks, src, i, acc) ==
    IF toks[i].k = "]" THEN [v |-> [t |-> "arr", e |-> acc], nx |-> i + 1]
    ELSE LET r == ValueAt(toks, src, i) IN ElemsAt(toks, src, r.nx, Append(acc, r.v))

MembersAt(toks, src, i, acc) ==
    IF toks[i].k = "}" THEN [v |-> [t |-> "obj", m |-> acc], nx |-> i + 1]
    ELSE LET r == ValueAt(toks, src, i + 1) IN
         MembersAt(toks, src, r.nx, Append(acc, <<toks[i].str, r.v>>))

\* meaning of a text that is exactly one valid value under o
Meaning(o, src) == ValueAt(Finish(Run(o, src)).toks, src, 1).v

\* the same tree with the members of every object as a bag (order forgotten)
RECURSIVE Unordered(_)
Unordered(v) ==
    IF v.t = "arr" THEN [t |-> "arr", e |-> [i \in 1..Len(v.e) |-> Unordered(v.e[i])]]
    ELSE IF v.t = "obj"
         THEN LET ms == [i \in 1..Len(v.m) |-> <<v.m[i][1], Unordered(v.m[i][2])>>] IN
              [t |-> "objbag", m |-> [x \in {ms[i] : i \in 1..Len(ms)} |-> Cardinality({i \in 1..Len(ms) : ms[i] = x})]]
    ELSE v

(***************************************************************************)
(* Merging (property C14): objects are united recursively, anything else   *)
(* is replaced by the later value.                                         *)
(***************************************************************************)
RECURSIVE MergeTree(_, _)
MergeTree(a, b) ==
    IF a.t = "obj" /\ b.t = "obj"
    THEN LET names(v) == {v.m[i][1] : i \in 1..Len(v.m)}
             valOf(v, nm) == v.m[CHOOSE i \in 1..Len(v.m) : v.m[i][1] = nm][2]
             kept == [i \in 1..Len(a.m) |->
                        IF a.m[i][1] \in names(b) THEN <<a.m[i][1], MergeTree(a.m[i][2], valOf(b, a.m[i][1]))>> ELSE a.m[i]]
             added == SelectSeq(b.m, LAMBDA x : x[1] \notin names(a)) IN
         [t |-> "obj", m |-> kept \o added]
    ELSE b
=============================================================================
