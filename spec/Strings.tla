------------------------------ MODULE Strings ------------------------------
(***************************************************************************)
(* JSON string literals: quoting (RFC 8785 section 3.2.2.2 minimal form,   *)
(* plus the EscapeForHTML / EscapeForJS options), UTF-8 encoding, the      *)
(* projection of Go strings (arbitrary bytes) to code points, and the      *)
(* reformatting rules for string literals passed through as raw values.    *)
(*                                                                         *)
(* Escape options are a record e = [html, js].                             *)
(***************************************************************************)
EXTENDS JsonText

HexDigit(n) == IF n < 10 THEN 48 + n ELSE 87 + n          \* lower case
EscU(c) == <<92, 117, HexDigit(c \div 4096), HexDigit((c \div 256) % 16),
             HexDigit((c \div 16) % 16), HexDigit(c % 16)>>

Utf8Enc(c) ==
    IF c < 128 THEN <<c>>
    ELSE IF c < 2048 THEN <<192 + c \div 64, 128 + (c % 64)>>
    ELSE IF c < 65536 THEN <<224 + c \div 4096, 128 + ((c \div 64) % 64), 128 + (c % 64)>>
    ELSE <<240 + c \div 262144, 128 + ((c \div 4096) % 64), 128 + ((c \div 64) % 64), 128 + (c % 64)>>

\* one code point inside a string literal
QuoteCp(c, e) ==
    IF c = 34 THEN <<92, 34>>
    ELSE IF c = 92 THEN <<92, 92>>
    ELSE IF c = 8 THEN <<92, 98>>
    ELSE IF c = 9 THEN <<92, 116>>
    ELSE IF c = 10 THEN <<92, 110>>
    ELSE IF c = 12 THEN <<92, 102>>
    ELSE IF c = 13 THEN <<92, 114>>
    ELSE IF c < 32 THEN EscU(c)
    ELSE IF e.html /\ c \in {60, 62, 38} THEN EscU(c)
    ELSE IF e.js /\ c \in {8232, 8233} THEN EscU(c)
    ELSE Utf8Enc(c)

\* the literal for a sequence of code points
Quote(cps, e) == <<34>> \o FoldLeft(LAMBDA acc, c : acc \o QuoteCp(c, e), <<>>, cps) \o <<34>>

NoEsc == [html |-> FALSE, js |-> FALSE]

(***************************************************************************)
(* Go strings are arbitrary bytes.  Decoding follows utf8.DecodeRune: a    *)
(* well-formed sequence is one code point, any other byte is consumed      *)
(* alone and becomes U+FFFD.  Result: [cps, bad] (bad = some byte was      *)
(* ill-formed).                                                            *)
(***************************************************************************)
GoDecode(bytes) ==
    LET flush(a) == [a EXCEPT !.cps = @ \o [i \in 1..a.pend |-> RuneErr], !.pend = 0, !.k = 0,
                              !.bad = @ \/ a.pend > 0]
        start(a, b) ==
            IF b < 128 THEN [a EXCEPT !.cps = Append(@, b)]
            ELSE IF b \in 194..223 THEN [a EXCEPT !.k = 1, !.lo = 128, !.hi = 191, !.cp = b - 192, !.pend = 1]
            ELSE IF b \in 224..239 THEN [a EXCEPT !.k = 2, !.cp = b - 224, !.pend = 1,
                                                  !.lo = IF b = 224 THEN 160 ELSE 128,
                                                  !.hi = IF b = 237 THEN 159 ELSE 191]
            ELSE IF b \in 240..244 THEN [a EXCEPT !.k = 3, !.cp = b - 240, !.pend = 1,
                                                  !.lo = IF b = 240 THEN 144 ELSE 128,
                                                  !.hi = IF b = 244 THEN 143 ELSE 191]
            ELSE [a EXCEPT !.cps = Append(@, RuneErr), !.bad = TRUE]
        step(a, b) ==
            IF a.k = 0 THEN start(a, b)
            ELSE IF b \in a.lo..a.hi
                 THEN IF a.k = 1 THEN [a EXCEPT !.cps = Append(@, a.cp * 64 + (b - 128)), !.k = 0, !.pend = 0]
                      ELSE [a EXCEPT !.k = @ - 1, !.cp = @ * 64 + (b - 128), !.lo = 128, !.hi = 191, !.pend = @ + 1]
                 ELSE start(flush(a), b)
        r == flush(FoldLeft(step, [cps |-> <<>>, bad |-> FALSE, k |-> 0, lo |-> 0, hi |-> 0, cp |-> 0, pend |-> 0], bytes))
    IN [cps |-> r.cps, bad |-> r.bad]

(***************************************************************************)
(* A string literal that is part of a raw value (WriteValue, Format):      *)
(*  - PreserveRawStrings and no escape option: verbatim;                   *)
(*  - PreserveRawStrings with an escape option: only the characters the    *)
(*    option names are rewritten, everything else keeps its spelling;      *)
(*  - otherwise the literal is re-spelled minimally: Quote(meaning).       *)
(* lit is a valid literal (quotes included), cps its meaning.              *)
(***************************************************************************)
\* escape-only rewrite of the raw bytes of a literal
EscapeOnly(lit, e) ==
    LET step(a, b) ==
          IF a.skip > 0 THEN [a EXCEPT !.skip = @ - 1]
          ELSE LET i == a.i IN
               IF e.html /\ b \in {60, 62, 38} THEN [a EXCEPT !.out = @ \o EscU(b)]
               ELSE IF e.js /\ b = 226 /\ i + 2 <= Len(lit) /\ lit[i + 1] = 128 /\ lit[i + 2] \in {168, 169}
                    THEN [a EXCEPT !.out = @ \o EscU(8232 + (lit[i + 2] - 168)), !.skip = 2]
               ELSE [a EXCEPT !.out = Append(@, b)]
        r == FoldLeft(LAMBDA a, b : [step(a, b) EXCEPT !.i = @ + 1], [out |-> <<>>, skip |-> 0, i |-> 1], lit)
    IN r.out

ReformatLit(lit, cps, prs, e) ==
    IF prs THEN IF e.html \/ e.js THEN EscapeOnly(lit, e) ELSE lit
    ELSE Quote(cps, e)
=============================================================================
