----------------------------- MODULE MC_Encoder -----------------------------
(* Exhaustive exploration of Encoder call programs over an alphabet of       *)
(* tokens and raw values (valid, invalid, duplicate-producing) under a list  *)
(* of option sets.  Model theorem checked by TLC in every reachable state:   *)
(*   OutInv  the rendered output is a viable prefix of a JSON stream whose   *)
(*           byte-level parse has exactly the frames (kinds, lengths, name   *)
(*           sets) the Encoder model keeps - acceptance by the token-level   *)
(*           automaton coincides with byte-level viability of the rendering. *)
(* Every complete program is emitted with the predicted outcome of each call *)
(* and the output for replay against the real Encoder.                       *)
EXTENDS Encoder, TLC, Json

CONSTANTS Calls,      \* sequence of call records
          Fmts,       \* sequence of option records
          MaxCalls, MaxD, EmitCases

VARIABLES fi, e, hist

vars == <<fi, e, hist>>

Init == fi \in 1..Len(Fmts) /\ e = EInit /\ hist = <<>>

Do(ci) ==
    LET c == Calls[ci]
        r == IF c.op = "ptr" THEN Accept(e) ELSE ECall(Fmts[fi], e, c, MaxD)
        o == EObserve(r.next) IN
    /\ e' = r.next
    /\ hist' = Append(hist, <<ci, r.ok, o.off, o.depth, o.idx, IF c.op = "ptr" THEN EPointer(e) ELSE <<>>>>)
    /\ UNCHANGED fi

Next == Len(hist) < MaxCalls /\ \E ci \in 1..Len(Calls) : Do(ci)

Spec == Init /\ [][Next]_vars

AutoFrames(s) == [j \in 1..(Len(s.stack) + 1) |->
                    LET f == IF j <= Len(s.stack) THEN s.stack[j] ELSE s.fr IN <<f.t, f.n, f.names>>]
ModelFrames(x, ad) == [j \in 1..(EDepth(x) + 1) |->
                          LET f == FrameAt(x, j - 1) IN <<f.t, f.n, IF ad THEN {} ELSE f.names>>]

OutInv ==
    LET F == Fmts[fi]
        \* verbatim raw strings may carry ill-formed UTF-8 when it is allowed
        s == Finish(Run(Opt(F.ai, F.ad, MaxD), e.out)) IN
    /\ ~s.dead
    /\ s.lx = "ws"
    /\ AutoFrames(s) = ModelFrames(e, F.ad)

EmitInv == (EmitCases /\ Len(hist) = MaxCalls) =>
              PrintT(ToJson(<<Fmts[fi], [i \in 1..Len(hist) |-> Calls[hist[i][1]]], hist, e.out>>))
=============================================================================
