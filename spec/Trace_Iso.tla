------------------------------ MODULE Trace_Iso ------------------------------
(* Isolation of calls (C18): a history is a sequence of calls drawn from a    *)
(* pool of call descriptors, executed one after the other in a shuffled order *)
(* or concurrently on 16 goroutines.  ref maps each descriptor to the result  *)
(* it gave when executed alone in a fresh process.  Every occurrence of a     *)
(* descriptor in every history must give exactly that result; results handed  *)
(* back earlier must still be intact at the end of the history (still), also  *)
(* after the caller overwrote the input buffers it had passed; the race       *)
(* detector must not have reported anything.                                  *)
EXTENDS Integers, Sequences, TLC, Json, IOUtils

T == ndJsonDeserialize(IOEnv.VERIF_TRACE)

VARIABLES l, rej

RefOf(rec, d) == rec.ref[CHOOSE i \in 1..Len(rec.ref) : rec.ref[i][1] = d][2]

Check(rec) ==
    IF rec.panic # "" THEN <<"C20", "panic">>
    ELSE IF rec.races > 0 THEN <<"C18", "data-race-reported", rec.races>>
    ELSE LET wrong == {i \in 1..Len(rec.calls) : rec.calls[i][2] # RefOf(rec, rec.calls[i][1])}
             stale == {i \in 1..Len(rec.still) : ~rec.still[i][2]} IN
         IF wrong # {} THEN LET i == CHOOSE i \in wrong : \A j \in wrong : i <= j IN
                            <<"C18", "result-depends-on-history", rec.calls[i][1], i>>
         ELSE IF stale # {} THEN <<"C18", "returned-data-altered-later", rec.still[CHOOSE i \in stale : TRUE][1]>>
         ELSE <<>>

Init == l = 1 /\ rej = <<>>
Next == /\ l <= Len(T)
        /\ l' = l + 1
        /\ LET c == Check(T[l]) IN
           rej' = IF c = <<>> THEN rej ELSE Append(rej, <<T[l].id, c[1], c>>)
Spec == Init /\ [][Next]_<<l, rej>>
Done == l = Len(T) + 1 => PrintT(ToJson(<<"REJ", rej>>))
Consumed == TLCGet("stats").diameter = Len(T) + 1
=============================================================================
