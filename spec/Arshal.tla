------------------------------- MODULE Arshal -------------------------------
(***************************************************************************)
(* How Go values map to JSON and back: the type-directed part of Marshal   *)
(* and Unmarshal, written from the package documentation ("The input       *)
(* value is encoded as JSON according to the following rules", "The        *)
(* representation of each type is as follows", "JSON Representation of Go  *)
(* structs").  Used for C04 (round trip), C14 (merge semantics), C03       *)
(* (untyped targets), C15 (omit options, string option, name matching),    *)
(* C08 (names resolving to the same field / key).                          *)
(*                                                                         *)
(* Go types T                                                              *)
(*   [k |-> "bool"]  [k |-> "str"]  [k |-> "float"]                        *)
(*   [k |-> "int", bits, signed]                                           *)
(*   [k |-> "slice", e]  [k |-> "array", n, e]  [k |-> "ptr", e]           *)
(*   [k |-> "map", key, e]        key: str or int type                     *)
(*   [k |-> "any"]                                                         *)
(*   [k |-> "bytes"]  ([]byte)   [k |-> "barr", n]  ([n]byte): binary data *)
(*        written as a string in Base 64 (RFC 4648 section 4, padded); the *)
(*        formats base64 base64url base32 base32hex base16 hex choose      *)
(*        another encoding of RFC 4648, the format array a list of numbers *)
(*   [k |-> "struct", f]          f: sequence of fields                    *)
(*        [name (code points), t, omitzero, omitempty, str, casing, fmt]   *)
(*        fmt: the `format` option ("" when absent)                        *)
(*        A struct type also has fb: <<>> or <<E>> - an embedded fallback  *)
(*        field of type map[string]E that takes the unknown members        *)
(*   [k |-> "dur"] time.Duration and [k |-> "time"] time.Time, modelled    *)
(*        with the decimal formats sec/milli/micro/nano and unix/          *)
(*        unixmilli/unixmicro/unixnano (a number with a fraction)          *)
(*        (already resolved: embedding and name conflicts are Fields.tla)  *)
(*                                                                         *)
(* Go values G, always read together with their type                       *)
(*   bool [b]   str [s (code points)]   int [neg, mag (digits)]            *)
(*   float [neg, d, n]  the shortest decimal of the float64, in the normal *)
(*        form of Numbers.tla; -0 is [neg |-> TRUE, d |-> <<>>, n |-> 0];  *)
(*        the non-finite values use the codes left over: d = <<>> with     *)
(*        n = 1 (an infinity, its sign in neg) and n = 2 (NaN)             *)
(*   slice [nil, e]   array [e]   ptr [nil] / [nil, e]                     *)
(*   map [nil, m]  m: sequence of <<key, value>> sorted by the key's name  *)
(*   any [nil] / [nil, dt, e]   dt: the dynamic type                       *)
(*   bytes [nil, b (sequence of 0..255)]   barr [b]                        *)
(*   dur [neg, mag] nanoseconds   time [neg, mag] nanoseconds since the    *)
(*        Unix epoch (the instant; the zero time.Time is year 1)           *)
(*   struct [f, fb]  sequence of field values; the fallback map [nil, m]    *)
(*                                                                         *)
(* JSON values J (numbers keep their spelling: it decides conversion)      *)
(*   [t |-> "null"] [t |-> "bool", b] [t |-> "str", s] [t |-> "num", lit]  *)
(*   [t |-> "arr", e]  [t |-> "obj", m]  m: sequence of <<name, J>>        *)
(*                                                                         *)
(* Options (record o)                                                      *)
(*   det  Deterministic            nsn  FormatNilSliceAsNull               *)
(*   nmn  FormatNilMapAsNull       oz   OmitZeroStructFields               *)
(*   sn   StringifyNumbers         ru   RejectUnknownMembers               *)
(*   ci   MatchCaseInsensitiveNames                                        *)
(*   ad   AllowDuplicateNames                                              *)
(***************************************************************************)
EXTENDS JsonValue, Strings, FiniteSetsExt

FF == INSTANCE Fields

DefaultAO == [det |-> FALSE, nsn |-> FALSE, nmn |-> FALSE, oz |-> FALSE, sn |-> FALSE,
              ru |-> FALSE, ci |-> FALSE, ad |-> FALSE]

BoolT == [k |-> "bool"]
StrT == [k |-> "str"]
FloatT == [k |-> "float"]
AnyT == [k |-> "any"]
BytesT == [k |-> "bytes"]
SliceA == [k |-> "slice", e |-> AnyT]
MapSA == [k |-> "map", key |-> StrT, e |-> AnyT]

\* where a value stands: under a `string` tag option; as an object name
NoSt == [tag |-> FALSE, key |-> FALSE, fmt |-> ""]
KeySt == [tag |-> FALSE, key |-> TRUE, fmt |-> ""]

RECURSIVE CpLess(_, _)
CpLess(a, b) == IF a = <<>> THEN b # <<>> ELSE IF b = <<>> THEN FALSE
                ELSE IF a[1] # b[1] THEN a[1] < b[1] ELSE CpLess(Tail(a), Tail(b))

\* ------------------------------------------------------------------ zero values
\* time.Time{}: January 1, year 1, 00:00 UTC = -62135596800 s
ZeroTime == [neg |-> TRUE, mag |-> <<6, 2, 1, 3, 5, 5, 9, 6, 8, 0, 0, 0, 0, 0, 0, 0, 0, 0, 0, 0>>]
RECURSIVE Zero(_)
Zero(t) ==
    CASE t.k = "bool" -> [b |-> FALSE]
      [] t.k = "str" -> [s |-> <<>>]
      [] t.k \in {"int", "dur"} -> [neg |-> FALSE, mag |-> <<0>>]
      [] t.k = "time" -> ZeroTime
      [] t.k = "float" -> [neg |-> FALSE, d |-> <<>>, n |-> 0]
      [] t.k = "slice" -> [nil |-> TRUE, e |-> <<>>]
      [] t.k = "bytes" -> [nil |-> TRUE, b |-> <<>>]
      [] t.k = "barr" -> [b |-> [i \in 1..t.n |-> 0]]
      [] t.k = "array" -> [e |-> [i \in 1..t.n |-> Zero(t.e)]]
      [] t.k = "map" -> [nil |-> TRUE, m |-> <<>>]
      [] t.k \in {"ptr", "any"} -> [nil |-> TRUE]
      [] t.k = "struct" -> [f |-> [i \in 1..Len(t.f) |-> Zero(t.f[i].t)], fb |-> [nil |-> TRUE, m |-> <<>>]]

\* reflect.Value.IsZero: -0.0 is zero (it equals 0), an empty non-nil slice or map is not zero
RECURSIVE IsZero(_, _)
IsZero(t, v) ==
    CASE t.k = "bool" -> ~v.b
      [] t.k = "str" -> v.s = <<>>
      [] t.k \in {"int", "dur"} -> v.mag = <<0>>
      [] t.k = "time" -> v = ZeroTime
      [] t.k = "float" -> v.d = <<>> /\ v.n = 0
      [] t.k \in {"slice", "map", "ptr", "any", "bytes"} -> v.nil
      [] t.k = "barr" -> \A i \in 1..t.n : v.b[i] = 0
      [] t.k = "array" -> \A i \in 1..t.n : IsZero(t.e, v.e[i])
      [] t.k = "struct" -> v.fb.nil /\ \A i \in 1..Len(t.f) : IsZero(t.f[i].t, v.f[i])

\* omitzero asks the field type's IsZero method when there is one: time.Time has, and a
\* *time.Time inherits it (a pointer to the zero time is "zero")
FieldIsZero(t, v) == IF t.k = "ptr" /\ t.e.k = "time" THEN v.nil \/ v.e = ZeroTime ELSE IsZero(t, v)

\* values known to encode as an empty JSON value without encoding them
KnownEmpty(t, v) ==
    CASE t.k = "str" -> v.s = <<>>
      [] t.k \in {"slice", "array"} -> v.e = <<>>
      [] t.k \in {"bytes", "barr"} -> v.b = <<>>
      [] t.k = "map" -> v.m = <<>>
      [] t.k \in {"ptr", "any"} -> v.nil
      [] OTHER -> FALSE

\* ------------------------------------------------------------------ maps
\* the JSON name of a key: a string as it is, an integer as its decimal spelling
IntLit(v) == (IF v.neg THEN <<45>> ELSE <<>>) \o Chars(v.mag)
KeyName(kt, k) == IF kt.k = "str" THEN k.s ELSE IntLit(k)

MapHas(m, k) == \E i \in 1..Len(m) : m[i][1] = k
MapGet(m, k) == m[CHOOSE i \in 1..Len(m) : m[i][1] = k][2]
MapPut(kt, m, k, v) ==
    IF MapHas(m, k) THEN [i \in 1..Len(m) |-> IF m[i][1] = k THEN <<k, v>> ELSE m[i]]
    ELSE LET before == SelectSeq(m, LAMBDA x : CpLess(KeyName(kt, x[1]), KeyName(kt, k)))
             after == SelectSeq(m, LAMBDA x : ~CpLess(KeyName(kt, x[1]), KeyName(kt, k))) IN
         before \o <<<<k, v>>>> \o after

\* ------------------------------------------------------------------ Marshal
ERR == [t |-> "err"]
IsErr(j) == j.t = "err"
JNull == [t |-> "null"]

FloatLit(v) == IF v.d = <<>> THEN (IF v.neg THEN <<45, 48>> ELSE <<48>>) ELSE EcmaLayout(v.neg, v.d, v.n)
NumJ(lit, stringify) == IF stringify THEN [t |-> "str", s |-> lit] ELSE [t |-> "num", lit |-> lit]

\* the non-finite floats and their names under the format nonfinite
NonFinite(v) == v.d = <<>> /\ v.n > 0
NaNName == <<78, 97, 78>>
InfName == <<73, 110, 102, 105, 110, 105, 116, 121>>
NonFiniteName(v) == IF v.n = 2 THEN NaNName ELSE (IF v.neg THEN <<45>> ELSE <<>>) \o InfName
NaNV == [neg |-> FALSE, d |-> <<>>, n |-> 2]
InfV(neg) == [neg |-> neg, d |-> <<>>, n |-> 1]

\* null, "", {} and []
EmptyJ(j) == \/ j.t = "null"
             \/ j.t = "str" /\ j.s = <<>>
             \/ j.t = "arr" /\ j.e = <<>>
             \/ j.t = "obj" /\ j.m = <<>>

\* ------------------------------------------------------------------ decimal formats of durations and instants
\* A count of nanoseconds written in units of 10^k ns: the whole units, then - unless zero -
\* a point and the remaining digits without trailing zeros.  k = 9 6 3 0 for sec/unix,
\* milli/unixmilli, micro/unixmicro, nano/unixnano.
FmtK(f) == CASE f \in {"sec", "unix"} -> 9 [] f \in {"milli", "unixmilli"} -> 6
             [] f \in {"micro", "unixmicro"} -> 3 [] f \in {"nano", "unixnano"} -> 0 [] OTHER -> -1
DecText(neg, mag, k) ==
    LET digs == IF Len(mag) <= k THEN [i \in 1..(k + 1 - Len(mag)) |-> 0] \o mag ELSE mag
        whole == SubSeq(digs, 1, Len(digs) - k)
        frac == StripRight(SubSeq(digs, Len(digs) - k + 1, Len(digs))) IN
    (IF neg /\ mag # <<0>> THEN <<45>> ELSE <<>>) \o Chars(whole)
    \o (IF frac = <<>> THEN <<>> ELSE <<46>> \o Chars(frac))

\* reading it back: an optional minus, an integer without leading zeros, optionally a point and
\* at least one digit; no exponent.  Digits beyond the unit's precision are dropped.  "-0" is
\* refused (the sign of the result would not be the sign written).  bound(neg): largest magnitude
DecParse(lit, k, posBound, negBound) ==
    LET neg == lit # <<>> /\ lit[1] = 45
        body == IF neg THEN Tail(lit) ELSE lit
        dots == {i \in 1..Len(body) : body[i] = 46}
        cut == IF dots = {} THEN Len(body) + 1 ELSE CHOOSE i \in dots : \A j \in dots : i <= j
        w == SubSeq(body, 1, cut - 1)
        f == SubSeq(body, cut + 1, Len(body))
        digitsOnly(x) == \A i \in 1..Len(x) : IsDigit(x[i])
        syntax == /\ w # <<>> /\ digitsOnly(w) /\ (Len(w) > 1 => w[1] # 48)
                  /\ (dots # {} => f # <<>> /\ digitsOnly(f))
        fk == [i \in 1..k |-> IF i <= Len(f) THEN f[i] - 48 ELSE 0]
        all == StripLeft([i \in 1..Len(w) |-> w[i] - 48] \o fk)
        mag == IF all = <<>> THEN <<0>> ELSE all IN
    IF ~syntax THEN [ok |-> FALSE]
    ELSE IF neg /\ mag = <<0>> THEN [ok |-> FALSE]
    ELSE IF ~MagLeq(mag, IF neg THEN negBound ELSE posBound) THEN [ok |-> FALSE]
    ELSE [ok |-> TRUE, v |-> [neg |-> neg, mag |-> mag]]

\* int64 nanoseconds; instants whose seconds fit an int64 (the drivers stay below 2^62 s on the
\* negative side, where the exact bound depends on the fraction)
MaxTimeMag == MaxI64 \o <<9, 9, 9, 9, 9, 9, 9, 9, 9>>

\* ------------------------------------------------------------------ ISO 8601 durations (format iso8601)
\* arithmetic on digit strings (TLC's integers end at 2^31)
NatDigits(v) == LET cs == NatChars(v) IN [i \in 1..Len(cs) |-> cs[i] - 48]
NormMag(d) == IF StripLeft(d) = <<>> THEN <<0>> ELSE StripLeft(d)
DivSmall(mag, k) ==
    LET r == FoldLeft(LAMBDA acc, d : LET cur == acc.r * 10 + d IN [q |-> Append(acc.q, cur \div k), r |-> cur % k],
                      [q |-> <<>>, r |-> 0], mag) IN
    [q |-> NormMag(r.q), r |-> r.r]
MulSmall(mag, k) ==
    LET n == Len(mag)
        r == FoldLeft(LAMBDA acc, i : LET cur == mag[n + 1 - i] * k + acc.c IN [d |-> <<cur % 10>> \o acc.d, c |-> cur \div 10],
                      [d |-> <<>>, c |-> 0], [i \in 1..n |-> i]) IN
    NormMag((IF r.c = 0 THEN <<>> ELSE NatDigits(r.c)) \o r.d)
AddMag(x, y) ==
    LET n == IF Len(x) > Len(y) THEN Len(x) ELSE Len(y)
        px == [i \in 1..(n - Len(x)) |-> 0] \o x
        py == [i \in 1..(n - Len(y)) |-> 0] \o y
        r == FoldLeft(LAMBDA acc, i : LET cur == px[n + 1 - i] + py[n + 1 - i] + acc.c IN [d |-> <<cur % 10>> \o acc.d, c |-> cur \div 10],
                      [d |-> <<>>, c |-> 0], [i \in 1..n |-> i]) IN
    NormMag((IF r.c = 0 THEN <<>> ELSE <<r.c>>) \o r.d)

\* writing: PT, then the hours, minutes and seconds that are not zero - the seconds with the
\* nanoseconds as a fraction without trailing zeros; a zero duration is PT0S
IsoText(neg, mag) ==
    IF mag = <<0>> THEN <<80, 84, 48, 83>>
    ELSE LET digs == IF Len(mag) <= 9 THEN [i \in 1..(10 - Len(mag)) |-> 0] \o mag ELSE mag
             secs == NormMag(SubSeq(digs, 1, Len(digs) - 9))
             frac == StripRight(SubSeq(digs, Len(digs) - 8, Len(digs)))
             ms == DivSmall(secs, 60)       \* minutes in all, seconds
             hm == DivSmall(ms.q, 60) IN    \* hours, minutes
         (IF neg THEN <<45>> ELSE <<>>) \o <<80, 84>>
         \o (IF hm.q # <<0>> THEN Chars(hm.q) \o <<72>> ELSE <<>>)
         \o (IF hm.r > 0 THEN NatChars(hm.r) \o <<77>> ELSE <<>>)
         \o (IF ms.r > 0 \/ frac # <<>> THEN NatChars(ms.r) \o (IF frac = <<>> THEN <<>> ELSE <<46>> \o Chars(frac)) \o <<83>> ELSE <<>>)

\* reading: an optional sign, P, T (the date part must be absent: years, months, weeks and days
\* have no exact length and are refused), then hours, minutes, seconds in this order, each at most
\* once, at least one; designators in either case; numbers with leading zeros; only the last number
\* may have a fraction ('.' or ','), of which nine digits count for seconds.  (For hours and
\* minutes the library multiplies the fraction in floating point; up to nine digits that is exact,
\* and the drivers stay below.)  [ok, v]
IsoUnit(c) == CASE c \in {72, 104} -> 1 [] c \in {77, 109} -> 2 [] c \in {83, 115} -> 3 [] OTHER -> 0
IsoParse(s) ==
    LET signed == s # <<>> /\ s[1] \in {43, 45}
        neg == s # <<>> /\ s[1] = 45
        body == IF signed THEN Tail(s) ELSE s
        rest == SubSeq(body, 3, Len(body))
        marks == {i \in 1..Len(rest) : ~IsDigit(rest[i]) /\ rest[i] \notin {46, 44}}
        prevMark(i) == IF \E k \in marks : k < i THEN CHOOSE k \in marks : k < i /\ \A m \in marks : m < i => m <= k ELSE 0
        num(i) == SubSeq(rest, prevMark(i) + 1, i - 1)
        seps(x) == {k \in 1..Len(x) : x[k] \in {46, 44}}
        whole(x) == IF seps(x) = {} THEN x ELSE SubSeq(x, 1, (CHOOSE k \in seps(x) : TRUE) - 1)
        fracOf(x) == IF seps(x) = {} THEN <<>> ELSE SubSeq(x, (CHOOSE k \in seps(x) : TRUE) + 1, Len(x))
        last == IF marks = {} THEN 0 ELSE CHOOSE k \in marks : \A m \in marks : m <= k
        syntax == /\ Len(body) >= 3 /\ body[1] \in {80, 112} /\ body[2] \in {84, 116}
                  /\ marks # {} /\ last = Len(rest)
                  /\ \A i \in marks : IsoUnit(rest[i]) > 0
                  /\ \A i, k \in marks : i < k => IsoUnit(rest[i]) < IsoUnit(rest[k])
                  /\ \A i \in marks : LET x == num(i) IN
                        /\ Cardinality(seps(x)) <= 1
                        /\ whole(x) # <<>>
                        /\ seps(x) # {} => (fracOf(x) # <<>> /\ i = last)
        nanosOf(i) ==
            LET x == num(i)
                u == IsoUnit(rest[i])
                w == NormMag([k \in 1..Len(whole(x)) |-> whole(x)[k] - 48])
                f9 == [k \in 1..9 |-> IF k <= Len(fracOf(x)) THEN fracOf(x)[k] - 48 ELSE 0]
                secs == IF u = 1 THEN MulSmall(w, 3600) ELSE IF u = 2 THEN MulSmall(w, 60) ELSE w
                fr == IF u = 1 THEN MulSmall(NormMag(f9), 3600) ELSE IF u = 2 THEN MulSmall(NormMag(f9), 60) ELSE NormMag(f9) IN
            AddMag(IF secs = <<0>> THEN <<0>> ELSE secs \o <<0, 0, 0, 0, 0, 0, 0, 0, 0>>, fr)
        total == FoldLeft(LAMBDA acc, i : AddMag(acc, nanosOf(i)), <<0>>, SetToSortSeq(marks, <)) IN
    IF ~syntax THEN [ok |-> FALSE]
    ELSE IF ~MagLeq(total, IF neg THEN Pow2(63) ELSE MaxI64) THEN [ok |-> FALSE]
    ELSE [ok |-> TRUE, v |-> [neg |-> neg /\ total # <<0>>, mag |-> total]]

\* ------------------------------------------------------------------ Base 64 (RFC 4648 section 4)
B64Char(i) == IF i < 26 THEN 65 + i ELSE IF i < 52 THEN 71 + i ELSE IF i < 62 THEN i - 4 ELSE IF i = 62 THEN 43 ELSE 47
B64Val(c) == IF c \in 65..90 THEN c - 65 ELSE IF c \in 97..122 THEN c - 71 ELSE IF c \in 48..57 THEN c + 4
             ELSE IF c = 43 THEN 62 ELSE IF c = 47 THEN 63 ELSE -1

RECURSIVE B64Enc(_)
B64Enc(b) ==
    IF b = <<>> THEN <<>>
    ELSE IF Len(b) = 1 THEN <<B64Char(b[1] \div 4), B64Char((b[1] % 4) * 16), 61, 61>>
    ELSE IF Len(b) = 2 THEN <<B64Char(b[1] \div 4), B64Char((b[1] % 4) * 16 + b[2] \div 16), B64Char((b[2] % 16) * 4), 61>>
    ELSE <<B64Char(b[1] \div 4), B64Char((b[1] % 4) * 16 + b[2] \div 16), B64Char((b[2] % 16) * 4 + b[3] \div 64), B64Char(b[3] % 64)>>
         \o B64Enc(SubSeq(b, 4, Len(b)))

\* [ok, b]: padding is required and only ends the text, no other characters (no line breaks);
\* unused bits of the last group need not be zero (RFC 4648 section 3.5 leaves that open)
RECURSIVE B64Dec(_)
B64Dec(s) ==
    IF s = <<>> THEN [ok |-> TRUE, b |-> <<>>]
    ELSE IF Len(s) < 4 THEN [ok |-> FALSE]
    ELSE LET q == SubSeq(s, 1, 4)
             last == Len(s) = 4
             v(i) == B64Val(q[i]) IN
         IF v(1) < 0 \/ v(2) < 0 THEN [ok |-> FALSE]
         ELSE IF last /\ q[3] = 61 /\ q[4] = 61 THEN [ok |-> TRUE, b |-> <<v(1) * 4 + v(2) \div 16>>]
         ELSE IF v(3) < 0 THEN [ok |-> FALSE]
         ELSE IF last /\ q[4] = 61 THEN [ok |-> TRUE, b |-> <<v(1) * 4 + v(2) \div 16, (v(2) % 16) * 16 + v(3) \div 4>>]
         ELSE IF v(4) < 0 THEN [ok |-> FALSE]
         ELSE LET r == B64Dec(SubSeq(s, 5, Len(s))) IN
              IF r.ok THEN [ok |-> TRUE, b |-> <<v(1) * 4 + v(2) \div 16, (v(2) % 16) * 16 + v(3) \div 4, (v(3) % 4) * 64 + v(4)>> \o r.b]
              ELSE r

\* ------------------------------------------------------------------ the encodings of RFC 4648 in general
\* The bytes are read as one string of bits, most significant first, cut into groups of `bits`
\* bits (the last one filled up with zeros), each group written as one character of the
\* alphabet; '=' is appended until the length is a multiple of q.
BitsOf(b) == [i \in 1..(8 * Len(b)) |-> (b[((i - 1) \div 8) + 1] \div (2 ^ (7 - ((i - 1) % 8)))) % 2]
GroupVal(bs, from, w) == FoldLeft(LAMBDA acc, j : 2 * acc + (IF from + j <= Len(bs) THEN bs[from + j] ELSE 0), 0, [j \in 1..w |-> j])

\* alphabets: value -> character, character -> value (-1: not in the alphabet)
Enc(f) == CASE f \in {"", "base64"} -> [bits |-> 6, q |-> 4]
            [] f = "base64url" -> [bits |-> 6, q |-> 4]
            [] f \in {"base32", "base32hex"} -> [bits |-> 5, q |-> 8]
            [] f \in {"base16", "hex"} -> [bits |-> 4, q |-> 2]
AlphaChar(f, i) ==
    CASE f \in {"", "base64"} -> B64Char(i)
      [] f = "base64url" -> (IF i = 62 THEN 45 ELSE IF i = 63 THEN 95 ELSE B64Char(i))
      [] f = "base32" -> (IF i < 26 THEN 65 + i ELSE 24 + i)              \* A-Z 2-7
      [] f = "base32hex" -> (IF i < 10 THEN 48 + i ELSE 55 + i)           \* 0-9 A-V
      [] f \in {"base16", "hex"} -> HexDigit(i)                           \* lower case
AlphaVal(f, c) ==
    CASE f \in {"", "base64"} -> B64Val(c)
      [] f = "base64url" -> (IF c = 45 THEN 62 ELSE IF c = 95 THEN 63 ELSE IF c \in {43, 47} THEN -1 ELSE B64Val(c))
      [] f = "base32" -> (IF c \in 65..90 THEN c - 65 ELSE IF c \in 50..55 THEN c - 24 ELSE -1)
      [] f = "base32hex" -> (IF c \in 48..57 THEN c - 48 ELSE IF c \in 65..86 THEN c - 55 ELSE -1)
      \* reading base 16 accepts both cases
      [] f \in {"base16", "hex"} -> (IF c \in 48..57 THEN c - 48 ELSE IF c \in 97..102 THEN c - 87 ELSE IF c \in 65..70 THEN c - 55 ELSE -1)

BinFormats == {"base64", "base64url", "base32", "base32hex", "base16", "hex"}

BaseEnc(f, b) ==
    LET e == Enc(f)
        bs == BitsOf(b)
        n == (Len(bs) + e.bits - 1) \div e.bits
        pad == (e.q - (n % e.q)) % e.q IN
    [g \in 1..n |-> AlphaChar(f, GroupVal(bs, (g - 1) * e.bits, e.bits))] \o [i \in 1..pad |-> 61]

\* [ok, b]: the text is a multiple of q characters; '=' only completes the last quantum; the
\* characters of a partial quantum carry whole bytes and fewer than `bits` spare bits (whose
\* value is not looked at: RFC 4648 section 3.5 leaves that open); nothing else - no line
\* breaks, no second padded quantum
BaseDec(f, s) ==
    LET e == Enc(f)
        pads == {i \in 1..Len(s) : s[i] = 61}
        dl == IF pads = {} THEN Len(s) ELSE (CHOOSE i \in pads : \A k \in pads : i <= k) - 1
        c == dl % e.q
        vals == [i \in 1..dl |-> AlphaVal(f, s[i])]
        bs == [i \in 1..(dl * e.bits) |-> (vals[((i - 1) \div e.bits) + 1] \div (2 ^ (e.bits - 1 - ((i - 1) % e.bits)))) % 2] IN
    IF \/ Len(s) % e.q # 0
       \/ \E i \in (dl + 1)..Len(s) : s[i] # 61
       \/ Len(s) - dl # (e.q - c) % e.q
       \/ (c * e.bits) % 8 >= e.bits
       \/ \E i \in 1..dl : vals[i] < 0
    THEN [ok |-> FALSE]
    ELSE [ok |-> TRUE, b |-> [k \in 1..((dl * e.bits) \div 8) |-> GroupVal(bs, (k - 1) * 8, 8)]]

\* binary data as a list of numbers (format array)
U8T == [k |-> "int", bits |-> 8, signed |-> FALSE]
DigitsNat(d) == FoldLeft(LAMBDA acc, x : 10 * acc + x, 0, d)
ListT(t) == IF t.k = "bytes" THEN [k |-> "slice", e |-> U8T] ELSE [k |-> "array", n |-> t.n, e |-> U8T]
ListV(t, v) == LET es == [i \in 1..Len(v.b) |-> [neg |-> FALSE, mag |-> NatDigits(v.b[i])]] IN
               IF t.k = "bytes" THEN [nil |-> v.nil, e |-> es] ELSE [e |-> es]
BytesV(t, lv) == LET bs == [i \in 1..Len(lv.e) |-> DigitsNat(lv.e[i].mag)] IN
                 IF t.k = "bytes" THEN [nil |-> lv.nil, b |-> bs] ELSE [b |-> bs]

\* which `format` options a type knows (those of durations and instants are decided where they
\* are used; a pointer hands the option on)
KnownFmt(t, f) ==
    CASE t.k \in {"ptr", "dur", "time"} -> TRUE
      [] t.k \in {"bytes", "barr"} -> f \in BinFormats \cup {"array"}
      [] t.k = "float" -> f = "nonfinite"
      [] t.k \in {"slice", "map"} -> f \in {"emitnull", "emitempty"}
      [] OTHER -> FALSE

RECURSIVE Marshal(_, _, _, _)
Marshal(t, v, o, st) ==
    \* a `format` option the type does not know is an error
    IF st.fmt # "" /\ ~KnownFmt(t, st.fmt) THEN ERR
    \* the `string` option is for numbers (possibly behind pointers): anything else is an error
    ELSE IF t.k = "bool" THEN (IF st.key \/ st.tag THEN ERR ELSE [t |-> "bool", b |-> v.b])
    ELSE IF t.k = "str" THEN (IF st.tag THEN ERR ELSE [t |-> "str", s |-> v.s])
    ELSE IF t.k = "int" THEN NumJ(IntLit(v), o.sn \/ st.tag \/ st.key)
    \* a duration has no default representation; the decimal formats are numbers
    \* (iso8601 is no number: always a string, and the `string` option is an error)
    ELSE IF t.k = "dur" /\ st.fmt = "iso8601" THEN
         (IF st.tag THEN ERR ELSE [t |-> "str", s |-> IsoText(v.neg, v.mag)])
    ELSE IF t.k = "dur" THEN
         (IF st.fmt \notin {"sec", "milli", "micro", "nano"} THEN ERR
          ELSE NumJ(DecText(v.neg, v.mag, FmtK(st.fmt)), o.sn \/ st.tag \/ st.key))
    ELSE IF t.k = "time" THEN
         (IF st.fmt \notin {"unix", "unixmilli", "unixmicro", "unixnano"} THEN ERR   \* (layouts: not modelled)
          ELSE NumJ(DecText(v.neg, v.mag, FmtK(st.fmt)), o.sn \/ st.tag \/ st.key))
    \* NaN and the infinities have no JSON number: an error, unless the format nonfinite asks
    \* for their names (as strings)
    ELSE IF t.k = "float" /\ NonFinite(v) THEN
         (IF st.fmt = "nonfinite" THEN [t |-> "str", s |-> NonFiniteName(v)] ELSE ERR)
    ELSE IF t.k = "float" THEN NumJ(FloatLit(v), o.sn \/ st.tag \/ st.key)
    ELSE IF t.k = "ptr" THEN (IF v.nil THEN (IF st.key THEN ERR ELSE JNull) ELSE Marshal(t.e, v.e, o, st))
    \* composites are no numbers and no names
    ELSE IF st.tag \/ st.key THEN ERR
    ELSE IF t.k = "any" THEN (IF v.nil THEN JNull ELSE Marshal(v.dt, v.e, o, NoSt))
    ELSE IF t.k \in {"bytes", "barr"} /\ st.fmt = "array" THEN Marshal(ListT(t), ListV(t, v), o, NoSt)
    ELSE IF t.k = "bytes" /\ v.nil /\ o.nsn THEN JNull
    ELSE IF t.k \in {"bytes", "barr"} THEN [t |-> "str", s |-> BaseEnc(st.fmt, v.b)]
    \* a nil slice or map is empty; written as null on request: by the option, or - with
    \* precedence - by the formats emitnull / emitempty
    ELSE IF t.k = "slice" /\ v.nil /\ (st.fmt = "emitnull" \/ (st.fmt = "" /\ o.nsn)) THEN JNull
    ELSE IF t.k \in {"slice", "array"} THEN
         LET es == [i \in 1..Len(v.e) |-> Marshal(t.e, v.e[i], o, NoSt)] IN
         IF \E i \in 1..Len(es) : IsErr(es[i]) THEN ERR ELSE [t |-> "arr", e |-> es]
    ELSE IF t.k = "map" /\ v.nil /\ (st.fmt = "emitnull" \/ (st.fmt = "" /\ o.nmn)) THEN JNull
    ELSE IF t.k = "map" THEN
         \* members in the order of their names (the order of Deterministic; any order otherwise)
         LET ms == [i \in 1..Len(v.m) |-> <<KeyName(t.key, v.m[i][1]), Marshal(t.e, v.m[i][2], o, NoSt)>>] IN
         IF \E i \in 1..Len(ms) : IsErr(ms[i][2]) THEN ERR ELSE [t |-> "obj", m |-> ms]
    ELSE \* struct: the fields in order, then the members of the embedded fallback (in the order
         \* of their names); a fallback member must not repeat a member already written - it
         \* names a field exactly, or where requested ignoring case - nor another fallback member
         LET regular == FoldLeft(LAMBDA acc, i :
                    IF IsErr(acc.j) THEN acc
                    ELSE LET F == t.f[i]  fv == v.f[i] IN
                         IF (F.omitzero \/ o.oz) /\ FieldIsZero(F.t, fv) THEN acc
                         ELSE IF F.omitempty /\ KnownEmpty(F.t, fv) THEN acc
                         ELSE LET j == Marshal(F.t, fv, o, [tag |-> F.str, key |-> FALSE, fmt |-> F.fmt]) IN
                              IF IsErr(j) THEN [acc EXCEPT !.j = ERR]
                              ELSE IF F.omitempty /\ EmptyJ(j) THEN acc
                              ELSE [j |-> [acc.j EXCEPT !.m = Append(@, <<F.name, j>>)], seen |-> acc.seen \cup {i}],
                  [j |-> [t |-> "obj", m |-> <<>>], seen |-> {}], [i \in 1..Len(t.f) |-> i])
             idx == 1..Len(t.f)
             fieldOf(name) ==
                 LET exact == {i \in idx : t.f[i].name = name}
                     folded == {i \in idx : FF!Fold(t.f[i].name) = FF!Fold(name) /\ (t.f[i].casing = 1 \/ (o.ci /\ t.f[i].casing # 2))} IN
                 IF exact # {} THEN exact ELSE IF folded = {} THEN {} ELSE {CHOOSE i \in folded : \A k \in folded : i <= k} IN
         IF IsErr(regular.j) \/ t.fb = <<>> THEN regular.j
         ELSE FoldLeft(LAMBDA acc, kv :
                    IF IsErr(acc.j) THEN acc
                    ELSE LET fs == fieldOf(kv[1].s)
                             j == Marshal(t.fb[1], kv[2], o, NoSt) IN
                         IF ~o.ad /\ fs \cap acc.seen # {} THEN [acc EXCEPT !.j = ERR]
                         ELSE IF IsErr(j) THEN [acc EXCEPT !.j = ERR]
                         ELSE [j |-> [acc.j EXCEPT !.m = Append(@, <<kv[1].s, j>>)], seen |-> acc.seen \cup fs],
                  regular, v.fb.m).j

\* ------------------------------------------------------------------ compact rendering
Bytes(str) == CASE str = "null" -> <<110, 117, 108, 108>>
                [] str = "true" -> <<116, 114, 117, 101>>
                [] str = "false" -> <<102, 97, 108, 115, 101>>

RECURSIVE Render(_)
Render(j) ==
    CASE j.t = "null" -> Bytes("null")
      [] j.t = "bool" -> IF j.b THEN Bytes("true") ELSE Bytes("false")
      [] j.t = "str" -> Quote(j.s, NoEsc)
      [] j.t = "num" -> j.lit
      [] j.t = "arr" -> <<91>> \o FoldLeft(LAMBDA acc, i : acc \o (IF i = 1 THEN <<>> ELSE <<44>>) \o Render(j.e[i]),
                                           <<>>, [i \in 1..Len(j.e) |-> i]) \o <<93>>
      [] j.t = "obj" -> <<123>> \o FoldLeft(LAMBDA acc, i : acc \o (IF i = 1 THEN <<>> ELSE <<44>>)
                                                               \o Quote(j.m[i][1], NoEsc) \o <<58>> \o Render(j.m[i][2]),
                                            <<>>, [i \in 1..Len(j.m) |-> i]) \o <<125>>

\* ------------------------------------------------------------------ reading a text as J
RECURSIVE LitAt(_, _, _), LitElems(_, _, _, _), LitMembers(_, _, _, _)
LitAt(toks, src, i) ==
    LET tk == toks[i] IN
    CASE tk.k = "null" -> [v |-> JNull, nx |-> i + 1]
      [] tk.k = "true" -> [v |-> [t |-> "bool", b |-> TRUE], nx |-> i + 1]
      [] tk.k = "false" -> [v |-> [t |-> "bool", b |-> FALSE], nx |-> i + 1]
      [] tk.k \in {"str", "name"} -> [v |-> [t |-> "str", s |-> tk.str], nx |-> i + 1]
      [] tk.k = "num" -> [v |-> [t |-> "num", lit |-> SubSeq(src, tk.s + 1, tk.e)], nx |-> i + 1]
      [] tk.k = "[" -> LitElems(toks, src, i + 1, <<>>)
      [] tk.k = "{" -> LitMembers(toks, src, i + 1, <<>>)
LitElems(toks, src, i, acc) ==
    IF toks[i].k = "]" THEN [v |-> [t |-> "arr", e |-> acc], nx |-> i + 1]
    ELSE LET r == LitAt(toks, src, i) IN LitElems(toks, src, r.nx, Append(acc, r.v))
LitMembers(toks, src, i, acc) ==
    IF toks[i].k = "}" THEN [v |-> [t |-> "obj", m |-> acc], nx |-> i + 1]
    ELSE LET r == LitAt(toks, src, i + 1) IN LitMembers(toks, src, r.nx, Append(acc, <<toks[i].str, r.v>>))

\* the text must be one JSON value (duplicate names allowed here: Unmarshal decides about them)
ParseJ(src) == LitAt(Finish(Run(Opt(FALSE, TRUE, 10000), src)).toks, src, 1).v

\* some object of the value has two members with the same name
RECURSIVE HasDup(_)
HasDup(j) ==
    CASE j.t = "arr" -> \E i \in 1..Len(j.e) : HasDup(j.e[i])
      [] j.t = "obj" -> \/ \E a, b \in 1..Len(j.m) : a < b /\ j.m[a][1] = j.m[b][1]
                        \/ \E i \in 1..Len(j.m) : HasDup(j.m[i][2])
      [] OTHER -> FALSE

\* ------------------------------------------------------------------ Unmarshal
OK(v) == [ok |-> TRUE, v |-> v]
FAIL == [ok |-> FALSE]

\* the bytes are one JSON number and nothing else
IsNumberSyntax(lit) ==
    /\ lit # <<>>
    /\ lit[1] \in ({45} \cup 48..57)
    /\ lit[Len(lit)] \in 48..57
    /\ ValidOne(Opt(FALSE, FALSE, 10000), lit)

\* a float64 is modelled by its shortest decimal; a literal of at most 15 significant digits well
\* inside the range is that decimal (DBL_DIG), a literal far beyond the range overflows, one far
\* below it is zero.  Other literals are outside the model (Numbers.tla; the drivers keep out).
FloatDecidable(lit) == Decidable(Normal(lit))

RECURSIVE Unmarshal(_, _, _, _, _)
Unmarshal(t, old, j, o, st) ==
    IF t.k = "ptr" THEN
         \* null stores a nil pointer; otherwise decode into the pointee, allocated when missing
         IF j.t = "null" THEN OK([nil |-> TRUE])
         ELSE LET r == Unmarshal(t.e, IF old.nil THEN Zero(t.e) ELSE old.e, j, o, st) IN
              IF r.ok THEN OK([nil |-> FALSE, e |-> r.v]) ELSE FAIL
    ELSE IF st.fmt # "" /\ ~KnownFmt(t, st.fmt) THEN FAIL
    ELSE IF t.k \notin {"int", "float", "dur", "time"} /\ st.tag THEN FAIL
    ELSE IF t.k = "dur" /\ st.fmt = "iso8601" THEN
         (IF st.tag THEN FAIL
          ELSE IF j.t = "null" THEN OK(Zero(t))
          ELSE IF j.t # "str" THEN FAIL
          ELSE LET r == IsoParse(j.s) IN IF r.ok THEN OK(r.v) ELSE FAIL)
    ELSE IF t.k \in {"dur", "time"} /\ FmtK(st.fmt) < 0 THEN FAIL
    ELSE IF t.k \in {"dur", "time"} /\ (t.k = "dur") # (st.fmt \in {"sec", "milli", "micro", "nano"}) THEN FAIL
    ELSE IF j.t = "null" THEN OK(Zero(t))
    ELSE IF t.k = "bool" THEN (IF j.t = "bool" THEN OK([b |-> j.b]) ELSE FAIL)
    ELSE IF t.k = "str" THEN (IF j.t = "str" THEN OK([s |-> j.s]) ELSE FAIL)
    ELSE IF t.k \in {"dur", "time"} THEN
         LET stringify == o.sn \/ st.tag \/ st.key
             lit == IF stringify THEN (IF j.t = "str" THEN j.s ELSE <<>>)
                    ELSE (IF j.t = "num" THEN j.lit ELSE <<>>)
             r == IF t.k = "dur" THEN DecParse(lit, FmtK(st.fmt), MaxI64, Pow2(63))
                  ELSE DecParse(lit, FmtK(st.fmt), MaxTimeMag, MaxTimeMag) IN
         IF lit = <<>> \/ ~r.ok THEN FAIL ELSE OK(r.v)
    ELSE IF t.k = "float" /\ st.fmt = "nonfinite" /\ j.t = "str" /\ j.s \in {NaNName, InfName, <<45>> \o InfName} THEN
         OK(IF j.s = NaNName THEN NaNV ELSE InfV(j.s[1] = 45))
    ELSE IF t.k \in {"int", "float"} THEN
         LET stringify == o.sn \/ st.tag \/ st.key
             lit == IF stringify THEN (IF j.t = "str" THEN j.s ELSE <<>>)
                    ELSE (IF j.t = "num" THEN j.lit ELSE <<>>) IN
         IF lit = <<>> THEN FAIL
         ELSE IF t.k = "int" THEN
              IF IntAccepts(lit, t.bits, t.signed)
              THEN OK([neg |-> lit[1] = 45 /\ MagOf(lit) # <<0>>, mag |-> MagOf(lit)]) ELSE FAIL
         ELSE IF (\A i \in 1..Len(lit) : lit[i] < 128) /\ IsNumberSyntax(lit)
              THEN LET nf == Normal(lit) IN
                   \* 0.d1..dk * 10^n: from n = 310 on it is beyond the largest float64 (an error),
                   \* up to n = -330 it is below half the smallest one (zero, the sign kept)
                   IF nf.d # <<>> /\ nf.n >= 310 THEN FAIL
                   ELSE IF nf.d # <<>> /\ nf.n <= -330 THEN OK([neg |-> nf.neg, d |-> <<>>, n |-> 0])
                   ELSE OK([neg |-> nf.neg, d |-> nf.d, n |-> nf.n])
              ELSE FAIL
    ELSE IF t.k \in {"bytes", "barr"} /\ st.fmt = "array" THEN
         LET r == Unmarshal(ListT(t), ListV(t, old), j, o, NoSt) IN
         IF r.ok THEN OK(BytesV(t, r.v)) ELSE FAIL
    ELSE IF t.k \in {"bytes", "barr"} THEN
         IF j.t # "str" THEN FAIL
         ELSE LET r == BaseDec(st.fmt, j.s) IN
              IF ~r.ok THEN FAIL
              ELSE IF t.k = "bytes" THEN OK([nil |-> FALSE, b |-> r.b])
              ELSE IF Len(r.b) = t.n THEN OK([b |-> r.b]) ELSE FAIL
    ELSE IF t.k = "slice" THEN
         \* the slice ends up holding exactly the new elements, each decoded into a zero value
         IF j.t # "arr" THEN FAIL
         ELSE LET rs == [i \in 1..Len(j.e) |-> Unmarshal(t.e, Zero(t.e), j.e[i], o, NoSt)] IN
              IF \E i \in 1..Len(rs) : ~rs[i].ok THEN FAIL
              ELSE OK([nil |-> FALSE, e |-> [i \in 1..Len(rs) |-> rs[i].v]])
    ELSE IF t.k = "array" THEN
         IF j.t # "arr" \/ Len(j.e) # t.n THEN FAIL
         ELSE LET rs == [i \in 1..t.n |-> Unmarshal(t.e, Zero(t.e), j.e[i], o, NoSt)] IN
              IF \E i \in 1..t.n : ~rs[i].ok THEN FAIL
              ELSE OK([e |-> [i \in 1..t.n |-> rs[i].v]])
    ELSE IF t.k = "map" THEN
         \* entries are kept; a member whose key exists is decoded into the existing entry;
         \* two members decoding to the same key are duplicates
         IF j.t # "obj" THEN FAIL
         ELSE LET r == FoldLeft(LAMBDA acc, mem :
                         IF ~acc.ok THEN acc
                         ELSE LET kr == Unmarshal(t.key, Zero(t.key), [t |-> "str", s |-> mem[1]], o, KeySt) IN
                              IF ~kr.ok THEN [acc EXCEPT !.ok = FALSE]
                              ELSE IF ~o.ad /\ kr.v \in acc.seen THEN [acc EXCEPT !.ok = FALSE]
                              ELSE LET vr == Unmarshal(t.e, IF MapHas(acc.m, kr.v) THEN MapGet(acc.m, kr.v) ELSE Zero(t.e),
                                                       mem[2], o, NoSt) IN
                                   IF ~vr.ok THEN [acc EXCEPT !.ok = FALSE]
                                   ELSE [acc EXCEPT !.m = MapPut(t.key, @, kr.v, vr.v), !.seen = @ \cup {kr.v}],
                       [ok |-> TRUE, m |-> old.m, seen |-> {}], j.m) IN
              IF r.ok THEN OK([nil |-> FALSE, m |-> r.m]) ELSE FAIL
    ELSE IF t.k = "struct" THEN
         \* fields not mentioned keep their value; a member is decoded into the field it names:
         \* exactly, or - where requested - ignoring case, '_' and '-' (several such: ambiguous);
         \* two members naming the same field are duplicates; unknown members are skipped or refused
         IF j.t # "obj" THEN FAIL
         ELSE LET idx == 1..Len(t.f)
                  r == FoldLeft(LAMBDA acc, mem :
                         IF ~acc.ok THEN acc
                         ELSE LET exact == {i \in idx : t.f[i].name = mem[1]}
                                  folded == {i \in idx : /\ FF!Fold(t.f[i].name) = FF!Fold(mem[1])
                                                         /\ (t.f[i].casing = 1 \/ (o.ci /\ t.f[i].casing # 2))} IN
                              IF exact = {} /\ Cardinality(folded) > 1 THEN [acc EXCEPT !.ok = FALSE]
                              ELSE IF exact = {} /\ folded = {} THEN
                                   \* with an embedded fallback unknown members are kept there (decoded into the
                                   \* entry of that name, if any) and RejectUnknownMembers does not apply
                                   (IF (o.ru /\ t.fb = <<>>) \/ (~o.ad /\ mem[1] \in acc.unk) THEN [acc EXCEPT !.ok = FALSE]
                                    ELSE IF t.fb = <<>> THEN [acc EXCEPT !.unk = @ \cup {mem[1]}]
                                    ELSE LET k == [s |-> mem[1]]
                                             vr == Unmarshal(t.fb[1], IF MapHas(acc.fb.m, k) THEN MapGet(acc.fb.m, k) ELSE Zero(t.fb[1]), mem[2], o, NoSt) IN
                                         IF ~vr.ok THEN [acc EXCEPT !.ok = FALSE]
                                         ELSE [acc EXCEPT !.unk = @ \cup {mem[1]}, !.fb = [nil |-> FALSE, m |-> MapPut(StrT, acc.fb.m, k, vr.v)]])
                              ELSE LET i == CHOOSE x \in (IF exact # {} THEN exact ELSE folded) : TRUE IN
                                   IF ~o.ad /\ i \in acc.seen THEN [acc EXCEPT !.ok = FALSE]
                                   ELSE LET vr == Unmarshal(t.f[i].t, acc.f[i], mem[2], o, [tag |-> t.f[i].str, key |-> FALSE, fmt |-> t.f[i].fmt]) IN
                                        IF ~vr.ok THEN [acc EXCEPT !.ok = FALSE]
                                        ELSE [acc EXCEPT !.f[i] = vr.v, !.seen = @ \cup {i}],
                       [ok |-> TRUE, f |-> old.f, fb |-> old.fb, seen |-> {}, unk |-> {}], j.m) IN
              IF r.ok THEN OK([f |-> r.f, fb |-> r.fb]) ELSE FAIL
    ELSE \* any: an empty interface gets the natural Go type of the JSON kind - also under
         \* StringifyNumbers, which is about numeric Go types; a held value is decoded into
         LET dt == IF ~old.nil THEN old.dt
                   ELSE CASE j.t = "bool" -> BoolT [] j.t = "str" -> StrT [] j.t = "num" -> FloatT
                          [] j.t = "arr" -> SliceA [] j.t = "obj" -> MapSA
             oo == IF old.nil /\ j.t = "num" THEN [o EXCEPT !.sn = FALSE] ELSE o
             r == Unmarshal(dt, IF old.nil THEN Zero(dt) ELSE old.e, j, oo, NoSt) IN
         IF r.ok THEN OK([nil |-> FALSE, dt |-> dt, e |-> r.v]) ELSE FAIL

\* Unmarshal of a whole text: names must be unique per object unless duplicates are allowed
\* (whoever looks at them: the tokenizer, the struct or the map decoder)
UnmarshalJ(t, old, j, o) == IF ~o.ad /\ HasDup(j) THEN FAIL ELSE Unmarshal(t, old, j, o, NoSt)

\* ------------------------------------------------------------------ merging JSON values with spelling kept
RECURSIVE MergeJ(_, _)
MergeJ(a, b) ==
    IF a.t = "obj" /\ b.t = "obj"
    THEN LET names(v) == {v.m[i][1] : i \in 1..Len(v.m)}
             valOf(v, nm) == v.m[CHOOSE i \in 1..Len(v.m) : v.m[i][1] = nm][2]
             kept == [i \in 1..Len(a.m) |->
                        IF a.m[i][1] \in names(b) THEN <<a.m[i][1], MergeJ(a.m[i][2], valOf(b, a.m[i][1]))>> ELSE a.m[i]]
             added == SelectSeq(b.m, LAMBDA x : x[1] \notin names(a)) IN
         [t |-> "obj", m |-> kept \o added]
    ELSE b

\* ------------------------------------------------------------------ equality up to what JSON cannot tell apart
\* a value that is written as null: a nil pointer or interface, a pointer to such a value, and
\* under the FormatNil*AsNull options a nil slice or map
RECURSIVE Nullish(_, _, _)
Nullish(t, v, o) ==
    CASE t.k = "ptr" -> v.nil \/ Nullish(t.e, v.e, o)
      [] t.k = "any" -> v.nil \/ Nullish(v.dt, v.e, o)
      [] t.k \in {"slice", "bytes"} -> v.nil /\ o.nsn
      [] t.k = "map" -> v.nil /\ o.nmn
      [] OTHER -> FALSE

\* nil and empty slices and maps are identified, and so are all values written as null
RECURSIVE Norm(_, _, _)
Norm(t, v, o) ==
    CASE t.k = "slice" -> [nil |-> FALSE, e |-> [i \in 1..Len(v.e) |-> Norm(t.e, v.e[i], o)]]
      [] t.k = "bytes" -> [nil |-> FALSE, b |-> v.b]
      [] t.k = "array" -> [e |-> [i \in 1..Len(v.e) |-> Norm(t.e, v.e[i], o)]]
      [] t.k = "map" -> [nil |-> FALSE, m |-> [i \in 1..Len(v.m) |-> <<v.m[i][1], Norm(t.e, v.m[i][2], o)>>]]
      [] t.k = "ptr" -> IF Nullish(t, v, o) THEN [nil |-> TRUE] ELSE [nil |-> FALSE, e |-> Norm(t.e, v.e, o)]
      [] t.k = "any" -> IF Nullish(t, v, o) THEN [nil |-> TRUE] ELSE [nil |-> FALSE, dt |-> v.dt, e |-> Norm(v.dt, v.e, o)]
      [] t.k = "struct" -> [f |-> [i \in 1..Len(t.f) |-> Norm(t.f[i].t, v.f[i], o)],
                           fb |-> IF t.fb = <<>> THEN v.fb
                                  ELSE [nil |-> v.fb.m = <<>>, m |-> [i \in 1..Len(v.fb.m) |-> <<v.fb.m[i][1], Norm(t.fb[1], v.fb.m[i][2], o)>>]]]
      [] OTHER -> v
=============================================================================
