---------------------------- MODULE Trace_Arshal ----------------------------
(* Trace validation of Marshal / Unmarshal executions (C02, C03, C04, C07,    *)
(* C08, C14).  Record kinds:                                                  *)
(*  valid      a Go value (random type, adversarial user marshal code) was    *)
(*             marshaled by Marshal, MarshalWrite (bytes.Buffer and plain     *)
(*             writer) and MarshalEncode: every successful route must have    *)
(*             produced exactly one JSON value valid under the effective      *)
(*             options (C02); all routes succeed or fail together and give    *)
(*             the same value, the Encoder route plus a newline (C07)         *)
(*  roundtrip  out1 = Marshal(v), v' = Unmarshal(out1), out2 = Marshal(v'),   *)
(*             out3 = Marshal(Unmarshal(out2)): Unmarshal accepts out1, out2  *)
(*             equals out1 (up to map order unless Deterministic; not         *)
(*             required with omit options), out3 equals out2, and where Go    *)
(*             equality is meaningful v' equals v (projection fact) (C04)     *)
(*  untyped    a text unmarshaled into an untyped target by some route: it    *)
(*             succeeds iff the text is valid, fits the target and no number  *)
(*             overflows; the resulting tree is the meaning of the text (C03) *)
(*  merge      see C14 in Check                                               *)
(*  ambig      see C08 in Check                                               *)
EXTENDS JsonValue, Decoder, TLC, Json, IOUtils

CONSTANT MaxD

T == ndJsonDeserialize(IOEnv.VERIF_TRACE)

VARIABLES l, rej

Out(rec, route) == LET i == CHOOSE j \in 1..Len(rec.outs) : rec.outs[j][1] = route IN rec.outs[i]
Has(rec, route) == \E j \in 1..Len(rec.outs) : rec.outs[j][1] = route

O(rec) == Opt(rec.opts.ai, rec.opts.ad, MaxD)

Tree(o, b) == Unordered(Meaning(o, b))

StripNL(b) == IF b # <<>> /\ b[Len(b)] = 10 THEN SubSeq(b, 1, Len(b) - 1) ELSE b

\* property a disagreement between routes is reported under: the pad sweep is run for C07
\* (buffering independence) and for C15 (omitempty takes effect exactly when documented)
RouteProp(rec) == IF rec.kind = "sweep" THEN rec.prop ELSE "C07"

CheckValid(rec) ==
    LET o == O(rec)
        m == Out(rec, "marshal")
        routes == {"marshal", "write", "write-plain", "encode"}
        bytesOf(r) == IF r = "encode" THEN StripNL(Out(rec, r)[3]) ELSE Out(rec, r)[3] IN
    IF m[2] /\ ~ValidOne(o, m[3]) THEN <<"C02", "invalid-json-with-nil-error">>
    \* Marshal's own bytes are fine but another route delivered something else that is not JSON:
    \* a violation of validity and of route agreement at once
    ELSE IF \E r \in routes : Out(rec, r)[2] /\ ~ValidOne(o, bytesOf(r)) THEN <<"C02+" \o RouteProp(rec), "invalid-json-with-nil-error">>
    ELSE IF \E r \in routes : Out(rec, r)[2] # m[2] THEN <<RouteProp(rec), "routes-disagree-on-success">>
    ELSE IF m[2] /\ \E r \in routes : Tree(o, bytesOf(r)) # Tree(o, m[3]) THEN <<RouteProp(rec), "routes-disagree-on-bytes">>
    ELSE IF m[2] /\ (Out(rec, "encode")[3] = <<>> \/ Out(rec, "encode")[3][Len(Out(rec, "encode")[3])] # 10) THEN <<"C07", "encoder-newline">>
    ELSE IF m[2] /\ rec.opts.name = "deterministic" /\ \E r \in routes : bytesOf(r) # m[3] THEN <<"C07", "deterministic-bytes-differ">>
    ELSE <<>>

CheckRoundTrip(rec) ==
    LET o == O(rec) IN
    IF ~Out(rec, "out1")[2] THEN <<>>                 \* the value has no JSON representation under these options
    ELSE IF ~ValidOne(o, Out(rec, "out1")[3]) THEN <<"C02", "invalid-json-with-nil-error">>
    ELSE IF ~Out(rec, "dec1")[2] THEN <<"C04", "unmarshal-rejects-marshal-output">>
    ELSE IF ~Out(rec, "out2")[2] \/ ~Out(rec, "out3")[2] THEN <<"C04", "second-round-fails">>
    ELSE IF Tree(o, Out(rec, "out3")[3]) # Tree(o, Out(rec, "out2")[3]) THEN <<"C04", "no-fixed-point">>
    ELSE IF ~rec.omit /\ Tree(o, Out(rec, "out2")[3]) # Tree(o, Out(rec, "out1")[3]) THEN <<"C04", "second-output-differs">>
    ELSE IF ~rec.omit /\ rec.opts.name = "deterministic" /\ Out(rec, "out2")[3] # Out(rec, "out1")[3] THEN <<"C04", "deterministic-bytes-differ">>
    ELSE IF rec.flags[2] /\ ~rec.flags[1] THEN <<"C04", "decoded-value-differs">>
    \* the same text read through a streaming decoder gives the same value
    ELSE IF Has(rec, "dec1r") /\ (~Out(rec, "dec1r")[2] \/ ~rec.flags[3]) THEN <<"C04", "stream-route-differs">>
    ELSE <<>>

\* ------------------------------------------------------------------ untyped targets
ProjMap(ps) == [o \in {ps[i][1] : i \in 1..Len(ps)} |->
                   LET i == CHOOSE j \in 1..Len(ps) : ps[j][1] = o IN [neg |-> ps[i][2], d |-> ps[i][3], n |-> ps[i][4]]]

\* the tree an untyped target must hold: numbers as the float64 nearest to the literal (its
\* shortest digits come from the projection), objects as sets of members
RECURSIVE UValueAt(_, _, _, _), UElemsAt(_, _, _, _, _), UMembersAt(_, _, _, _, _)
UValueAt(toks, src, pm, i) ==
    LET tk == toks[i] IN
    IF tk.k = "num" THEN
         LET p == pm[tk.s] IN [v |-> [t |-> "num", neg |-> p.neg /\ p.d # <<>>, d |-> p.d, n |-> p.n], nx |-> i + 1]
    ELSE IF tk.k = "[" THEN UElemsAt(toks, src, pm, i + 1, <<>>)
    ELSE IF tk.k = "{" THEN UMembersAt(toks, src, pm, i + 1, {})
    ELSE ValueAt(toks, src, i)
UElemsAt(toks, src, pm, i, acc) ==
    IF toks[i].k = "]" THEN [v |-> [t |-> "arr", e |-> acc], nx |-> i + 1]
    ELSE LET r == UValueAt(toks, src, pm, i) IN UElemsAt(toks, src, pm, r.nx, Append(acc, r.v))
UMembersAt(toks, src, pm, i, acc) ==
    IF toks[i].k = "}" THEN [v |-> [t |-> "obj", m |-> acc], nx |-> i + 1]
    ELSE LET r == UValueAt(toks, src, pm, i + 1) IN UMembersAt(toks, src, pm, r.nx, acc \cup {<<toks[i].str, r.v>>})

\* the logged tree with objects as sets of members
RECURSIVE Logged(_)
Logged(v) == IF v.t = "arr" THEN [t |-> "arr", e |-> [i \in 1..Len(v.e) |-> Logged(v.e[i])]]
             ELSE IF v.t = "obj" THEN [t |-> "obj", m |-> {<<v.m[i][1], Logged(v.m[i][2])>> : i \in 1..Len(v.m)}]
             ELSE v

Overflows(ps) == \E i \in 1..Len(ps) : ps[i][5]

CheckUntyped(rec) ==
    LET src == rec.texts[1]
        route == rec.outs[1][1]
        ok == rec.outs[1][2]
        strict == Opt(FALSE, FALSE, MaxD)
        valid == ValidOne(strict, src)
        s == Finish(Run(strict, src))
        kind == IF valid THEN s.toks[1].k ELSE "none"
        fits == CASE route = "map" -> kind \in {"{", "null"}
                  [] route = "slice" -> kind \in {"[", "null"}
                  [] OTHER -> TRUE
        want == valid /\ fits /\ ~Overflows(rec.proj) IN
    IF ok # want THEN <<"C03", "accept", want>>
    ELSE IF ~ok THEN <<>>
    ELSE LET exp == UValueAt(s.toks, src, ProjMap(rec.proj), 1).v IN
         IF Logged(rec.tree) # exp THEN <<"C03", "tree-differs">> ELSE <<>>

\* ------------------------------------------------------------------ merge (C14)
\* texts = j1 .. jk followed by the driver's merge of them; flags = [chain succeeded,
\* single unmarshal of the merged text succeeded, the two Go values are equal]
CheckMerge(rec) ==
    IF rec.texts = <<>> THEN <<>>      \* the generator gave up on this seed
    ELSE
    LET o == Opt(FALSE, FALSE, MaxD)
        k == Len(rec.texts) - 1
        trees == [i \in 1..k |-> Meaning(o, rec.texts[i])]
        want == FoldLeft(MergeTree, trees[1], SubSeq(trees, 2, k))
        got == Meaning(o, rec.texts[k + 1]) IN
    IF Unordered(got) # Unordered(want) THEN <<"SPEC", "driver-merge-differs-from-MergeTree">>
    ELSE IF rec.flags[1] /\ ~rec.flags[2] THEN <<"C14", "merged-text-rejected-but-chain-accepted">>
    ELSE IF rec.flags[1] /\ ~rec.flags[3] THEN <<"C14", "chain-differs-from-merged">>
    ELSE <<>>

\* ------------------------------------------------------------------ ambiguous input (C08)
\* outs = results [route, ok, rendering] under default, AllowDuplicateNames, AllowInvalidUTF8, both
CheckAmbig(rec) ==
    LET src == rec.texts[1]
        v(ai, ad) == ValidOne(Opt(ai, ad, MaxD), src)
        res(r) == Out(rec, r) IN
    \* a duplicate name or ill-formed UTF-8 anywhere is an error for every target under the defaults
    IF ~v(FALSE, FALSE) /\ res("default")[2] THEN <<"C08", "ambiguous-input-accepted-by-default">>
    ELSE IF ~v(FALSE, TRUE) /\ res("ad")[2] THEN <<"C08", "invalid-utf8-accepted-with-AllowDuplicateNames">>
    ELSE IF ~v(TRUE, FALSE) /\ res("ai")[2] THEN <<"C08", "duplicate-accepted-with-AllowInvalidUTF8">>
    \* the options differ in nothing else: on input that is valid without them they change nothing
    ELSE IF v(FALSE, FALSE) /\ (res("ad") # [res("default") EXCEPT ![1] = "ad"] \/ res("ai") # [res("default") EXCEPT ![1] = "ai"]
                                \/ res("ad+ai") # [res("default") EXCEPT ![1] = "ad+ai"])
         THEN <<"C08", "allow-options-change-result-on-unambiguous-input">>
    \* input whose only problem is what the option allows: accepted iff the other option's twin accepts it
    ELSE IF v(TRUE, FALSE) /\ ~v(FALSE, FALSE) /\ res("ai")[2] # res("ad+ai")[2] THEN <<"C08", "ai-vs-both-differ">>
    ELSE IF v(FALSE, TRUE) /\ ~v(FALSE, FALSE) /\ res("ad")[2] # res("ad+ai")[2] THEN <<"C08", "ad-vs-both-differ">>
    ELSE <<>>

\* ------------------------------------------------------------------ SemanticError position (C16)
\* tree = [off, kind, eoff, eptr]: the text is valid JSON that fits the target type except for the
\* value starting at off; Unmarshal must report a SemanticError whose ByteOffset is the start of
\* that value and whose JSONPointer designates it.  (The same record serves positions on the way
\* out: texts[1] is what Marshal wrote, off the offset of a number written by a caller's function,
\* eptr the Encoder's StackPointer right after it was written.)
CheckSemErr(rec) ==
    IF rec.texts = <<>> THEN <<>>
    ELSE
    LET src == rec.texts[1]
        tab == Table(Opt(FALSE, FALSE, MaxD), src)
        hits == {i \in 1..Len(tab.toks) : tab.toks[i].s = rec.tree.off}
        i == CHOOSE j \in hits : TRUE
        stk == FoldLeft(ApplyTok, DInit.stk, SubSeq(tab.toks, 1, i)) IN
    IF tab.dead \/ ~tab.clean \/ hits = {} THEN <<"SPEC", "driver-built-an-invalid-text">>
    ELSE IF rec.tree.kind # "semantic" THEN <<"C16", "no-semantic-error", rec.tree.kind>>
    ELSE IF rec.tree.eoff # rec.tree.off THEN <<"C16", "semantic-error-offset", rec.tree.off>>
    ELSE IF rec.tree.eptr # PointerOf(stk) THEN <<"C16", "semantic-error-pointer", PointerOf(stk)>>
    \* UnmarshalRead of the same text, however the reader cuts it, ends with the same error
    ELSE IF \E k \in 1..Len(rec.tree.streams) : rec.tree.streams[k] # <<rec.tree.kind, rec.tree.eoff, rec.tree.eptr>>
         THEN <<"C05+C16", "stream-error-differs", <<rec.tree.kind, rec.tree.eoff, rec.tree.eptr>>>>
    ELSE <<>>

Check(rec) ==
    IF rec.panic # "" THEN <<"C20", "panic">>
    ELSE CASE rec.kind \in {"valid", "sweep"} -> CheckValid(rec)
           [] rec.kind = "roundtrip" -> CheckRoundTrip(rec)
           [] rec.kind = "untyped" -> CheckUntyped(rec)
           [] rec.kind = "semerr" -> CheckSemErr(rec)
           [] rec.kind = "merge" -> CheckMerge(rec)
           [] rec.kind = "ambig" -> CheckAmbig(rec)
           [] OTHER -> <<"SPEC", "unknown-kind">>

Init == l = 1 /\ rej = <<>>

Next == /\ l <= Len(T)
        /\ l' = l + 1
        /\ LET c == Check(T[l]) IN
           rej' = IF c = <<>> THEN rej ELSE Append(rej, <<T[l].id, c[1], c>>)

Spec == Init /\ [][Next]_<<l, rej>>

Done == l = Len(T) + 1 => PrintT(ToJson(<<"REJ", rej>>))
Consumed == TLCGet("stats").diameter = Len(T) + 1
=============================================================================
