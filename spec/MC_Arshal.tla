------------------------------ MODULE MC_Arshal ------------------------------
(* The Arshal model over a bounded universe: a list of Go types (constant     *)
(* Types, generated), for each type all Go values and all JSON inputs of a    *)
(* small recursive grammar with richness D, and lists of option records.      *)
(* Model theorems:                                                            *)
(*   ParseRender  the compact rendering of what Marshal produces reads back   *)
(*                as the same JSON value through the byte-level automaton     *)
(*   RoundTrip    C04 on the model: Unmarshal accepts Marshal(v), marshaling  *)
(*                the decoded value gives the same JSON value, and where Go   *)
(*                equality is meaningful the decoded value is v (nil and      *)
(*                empty containers identified)                                *)
(*   MergeLaw     C14 on the model: j2 into (j1 into zero), whenever both     *)
(*                succeed, equals merge(j1, j2) into zero                     *)
(*   FrameLaw     struct fields and map entries not mentioned are kept        *)
(* Every (type, value, options) is emitted with the predicted Marshal output  *)
(* and every (type, old value, input, options) with the predicted Unmarshal   *)
(* result, for replay on the real library.                                    *)
EXTENDS Arshal, TLC, Json

CONSTANTS Types, D, MOpts, UOpts, Modes, EmitCases

VARIABLES ph, mode, ti, a, b, oi

\* ------------------------------------------------------------------ universes
RECURSIVE Product(_)
Product(sets) == IF sets = <<>> THEN {<<>>} ELSE {<<x>> \o r : x \in sets[1], r \in Product(Tail(sets))}

Dec(d) == IF d > 0 THEN d - 1 ELSE 0

MaxMag(t) == IF t.signed
             THEN CASE t.bits = 8 -> <<1, 2, 7>> [] t.bits = 16 -> <<3, 2, 7, 6, 7>>
                    [] t.bits = 32 -> <<2, 1, 4, 7, 4, 8, 3, 6, 4, 7>> [] t.bits = 64 -> MaxI64
             ELSE CASE t.bits = 8 -> <<2, 5, 5>> [] t.bits = 16 -> <<6, 5, 5, 3, 5>>
                    [] t.bits = 32 -> <<4, 2, 9, 4, 9, 6, 7, 2, 9, 5>> [] t.bits = 64 -> MaxU64
I(neg, mag) == [neg |-> neg, mag |-> mag]
Fl(neg, d, n) == [neg |-> neg, d |-> d, n |-> n]

Key1(kt) == IF kt.k = "str" THEN [s |-> <<97>>] ELSE I(FALSE, <<1>>)
Key2(kt) == IF kt.k = "str" THEN [s |-> <<66, 95, 98>>] ELSE (IF kt.signed THEN I(TRUE, <<2>>) ELSE I(FALSE, <<2, 0>>))

AnyOf(dt, e) == [nil |-> FALSE, dt |-> dt, e |-> e]
AnyNil == [nil |-> TRUE]
AnyVals(d) ==
    {AnyNil, AnyOf(BoolT, [b |-> TRUE]), AnyOf(StrT, [s |-> <<97>>])}
    \cup (IF d = 0 THEN {} ELSE
          {AnyOf(FloatT, Fl(FALSE, <<1, 5>>, 1)),
           AnyOf(SliceA, [nil |-> FALSE, e |-> <<>>]),
           AnyOf(SliceA, [nil |-> FALSE, e |-> <<AnyNil, AnyOf(FloatT, Fl(TRUE, <<2>>, 1))>>]),
           AnyOf(MapSA, [nil |-> FALSE, m |-> <<>>]),
           AnyOf(MapSA, [nil |-> FALSE, m |-> << <<[s |-> <<97>>], AnyOf(StrT, [s |-> <<>>])>>,
                                                  <<[s |-> <<98>>], AnyOf(MapSA, [nil |-> FALSE, m |-> << <<[s |-> <<99>>], AnyNil>> >>])>> >>])})

\* the name with the case of its letters flipped, and with '_' inserted
FlipCp(c) == IF \E s \in FF!FoldSets : c \in s
             THEN LET s == CHOOSE x \in FF!FoldSets : c \in x IN
                  \* the largest other member of the fold set (for k: the Kelvin sign)
                  CHOOSE m \in s \ {c} : \A y \in s \ {c} : y <= m
             ELSE IF c \in 97..122 THEN c - 32 ELSE IF c \in 65..90 THEN c + 32 ELSE c
Flip(name) == [i \in 1..Len(name) |-> FlipCp(name[i])]
Under(name) == IF name = <<>> THEN <<95>> ELSE <<name[1], 95>> \o Tail(name)

RECURSIVE Values(_, _)
RECURSIVE ExtraV(_, _)
Values(t, d) ==
    CASE t.k = "bool" -> {[b |-> FALSE], [b |-> TRUE]}
      [] t.k = "str" -> {[s |-> <<>>], [s |-> <<97>>]} \cup (IF d = 0 THEN {} ELSE {[s |-> <<60, 233, 34, 128512>>]})
      [] t.k = "int" -> {I(FALSE, <<0>>), I(FALSE, <<1>>)}
                        \cup (IF d = 0 THEN {} ELSE {I(FALSE, MaxMag(t))} \cup
                                (IF t.signed THEN {I(TRUE, <<1>>), I(TRUE, Pow2(t.bits - 1))} ELSE {}))
      [] t.k = "float" -> {Fl(FALSE, <<>>, 0), Fl(FALSE, <<1, 5>>, 1)}
                          \cup (IF d = 0 THEN {} ELSE {Fl(TRUE, <<>>, 0), Fl(FALSE, <<1>>, 22), Fl(TRUE, <<2, 5>>, -6), Fl(FALSE, <<1>>, 3)})
      [] t.k = "dur" -> {I(FALSE, <<0>>), I(FALSE, <<1, 5, 0, 0, 0, 0, 0, 0, 0, 0>>), I(TRUE, <<1>>)}
                        \cup (IF d = 0 THEN {} ELSE {I(FALSE, MaxI64), I(TRUE, Pow2(63)), I(TRUE, <<5, 0, 0, 0, 0, 0, 0, 0, 0>>), I(FALSE, <<1, 0, 0, 0>>)})
      [] t.k = "time" -> {ZeroTime, I(FALSE, <<0>>), I(FALSE, <<1, 5, 0, 0, 0, 0, 0, 0, 0, 0>>), I(TRUE, <<5, 0, 0, 0, 0, 0, 0, 0, 0>>)}
                         \cup (IF d = 0 THEN {} ELSE
                               {I(FALSE, Pow2(63)), I(FALSE, MaxI64), I(FALSE, Pow2(64)), I(FALSE, MaxU64), I(TRUE, Pow2(64)),
                                \* 10^18 ns + 1: the last second of the short-cut in the milli/micro/nano formats
                                I(FALSE, <<9, 9, 9, 9, 9, 9, 9, 9, 9, 9, 9, 9, 9, 9, 9, 9, 9, 9>>), I(FALSE, <<1>> \o [i \in 1..17 |-> 0] \o <<1>>),
                                \* 1.8e25 ns: 2^64 milliseconds
                                I(FALSE, Pow2(64) \o <<0, 0, 0, 0, 0, 1>>)})
      [] t.k = "bytes" -> {[nil |-> TRUE, b |-> <<>>], [nil |-> FALSE, b |-> <<0>>], [nil |-> FALSE, b |-> <<255, 1>>]}
                          \cup (IF d = 0 THEN {} ELSE {[nil |-> FALSE, b |-> <<>>], [nil |-> FALSE, b |-> <<1, 2, 3>>], [nil |-> FALSE, b |-> <<104, 105, 33, 0>>]})
      [] t.k = "barr" -> {[b |-> [i \in 1..t.n |-> 0]], [b |-> [i \in 1..t.n |-> 250 + i]]}
      [] t.k = "slice" -> {[nil |-> TRUE, e |-> <<>>]}
                          \cup {[nil |-> FALSE, e |-> <<x>>] : x \in Values(t.e, Dec(d))}
                          \cup (IF d = 0 THEN {} ELSE {[nil |-> FALSE, e |-> <<>>]} \cup
                                  {[nil |-> FALSE, e |-> <<x, y>>] : x, y \in Values(t.e, 0)})
      [] t.k = "array" -> {[e |-> s] : s \in Product([i \in 1..t.n |-> Values(t.e, IF t.n > 1 THEN 0 ELSE Dec(d))])}
      [] t.k = "map" -> {[nil |-> TRUE, m |-> <<>>]}
                        \cup {[nil |-> FALSE, m |-> << <<Key1(t.key), x>> >>] : x \in Values(t.e, Dec(d))}
                        \cup (IF d = 0 THEN {} ELSE {[nil |-> FALSE, m |-> <<>>]} \cup
                                {[nil |-> FALSE, m |-> MapPut(t.key, << <<Key1(t.key), x>> >>, Key2(t.key), y)] : x, y \in Values(t.e, 0)})
      [] t.k = "ptr" -> {[nil |-> TRUE]} \cup {[nil |-> FALSE, e |-> x] : x \in Values(t.e, d)}
      [] t.k = "any" -> AnyVals(d)
      [] t.k = "struct" ->
            LET fbs == IF t.fb = <<>> THEN {[nil |-> TRUE, m |-> <<>>]}
                       ELSE {[nil |-> TRUE, m |-> <<>>], [nil |-> FALSE, m |-> <<>>]}
                            \cup {[nil |-> FALSE, m |-> << <<[s |-> <<122>>], x>> >>] : x \in Values(t.fb[1], 0)}
                            \* a fallback entry named like the first field, and like it up to case
                            \cup (IF t.f = <<>> THEN {} ELSE
                                  {[nil |-> FALSE, m |-> << <<[s |-> nm], x>> >>] : nm \in {t.f[1].name, Flip(t.f[1].name)}, x \in Values(t.fb[1], 0)}) IN
            {[f |-> s, fb |-> fb] : s \in Product([i \in 1..Len(t.f) |-> Values(t.f[i].t, Dec(d)) \cup ExtraV(t.f[i].t, t.f[i].fmt)]), fb \in fbs}

\* ---- JSON inputs
N(lit) == [t |-> "num", lit |-> lit]
S(s) == [t |-> "str", s |-> s]
B(x) == [t |-> "bool", b |-> x]
Arr(e) == [t |-> "arr", e |-> e]
Obj(m) == [t |-> "obj", m |-> m]

\* ---- what a `format` option adds to the universe of a field
\* values: the non-finite floats (an error without the format nonfinite)
ExtraV(t, f) ==
    CASE t.k = "float" /\ f # "" -> {NaNV, InfV(FALSE), InfV(TRUE)}
      \* 1h2m3.5s, 59m59.999999999s, -1h
      [] t.k = "dur" /\ f = "iso8601" -> {I(FALSE, <<3, 7, 2, 3, 5, 0, 0, 0, 0, 0, 0, 0, 0>>), I(FALSE, <<3, 5, 9, 9, 9, 9, 9, 9, 9, 9, 9, 9, 9>>),
                                         I(TRUE, <<3, 6, 0, 0, 0, 0, 0, 0, 0, 0, 0, 0, 0>>)}
      [] t.k = "ptr" -> {[nil |-> FALSE, e |-> x] : x \in ExtraV(t.e, f)}
      [] OTHER -> {}

\* inputs: texts in the encoding the format names - well formed, with the characters of the
\* other alphabets, with too little, too much or misplaced padding, with line breaks - and the
\* names of the non-finite floats
BinInputs(f) ==
    CASE f = "base32" -> {S(<<65, 65, 61, 61, 61, 61, 61, 61>>), S(<<55, 52, 65, 81, 61, 61, 61, 61>>), S(<<65, 69, 66, 65, 71, 61, 61, 61>>), S(<<78, 66, 85, 83, 67, 65, 65, 61>>), S(<<65, 69, 66, 65, 71, 66, 65, 70>>), S(<<65, 65, 61, 61, 61, 61, 61, 61, 61>>), S(<<65, 65, 61, 61, 61, 61, 61>>), S(<<97, 97, 61, 61, 61, 61, 61, 61>>), S(<<65, 65, 61, 61, 61, 61, 61, 61, 65, 65, 61, 61, 61, 61, 61, 61>>), S(<<65, 69>>), S(<<65, 61, 61, 61, 61, 61, 61, 61>>), S(<<65, 69, 66, 65, 71, 61, 61, 61, 10>>), S(<<65, 65, 65, 61, 61, 61, 61, 61>>), S(<<65, 66, 61, 61, 61, 61, 61, 61>>), S(<<65, 69, 66, 65, 71, 66, 65, 70, 61, 61, 61, 61, 61, 61, 61, 61>>), S(<<55, 52, 65, 81, 61, 61, 61>>), S(<<65, 65, 61, 61, 61, 61, 61, 61, 13, 10>>)}
      [] f = "base32hex" -> {S(<<48, 48, 61, 61, 61, 61, 61, 61>>), S(<<86, 83, 48, 71, 61, 61, 61, 61>>), S(<<48, 52, 49, 48, 54, 61, 61, 61>>), S(<<68, 49, 75, 73, 50, 48, 48, 61>>), S(<<48, 48, 61, 61, 61, 61, 61, 61, 61>>), S(<<118, 115, 48, 103, 61, 61, 61, 61>>), S(<<87, 48, 61, 61, 61, 61, 61, 61>>), S(<<48, 48, 61, 61, 61, 61, 61, 61, 48, 48, 61, 61, 61, 61, 61, 61>>)}
      [] f \in {"base64", "base64url"} -> {S(<<95, 119, 69, 61>>), S(<<47, 119, 69, 61>>), S(<<45, 95, 45, 95>>), S(<<43, 47, 43, 47>>), S(<<95, 119, 69>>), S(<<95, 119, 69, 61, 61>>), S(<<47, 119, 69, 61, 61>>)}
      [] f \in {"base16", "hex"} -> {S(<<48, 48>>), S(<<102, 102, 48, 49>>), S(<<70, 70, 48, 49>>), S(<<48, 49, 48, 50, 48, 51>>), S(<<54, 56, 54, 57, 50, 49, 48, 65>>), S(<<48>>), S(<<48, 103>>), S(<<48, 120, 48, 48>>), S(<<32, 48, 48>>), S(<<48, 48, 10>>), S(<<61>>)}
      [] f = "array" -> {Arr(<<N(<<48>>)>>), Arr(<<N(<<50, 53, 53>>), N(<<49>>)>>), Arr(<<N(<<50, 53, 54>>)>>), Arr(<<N(<<45, 49>>)>>), Arr(<<S(<<49>>)>>),
                         Arr(<<N(<<49>>), N(<<50>>), N(<<51>>)>>), Arr(<<N(<<49, 46, 48>>)>>), Arr(<<JNull>>)}
      [] OTHER -> {}
\* ISO 8601 durations: every designator, both cases, both separators, leading zeros, a sign; wrong
\* order, repeated and missing parts, date parts, fractions elsewhere than last; the int64 bounds
IsoInputs == {S(<<80, 84, 48, 83>>), S(<<80, 84, 49, 72, 50, 77, 51, 46, 53, 83>>), S(<<45, 80, 84, 49, 46, 48, 48, 48, 48, 48, 48, 48, 48, 49, 83>>), S(<<112, 116, 49, 104>>), S(<<80, 84, 49, 44, 53, 83>>), S(<<43, 80, 84, 48, 49, 77>>), S(<<80, 84, 49, 77, 49, 72>>), S(<<80, 49, 68, 84, 49, 72>>), S(<<80, 84>>), S(<<80>>), S(<<80, 84, 49, 72, 49, 72>>), S(<<80, 84, 49, 46, 53, 72>>), S(<<80, 84, 48, 46, 53, 77>>), S(<<80, 84, 49, 46, 53, 77, 50, 83>>), S(<<80, 84, 50, 53, 54, 50, 48, 52, 55, 72, 52, 55, 77, 49, 54, 46, 56, 53, 52, 55, 55, 53, 56, 48, 55, 83>>), S(<<80, 84, 50, 53, 54, 50, 48, 52, 55, 72, 52, 55, 77, 49, 54, 46, 56, 53, 52, 55, 55, 53, 56, 48, 56, 83>>), S(<<45, 80, 84, 50, 53, 54, 50, 48, 52, 55, 72, 52, 55, 77, 49, 54, 46, 56, 53, 52, 55, 55, 53, 56, 48, 56, 83>>), S(<<45, 80, 84, 50, 53, 54, 50, 48, 52, 55, 72, 52, 55, 77, 49, 54, 46, 56, 53, 52, 55, 55, 53, 56, 48, 57, 83>>), S(<<80, 84, 57, 57, 57, 57, 57, 57, 57, 57, 57, 57, 57, 57, 57, 57, 57, 57, 57, 57, 57, 57, 72>>), S(<<80, 84, 49, 83, 32>>), S(<<80, 84, 49, 46, 83>>), S(<<80, 84, 46, 53, 83>>), S(<<80, 84, 49, 46, 49, 50, 51, 52, 53, 54, 55, 56, 57, 57, 83>>), S(<<49, 72>>), S(<<>>), S(<<80, 84, 49, 115>>), S(<<80, 84, 53, 120>>), S(<<45, 80, 84, 48, 83>>), S(<<80, 84, 49, 72, 48, 77, 48, 46, 48, 83>>), S(<<80, 84, 49, 53, 51, 55, 50, 50, 56, 54, 55, 77>>), S(<<80, 84, 57, 50, 50, 51, 51, 55, 50, 48, 51, 54, 46, 56, 53, 52, 55, 55, 53, 56, 48, 55, 83>>), S(<<80, 49, 89>>), S(<<80, 84, 49, 72, 44, 53, 77>>), S(<<80, 84, 49, 46, 53, 46, 53, 83>>), S(<<84, 49, 72>>), S(<<80, 84, 72>>), N(<<49>>), B(TRUE)}
RECURSIVE ExtraI(_, _)
ExtraI(t, f) ==
    CASE t.k \in {"bytes", "barr"} -> BinInputs(f)
      [] t.k = "dur" /\ f = "iso8601" -> IsoInputs
      [] t.k = "float" /\ f # "" -> {S(NaNName), S(InfName), S(<<45>> \o InfName), S(<<43>> \o InfName), S(<<110, 97, 110>>), S(<<73, 110, 102>>)}
      [] t.k = "ptr" -> ExtraI(t.e, f)
      [] OTHER -> {}

IntInputs(t, d) ==
    {N(<<48>>), N(<<49>>), N(<<45, 49>>), N(<<49, 46, 48>>), S(<<49>>)}
    \cup (IF d = 0 THEN {} ELSE
          {N(<<45, 48>>), N(<<49, 101, 50>>), B(TRUE), S(<<120>>), S(<<48, 49>>), S(<<45, 48>>), S(<<>>),
           N(Chars(MaxMag(t))), N(Chars(Pow2(IF t.signed THEN t.bits - 1 ELSE t.bits))),
           N(<<45>> \o Chars(Pow2(t.bits - 1))), S(Chars(MaxMag(t)))})

FloatInputs(d) ==
    {N(<<48>>), N(<<49, 46, 53>>), S(<<49, 46, 53>>)}
    \cup (IF d = 0 THEN {} ELSE
          {N(<<45, 48>>), N(<<49, 48, 48>>), N(<<49, 101, 50, 49>>), N(<<50, 69, 45, 51>>), N(<<45, 48, 46, 48, 101, 57>>),
           S(<<32, 49>>), S(<<49, 101, 50>>), S(<<48, 49>>), S(<<>>), B(FALSE)})

AnyInputs(d) ==
    {JNull, B(TRUE), S(<<97>>), N(<<49, 46, 53>>), Arr(<<>>), Obj(<<>>)}
    \cup (IF d = 0 THEN {} ELSE
          {N(<<45, 48>>), N(<<49, 101, 50>>), Arr(<<JNull, N(<<49>>)>>), Obj(<< <<<<97>>, N(<<49>>)>> >>),
           Obj(<< <<<<97>>, Obj(<< <<<<98>>, N(<<49>>)>> >>)>> >>), Obj(<< <<<<97>>, Obj(<< <<<<99>>, S(<<>>)>> >>)>>, <<<<98>>, JNull>> >>),
           Obj(<< <<<<97>>, N(<<49>>)>>, <<<<97>>, S(<<120>>)>> >>),
           Obj(<< <<<<97>>, Obj(<< <<<<98>>, N(<<49>>)>> >>)>>, <<<<97>>, Obj(<< <<<<99>>, N(<<50>>)>> >>)>> >>),
           Arr(<<Arr(<<>>), Obj(<< <<<<97>>, JNull>>, <<<<97>>, JNull>> >>)>>)})

RECURSIVE Inputs(_, _)
Inputs(t, d) ==
    {JNull} \cup
    CASE t.k = "bool" -> {B(TRUE), B(FALSE)} \cup (IF d = 0 THEN {} ELSE {N(<<48>>), S(<<116, 114, 117, 101>>)})
      [] t.k = "str" -> {S(<<>>), S(<<97>>)} \cup (IF d = 0 THEN {} ELSE {N(<<49>>), S(<<60, 233, 34, 128512>>), Arr(<<>>)})
      [] t.k = "int" -> IntInputs(t, d)
      [] t.k = "float" -> FloatInputs(d)
      [] t.k \in {"dur", "time"} ->
            {N(<<48>>), N(<<49, 46, 53>>), N(<<45, 48, 46, 53>>), S(<<49, 46, 53>>)}
            \cup (IF d = 0 THEN {} ELSE
                  {N(<<45, 48>>), N(<<45, 48, 46, 48>>), N(<<49, 101, 51>>), N(<<49, 46, 48, 48, 48, 48, 48, 48, 48, 48, 48, 49, 57>>), N(<<48, 46, 48, 48, 48, 48, 48, 48, 48, 48, 49>>),
                   N(Chars(MaxI64)), N(Chars(Pow2(63))), N(<<45>> \o Chars(Pow2(63))), N(<<45>> \o Chars(Pow2(63)) \o <<46, 53>>), N(Chars(Pow2(64))), N(Chars(MaxU64) \o <<46, 57, 57, 57>>),
                   N(Chars(MaxI64) \o <<48, 48, 48, 46, 49>>), N(Chars(Pow2(64)) \o <<48, 48, 48, 48, 48, 48>>),
                   S(<<>>), S(<<43, 49>>), S(<<49, 46>>), S(<<46, 53>>), S(<<48, 49>>), S(<<49, 46, 50, 46, 51>>), S(<<45, 49, 46, 53>>), S(<<49, 46, 53, 120>>), B(TRUE)})
      [] t.k \in {"bytes", "barr"} ->
            {S(<<>>), S(<<65, 65, 61, 61>>), S(<<65, 81, 73, 68>>), S(<<97, 71, 107, 61>>)}
            \cup (IF d = 0 THEN {} ELSE
                  {S(<<97, 71, 107>>), S(<<65, 66, 61, 61>>), S(<<65, 61, 61, 61>>), S(<<65, 65, 61, 65>>), S(<<97, 71, 107, 61, 10>>),
                   S(<<64, 64, 64, 64>>), S(<<65, 81, 73, 68, 65, 65, 61, 61>>), S(<<65, 65, 61, 61, 65, 81, 73, 68>>), S(<<45, 95, 45, 95>>),
                   N(<<49>>), Arr(<<N(<<49>>), N(<<50>>)>>), Arr(<<>>)})
      [] t.k = "slice" -> {Arr(<<>>)} \cup {Arr(<<x>>) : x \in Inputs(t.e, Dec(d))}
                          \cup (IF d = 0 THEN {} ELSE {Obj(<<>>), S(<<97>>)} \cup {Arr(<<x, y>>) : x, y \in Inputs(t.e, 0)})
      [] t.k = "array" -> {Arr(s) : s \in Product([i \in 1..t.n |-> Inputs(t.e, IF t.n > 1 THEN 0 ELSE Dec(d))])}
                          \cup {Arr(<<>>), Arr([i \in 1..(t.n + 1) |-> JNull])} \cup (IF d = 0 THEN {} ELSE {Obj(<<>>)})
      [] t.k = "map" ->
            LET n1 == KeyName(t.key, Key1(t.key))  n2 == KeyName(t.key, Key2(t.key)) IN
            {Obj(<<>>)} \cup {Obj(<< <<n1, x>> >>) : x \in Inputs(t.e, Dec(d))}
            \cup (IF d = 0 THEN {} ELSE
                  {Arr(<<>>), Obj(<< <<<<120>>, JNull>> >>), Obj(<< <<<<48, 49>>, JNull>> >>), Obj(<< <<<<45, 48>>, JNull>>, <<<<48>>, JNull>> >>)}
                  \cup {Obj(<< <<n2, x>>, <<n1, y>> >>) : x, y \in Inputs(t.e, 0)}
                  \cup {Obj(<< <<n1, x>>, <<n1, y>> >>) : x, y \in Inputs(t.e, 0)})
      [] t.k = "ptr" -> Inputs(t.e, d)
      [] t.k = "any" -> AnyInputs(d)
      [] t.k = "struct" ->
            LET idx == 1..Len(t.f) IN
            {Obj(<<>>)}
            \cup UNION {{Obj(<< <<t.f[i].name, x>> >>) : x \in Inputs(t.f[i].t, Dec(d)) \cup ExtraI(t.f[i].t, t.f[i].fmt)} : i \in idx}
            \* members for the embedded fallback: under the name its entries in Values have, and twice
            \cup (IF t.fb = <<>> THEN {} ELSE
                  {Obj(<< <<<<122>>, x>> >>) : x \in Inputs(t.fb[1], Dec(d))}
                  \cup {Obj(<< <<<<122>>, x>>, <<<<122>>, y>> >>) : x, y \in Inputs(t.fb[1], 0)})
            \cup (IF d = 0 THEN {} ELSE
                  {Arr(<<>>), Obj(<< <<<<122, 122>>, N(<<49>>)>> >>), Obj(<< <<<<122, 122>>, N(<<49>>)>>, <<<<122, 122>>, Arr(<<>>)>> >>)}
                  \cup UNION {{Obj(<< <<Flip(t.f[i].name), x>> >>) : x \in Inputs(t.f[i].t, 0)} : i \in idx}
                  \cup UNION {{Obj(<< <<Under(t.f[i].name), x>> >>) : x \in Inputs(t.f[i].t, 0)} : i \in idx}
                  \cup UNION {{Obj(<< <<t.f[i].name, x>>, <<t.f[i].name, y>> >>) : x, y \in Inputs(t.f[i].t, 0)} : i \in idx}
                  \cup UNION {{Obj(<< <<t.f[i].name, x>>, <<Flip(t.f[i].name), y>> >>) : x, y \in Inputs(t.f[i].t, 0)} : i \in idx}
                  \cup UNION {{Obj(<< <<t.f[j].name, x>>, <<t.f[i].name, y>> >>) : x \in Inputs(t.f[j].t, 0), y \in Inputs(t.f[i].t, 0)}
                              : i, j \in idx})

\* ------------------------------------------------------------------ state space: one state per case
T == Types[ti]
MO == MOpts[oi]
UO == UOpts[oi]

\* one initial state per (mode, type, option set); its successors are the cases, so that the
\* workers share the enumeration
Init == /\ mode \in {x \in {"m", "u", "g"} : x \in Modes}
        /\ ti \in 1..Len(Types)
        /\ oi \in 1..Len(IF mode = "m" THEN MOpts ELSE UOpts)
        /\ ph = "pick" /\ a = 0 /\ b = 0
Next == /\ ph = "pick" /\ ph' = "case"
        /\ UNCHANGED <<mode, ti, oi>>
        /\ \/ mode = "m" /\ a' \in Values(Types[ti], D) /\ b' = 0
           \/ mode = "u" /\ a' \in Values(Types[ti], D) /\ b' \in Inputs(Types[ti], D)
           \/ mode = "g" /\ a' \in Inputs(Types[ti], D) /\ b' \in Inputs(Types[ti], D)
vars == <<ph, mode, ti, a, b, oi>>
Spec == Init /\ [][Next]_vars

\* ------------------------------------------------------------------ theorems
RECURSIVE HasAny(_), HasOmitEmpty(_), HasOmit(_)
HasAny(t) ==
    \/ t.k = "any"
    \/ t.k \in {"slice", "array", "ptr", "map"} /\ HasAny(t.e)
    \/ t.k = "struct" /\ ((\E i \in 1..Len(t.f) : HasAny(t.f[i].t)) \/ (t.fb # <<>> /\ HasAny(t.fb[1])))
HasOmit(t) ==
    \/ t.k \in {"slice", "array", "ptr", "map"} /\ HasOmit(t.e)
    \/ t.k = "struct" /\ \E i \in 1..Len(t.f) : t.f[i].omitempty \/ t.f[i].omitzero \/ HasOmit(t.f[i].t)
HasOmitEmpty(t) ==
    \/ t.k \in {"slice", "array", "ptr", "map"} /\ HasOmitEmpty(t.e)
    \/ t.k = "struct" /\ \E i \in 1..Len(t.f) : t.f[i].omitempty \/ HasOmitEmpty(t.f[i].t)

\* some member name can reach a field it does not spell exactly
RECURSIVE HasFolding(_)
HasFolding(t) ==
    \/ t.k \in {"slice", "array", "ptr", "map"} /\ HasFolding(t.e)
    \/ t.k = "struct" /\ \E i \in 1..Len(t.f) : t.f[i].casing = 1 \/ HasFolding(t.f[i].t)

\* no entry of an embedded fallback is named like a field of its struct (such an entry is written
\* when the field is omitted, and read back into the field)
RECURSIVE CleanFB(_, _)
CleanFB(t, v) ==
    CASE t.k \in {"slice", "array"} -> \A i \in 1..Len(v.e) : CleanFB(t.e, v.e[i])
      [] t.k = "map" -> \A i \in 1..Len(v.m) : CleanFB(t.e, v.m[i][2])
      [] t.k = "ptr" -> v.nil \/ CleanFB(t.e, v.e)
      [] t.k = "any" -> v.nil \/ CleanFB(v.dt, v.e)
      [] t.k = "struct" ->
            /\ \A i \in 1..Len(t.f) : CleanFB(t.f[i].t, v.f[i])
            /\ t.fb # <<>> => \A k \in 1..Len(v.fb.m) :
                    /\ \A i \in 1..Len(t.f) : FF!Fold(t.f[i].name) # FF!Fold(v.fb.m[k][1].s)
                    /\ CleanFB(t.fb[1], v.fb.m[k][2])
      [] OTHER -> TRUE

\* the general codec agrees with the transcription of RFC 4648 section 4 for Base 64, and for
\* every encoding reading what was written gives the bytes back
RECURSIVE ByteStrings(_)
ByteStrings(n) == IF n = 0 THEN {<<>>} ELSE LET r == ByteStrings(n - 1) IN r \cup {Append(x, y) : x \in r, y \in {0, 104, 255}}
CodecLaws == (ph = "pick" /\ ti = 1 /\ oi = 1) =>
    /\ \A bb \in ByteStrings(5) :
          /\ BaseEnc("base64", bb) = B64Enc(bb)
          /\ \A f \in BinFormats : BaseDec(f, BaseEnc(f, bb)) = [ok |-> TRUE, b |-> bb]
    /\ \A j \in Inputs(BytesT, 1) \cup BinInputs("base64") \cup BinInputs("base32") :
          j.t = "str" => BaseDec("base64", j.s) = B64Dec(j.s)

ParseRender == (ph = "case" /\ mode = "m") =>
    LET j == Marshal(T, a, MO, NoSt) IN ~IsErr(j) => ParseJ(Render(j)) = j

RoundTrip == (ph = "case" /\ mode = "m" /\ CleanFB(T, a)) =>
    LET j == Marshal(T, a, MO, NoSt) IN
    ~IsErr(j) =>
        LET u == UnmarshalJ(T, Zero(T), j, MO) IN
        /\ u.ok
        /\ LET j2 == Marshal(T, u.v, MO, NoSt) IN
           /\ ~IsErr(j2)
           \* with omit options the second output may be smaller (a pointer to a nil pointer is
           \* written as null and comes back as a nil pointer, which is omitted): a fixed point
           \* is reached after one round
           /\ ~(HasOmit(T) \/ MO.oz) => j2 = j
           /\ LET u2 == UnmarshalJ(T, Zero(T), j2, MO) IN u2.ok /\ Marshal(T, u2.v, MO, NoSt) = j2
        /\ (~HasOmit(T) /\ ~MO.oz /\ ~(MO.sn /\ HasAny(T))) => Norm(T, u.v, MO) = Norm(T, a, MO)

\* (where differently spelled names reach the same field, the order of members matters and the
\* merge of two texts is not defined by the names alone: excluded)
MergeLaw == (ph = "case" /\ mode = "g" /\ ~HasDup(a) /\ ~HasDup(b) /\ ~UO.ci /\ ~HasFolding(T)) =>
    LET r1 == UnmarshalJ(T, Zero(T), a, UO) IN
    r1.ok =>
        LET r2 == UnmarshalJ(T, r1.v, b, UO) IN
        r2.ok =>
            LET r3 == UnmarshalJ(T, Zero(T), MergeJ(a, b), UO) IN
            r3.ok /\ r3.v = r2.v

FrameLaw == (ph = "case" /\ mode = "u" /\ b.t = "obj") =>
    LET r == UnmarshalJ(T, a, b, UO)
        names == {b.m[i][1] : i \in 1..Len(b.m)} IN
    r.ok =>
        /\ T.k = "struct" =>
              \A i \in 1..Len(T.f) :
                  (\A nm \in names : FF!Fold(nm) # FF!Fold(T.f[i].name)) => r.v.f[i] = a.f[i]
        /\ T.k = "map" =>
              \A i \in 1..Len(a.m) :
                  KeyName(T.key, a.m[i][1]) \notin names /\ T.key.k = "str" => MapHas(r.v.m, a.m[i][1]) /\ MapGet(r.v.m, a.m[i][1]) = a.m[i][2]

\* ------------------------------------------------------------------ emission
EmitM == (EmitCases /\ ph = "case" /\ mode = "m") =>
    LET j == Marshal(T, a, MO, NoSt) IN
    PrintT(ToJson(<<"m", T, a, MO, ~IsErr(j), IF IsErr(j) THEN <<>> ELSE Render(j)>>))

EmitU == (EmitCases /\ ph = "case" /\ mode = "u") =>
    LET r == UnmarshalJ(T, a, b, UO) IN
    PrintT(ToJson(<<"u", T, a, UO, Render(b), r.ok, IF r.ok THEN r.v ELSE 0>>))
=============================================================================
