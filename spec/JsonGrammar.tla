----------------------------- MODULE JsonGrammar -----------------------------
(***************************************************************************)
(* The RFC 8259 grammar as a recursive-descent recogniser over a byte      *)
(* sequence, written independently of the automaton in JsonText.  It is    *)
(* used only as the second formulation in TLC equivalence checks           *)
(* (MC_C01): the automaton that all other modules build on must agree      *)
(* with it on every byte string of the bounded universe.                   *)
(*                                                                         *)
(* Positions are 1-based indices of the next unread byte; 0 means failure. *)
(***************************************************************************)
EXTENDS Integers, Sequences, FiniteSets

LOCAL GWS == {32, 9, 10, 13}
LOCAL GHex(c) == IF c \in 48..57 THEN c - 48
                 ELSE IF c \in 97..102 THEN c - 87
                 ELSE IF c \in 65..70 THEN c - 55 ELSE -1

LOCAL At(b, i) == IF i >= 1 /\ i <= Len(b) THEN b[i] ELSE -1

RECURSIVE GSkipWS(_, _)
GSkipWS(b, i) == IF At(b, i) \in GWS THEN GSkipWS(b, i + 1) ELSE i

RECURSIVE GDigits(_, _)
GDigits(b, i) == IF At(b, i) \in 48..57 THEN GDigits(b, i + 1) ELSE i

\* number = [ minus ] int [ frac ] [ exp ]
GNumber(b, i) ==
    LET i1 == IF At(b, i) = 45 THEN i + 1 ELSE i
        i2 == IF At(b, i1) = 48 THEN i1 + 1
              ELSE IF At(b, i1) \in 49..57 THEN GDigits(b, i1 + 1) ELSE 0
        i3 == IF i2 = 0 THEN 0
              ELSE IF At(b, i2) = 46
                   THEN (IF At(b, i2 + 1) \in 48..57 THEN GDigits(b, i2 + 1) ELSE 0)
                   ELSE i2
        i4 == IF i3 = 0 THEN 0
              ELSE IF At(b, i3) \in {101, 69}
                   THEN LET j == IF At(b, i3 + 1) \in {43, 45} THEN i3 + 2 ELSE i3 + 1 IN
                        IF At(b, j) \in 48..57 THEN GDigits(b, j) ELSE 0
                   ELSE i3
    IN i4

\* length of the well-formed UTF-8 sequence starting at i (Unicode table 3-7), or 0
GU8Len(b, i) ==
    LET c == At(b, i)  c1 == At(b, i + 1)  c2 == At(b, i + 2)  c3 == At(b, i + 3)
        T(x) == x \in 128..191 IN
    IF c \in 194..223 /\ T(c1) THEN 2
    ELSE IF c = 224 /\ c1 \in 160..191 /\ T(c2) THEN 3
    ELSE IF c \in (225..236) \cup {238, 239} /\ T(c1) /\ T(c2) THEN 3
    ELSE IF c = 237 /\ c1 \in 128..159 /\ T(c2) THEN 3
    ELSE IF c = 240 /\ c1 \in 144..191 /\ T(c2) /\ T(c3) THEN 4
    ELSE IF c \in 241..243 /\ T(c1) /\ T(c2) /\ T(c3) THEN 4
    ELSE IF c = 244 /\ c1 \in 128..143 /\ T(c2) /\ T(c3) THEN 4
    ELSE 0

GU8Val(b, i, n) ==
    CASE n = 2 -> (b[i] - 192) * 64 + (b[i + 1] - 128)
      [] n = 3 -> (b[i] - 224) * 4096 + (b[i + 1] - 128) * 64 + (b[i + 2] - 128)
      [] n = 4 -> (b[i] - 240) * 262144 + (b[i + 1] - 128) * 4096 + (b[i + 2] - 128) * 64 + (b[i + 3] - 128)

\* value of \uXXXX whose backslash is at i, or -1
GEscU(b, i) ==
    IF At(b, i) = 92 /\ At(b, i + 1) = 117 /\ \A k \in 2..5 : GHex(At(b, i + k)) >= 0
    THEN GHex(b[i + 2]) * 4096 + GHex(b[i + 3]) * 256 + GHex(b[i + 4]) * 16 + GHex(b[i + 5])
    ELSE -1

\* characters of a string, i is the index after the opening quote
\* result: [j |-> index after the closing quote (0 = failure), cps |-> code points]
RECURSIVE GChars(_, _, _, _)
GChars(o, b, i, acc) ==
    LET c == At(b, i)  Fail == [j |-> 0, cps |-> <<>>] IN
    IF c < 0 THEN Fail
    ELSE IF c = 34 THEN [j |-> i + 1, cps |-> acc]
    ELSE IF c < 32 THEN Fail
    ELSE IF c = 92 THEN
         LET d == At(b, i + 1) IN
         IF d = 117 THEN
              LET v == GEscU(b, i) IN
              IF v < 0 THEN Fail
              ELSE IF v \in 55296..56319 THEN            \* high surrogate
                   LET w == GEscU(b, i + 6) IN
                   IF w \in 56320..57343
                   THEN GChars(o, b, i + 12, Append(acc, 65536 + (v - 55296) * 1024 + (w - 56320)))
                   ELSE IF o.ai THEN GChars(o, b, i + 6, Append(acc, 65533)) ELSE Fail
              ELSE IF v \in 56320..57343 THEN
                   IF o.ai THEN GChars(o, b, i + 6, Append(acc, 65533)) ELSE Fail
              ELSE GChars(o, b, i + 6, Append(acc, v))
         ELSE LET e == CASE d = 34 -> 34 [] d = 92 -> 92 [] d = 47 -> 47 [] d = 98 -> 8
                         [] d = 102 -> 12 [] d = 110 -> 10 [] d = 114 -> 13 [] d = 116 -> 9
                         [] OTHER -> -1 IN
              IF e < 0 THEN Fail ELSE GChars(o, b, i + 2, Append(acc, e))
    ELSE IF c < 128 THEN GChars(o, b, i + 1, Append(acc, c))
    ELSE LET n == GU8Len(b, i) IN
         IF n > 0 THEN GChars(o, b, i + n, Append(acc, GU8Val(b, i, n)))
         ELSE IF o.ai THEN GChars(o, b, i + 1, Append(acc, 65533)) ELSE Fail

GLiteral(b, i, lit) == IF \A k \in 1..Len(lit) : At(b, i + k - 1) = lit[k] THEN i + Len(lit) ELSE 0

\* value at i (no leading whitespace), nested inside d open containers
RECURSIVE GValue(_, _, _, _), GElems(_, _, _, _), GMembers(_, _, _, _, _)
GValue(o, b, i, d) ==
    LET c == At(b, i) IN
    CASE c = 110 -> GLiteral(b, i, <<110, 117, 108, 108>>)
      [] c = 116 -> GLiteral(b, i, <<116, 114, 117, 101>>)
      [] c = 102 -> GLiteral(b, i, <<102, 97, 108, 115, 101>>)
      [] c = 34 -> GChars(o, b, i + 1, <<>>).j
      [] c = 45 \/ c \in 48..57 -> GNumber(b, i)
      [] c = 91 -> IF d >= o.maxd THEN 0
                   ELSE LET j == GSkipWS(b, i + 1) IN
                        IF At(b, j) = 93 THEN j + 1 ELSE GElems(o, b, j, d + 1)
      [] c = 123 -> IF d >= o.maxd THEN 0
                    ELSE LET j == GSkipWS(b, i + 1) IN
                         IF At(b, j) = 125 THEN j + 1 ELSE GMembers(o, b, j, d + 1, {})
      [] OTHER -> 0

\* elements: value *( ws "," ws value ) ws "]" ; i is at the first value
GElems(o, b, i, d) ==
    LET j == GValue(o, b, i, d) IN
    IF j = 0 THEN 0
    ELSE LET k == GSkipWS(b, j) IN
         IF At(b, k) = 93 THEN k + 1
         ELSE IF At(b, k) = 44 THEN GElems(o, b, GSkipWS(b, k + 1), d)
         ELSE 0

\* members: string ws ":" ws value *( ws "," ws member ) ws "}"
GMembers(o, b, i, d, seen) ==
    IF At(b, i) # 34 THEN 0
    ELSE LET r == GChars(o, b, i + 1, <<>>) IN
         IF r.j = 0 \/ (~o.ad /\ r.cps \in seen) THEN 0
         ELSE LET k == GSkipWS(b, r.j) IN
              IF At(b, k) # 58 THEN 0
              ELSE LET j == GValue(o, b, GSkipWS(b, k + 1), d) IN
                   IF j = 0 THEN 0
                   ELSE LET m == GSkipWS(b, j) IN
                        IF At(b, m) = 125 THEN m + 1
                        ELSE IF At(b, m) = 44
                             THEN GMembers(o, b, GSkipWS(b, m + 1), d, seen \cup {r.cps})
                             ELSE 0

\* JSON-text = ws value ws
GIsJsonText(o, b) ==
    LET j == GValue(o, b, GSkipWS(b, 1), 0) IN
    j # 0 /\ GSkipWS(b, j) = Len(b) + 1

\* zero or more texts separated by optional whitespace
RECURSIVE GStreamFrom(_, _, _)
GStreamFrom(o, b, i) ==
    LET k == GSkipWS(b, i) IN
    IF k = Len(b) + 1 THEN TRUE
    ELSE LET j == GValue(o, b, k, 0) IN j # 0 /\ GStreamFrom(o, b, j)

GIsJsonStream(o, b) == GStreamFrom(o, b, 1)
=============================================================================
