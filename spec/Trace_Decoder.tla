---------------------------- MODULE Trace_Decoder ----------------------------
(* Trace validation for the streaming Decoder (C05, C16, C20).               *)
(* One record per case: the complete input, the options, and the calls made  *)
(* on the real Decoder (over some reader schedule with injected faults) with *)
(* what each returned and what the cheap observers reported afterwards.      *)
(* TLC steps the Decoder model through the same calls and rejects the case   *)
(* at the first call that is not a step the model allows.                    *)
EXTENDS Decoder, TLC, Json, IOUtils

CONSTANT MaxD

T == ndJsonDeserialize(IOEnv.VERIF_TRACE)

VARIABLES l, rej

\* a logged step is a tuple (keeps traces small)
S(st) == [op |-> st[1], err |-> st[2], k |-> st[3], len |-> st[4], off |-> st[5], depth |-> st[6],
          idx |-> st[7], ptr |-> st[8], str |-> st[9], fd |-> st[10], acct |-> st[11], vok |-> st[12],
          panic |-> st[13], eoff |-> st[14], eptr |-> st[15], ecls |-> st[16]]

ObsEq(st, o) == st.off = o.off /\ st.depth = o.depth /\ st.idx = o.idx

ResEq(st, op, res, kinds) ==
    /\ st.err = res.err
    /\ (res.err = "nil" /\ op \in {"tok", "val"}) => st.k = res.k /\ (st.len = -1 \/ st.len = res.len)
    /\ op = "peek" => IF res.k = -1 THEN st.k \in kinds ELSE st.k = res.k

\* the step is "the pending call returned the transient I/O error (or a syntax error
\* that takes precedence on input that is invalid anyway) and changed nothing"
FaultOK(st, normal, tab, d) ==
    /\ st.err = "io" \/ (st.err = "syn" /\ normal.res.err = "syn")
    /\ ObsEq(st, Observe(tab, d))

\* SkipValue interrupted by a fault: any token boundary between here and the end of the value
SkipStops(tab, d, off) ==
    {j \in d.ti..(Len(tab.toks) + 1) : OffsetOf(tab, [d EXCEPT !.ti = j]) = off}

StepCheck(tab, acc, st) ==
    IF ~acc.ok THEN acc ELSE
    LET d == acc.d
        normal == Call(tab, d, st.op)
        bad(why) == [acc EXCEPT !.ok = FALSE, !.why = <<acc.i, why, normal.res, Observe(tab, normal.next)>>]
        good(nd) == [acc EXCEPT !.d = nd, !.i = @ + 1] IN
    IF st.panic # "" THEN [acc EXCEPT !.ok = FALSE, !.why = <<acc.i, "panic">>, !.prop = "C20"]
    ELSE IF ~st.acct THEN bad("unread-accounting")
    ELSE IF d.pe /\ st.op \in {"tok", "val"} THEN
         IF FaultOK(st, normal, tab, d) THEN good([d EXCEPT !.pe = FALSE]) ELSE bad("cached-io-error")
    ELSE IF st.fd THEN
         CASE st.op = "peek" ->
                IF st.k = 0 /\ ObsEq(st, Observe(tab, d)) THEN good([d EXCEPT !.pe = TRUE]) ELSE bad("peek-fault")
           [] st.op \in {"tok", "val"} ->
                IF FaultOK(st, normal, tab, d) THEN good(d) ELSE bad("fault-changed-state")
           [] st.op = "skip" ->
                LET js == SkipStops(tab, d, st.off) IN
                IF st.err \in {"io", "syn"} /\ js # {} /\ (st.err = "syn" => normal.res.err = "syn")
                THEN LET j == CHOOSE x \in js : TRUE
                         nd == [d EXCEPT !.ti = j, !.pe = FALSE,
                                         !.stk = FoldLeft(ApplyTok, d.stk, SubSeq(tab.toks, d.ti, j - 1))] IN
                     IF ObsEq(st, Observe(tab, nd)) THEN good(nd) ELSE bad("skip-fault")
                ELSE bad("skip-fault")
           [] OTHER -> bad("fault-in-observer")
    ELSE LET nd == [normal.next EXCEPT !.pe = IF st.op = "ptr" THEN d.pe ELSE FALSE] IN
         IF /\ ResEq(st, st.op, normal.res, PeekKinds(tab, d))
            /\ ObsEq(st, Observe(tab, nd))
            /\ st.vok
            /\ st.op = "ptr" => st.ptr = PointerOf(d.stk)
            /\ (st.op = "tok" /\ normal.res.err = "nil" /\ normal.res.k = 34) => st.str = tab.toks[d.ti].str
         THEN IF st.err = "syn" /\ InputError(tab, d, st.op)
                 /\ ~(OffsetOK(tab, st.eoff) /\ PointerOK(tab, st.eptr))
              THEN [acc EXCEPT !.ok = FALSE, !.prop = "C16",
                               !.why = <<acc.i, "error-position", st.eoff, st.eptr,
                                         ContainerPtr(StackAfter(tab.toks)), tab.why>>]
              ELSE good(nd)
         ELSE bad("result")

CheckCase(rec) ==
    LET tab == Table(Opt(rec.ai, rec.ad, MaxD), rec.in) IN
    FoldLeft(LAMBDA acc, st : StepCheck(tab, acc, S(st)),
             [d |-> DInit, ok |-> TRUE, i |-> 1, why |-> <<>>, prop |-> rec.prop], rec.steps)

Init == l = 1 /\ rej = <<>>

Next == /\ l <= Len(T)
        /\ l' = l + 1
        /\ LET r == CheckCase(T[l]) IN
           rej' = IF r.ok THEN rej ELSE Append(rej, <<T[l].id, r.prop, r.why>>)

Spec == Init /\ [][Next]_<<l, rej>>

Done == l = Len(T) + 1 => PrintT(ToJson(<<"REJ", rej>>))
Consumed == TLCGet("stats").diameter = Len(T) + 1
=============================================================================
