------------------------------ MODULE MC_C01 ------------------------------
(* Exhaustive enumeration of byte strings over a JSON-critical alphabet.   *)
(* Checks on the model: the automaton agrees with the recursive-descent    *)
(* grammar (JsonGrammar), viability is prefix closed.  Every string is     *)
(* emitted with its verdict under the four option combinations for replay  *)
(* against the implementation.                                             *)
EXTENDS JsonText, JsonGrammar, TLC, Json

CONSTANTS Alphabet, Prefix, MaxLen, MaxD, EmitCases, CheckTwin
\* Prefix: bytes every explored string starts with (lets the bounded search reach
\* deep into escapes / duplicate names); MaxLen bounds the bytes after the prefix

VARIABLES bytes, st

OptAt(i) == Opt(i \in {3, 4}, i \in {2, 4}, MaxD)   \* 1:strict 2:ad 3:ai 4:ai+ad

Init == bytes = Prefix /\ st = [i \in 1..4 |-> Run(OptAt(i), Prefix)]

AllDead == \A i \in 1..4 : st[i].dead

Next == /\ Len(bytes) < Len(Prefix) + MaxLen
        /\ ~AllDead
        /\ \E b \in Alphabet :
              /\ bytes' = Append(bytes, b)
              /\ st' = [i \in 1..4 |-> Step(OptAt(i), st[i], b)]

Code(i) == LET s == Finish(st[i]) IN
           IF s.dead THEN 0
           ELSE IF ~AtBoundary(s) THEN 1
           ELSE IF TopN(s) = 1 THEN 3 ELSE 2

\* some number token with three or more exponent digits (possible float64 overflow)
BigExp == LET s == Finish(st[4]) IN
          \E i \in 1..Len(s.toks) : s.toks[i].k = "num" /\
             \E j \in (s.toks[i].s + 1)..(s.toks[i].e - 3) :
                 bytes[j] \in {101, 69}

\* The search stops at the first dead byte, so an implementation that wrongly keeps going
\* after it would never be asked about a text it could then accept.  Every string on that
\* frontier is therefore also emitted completed by the closers of whatever was open when it
\* died (verdict recomputed from scratch): still invalid by the specification.
Closers(s) ==
    LET q == IF s.lx \in {"str", "esc", "hex", "u8"} THEN <<34>> ELSE <<>>
        fs == Append(s.stack, s.fr)
        n == Len(fs) IN
    q \o [i \in 1..(n - 1) |-> IF fs[n + 1 - i].t = "o" THEN 125 ELSE 93]

CodeOfBytes(i, b) == LET s == Finish(Run(OptAt(i), b)) IN
                     IF s.dead THEN 0 ELSE IF ~AtBoundary(s) THEN 1 ELSE IF TopN(s) = 1 THEN 3 ELSE 2

EmitInv == EmitCases =>
    /\ PrintT(ToJson(<<bytes, <<Code(1), Code(2), Code(3), Code(4)>>, BigExp>>))
    /\ AllDead => LET c == bytes \o Closers(st[4]) IN
                  PrintT(ToJson(<<c, <<CodeOfBytes(1, c), CodeOfBytes(2, c), CodeOfBytes(3, c), CodeOfBytes(4, c)>>, BigExp>>))

\* the automaton and the grammar agree (two independent formulations)
TwinInv == CheckTwin => \A i \in 1..4 :
              /\ (Code(i) = 3) = GIsJsonText(OptAt(i), bytes)
              /\ (Code(i) \in {2, 3}) = GIsJsonStream(OptAt(i), bytes)

\* a dead state stays dead, and death is monotone in the options:
\* what strict options accept, permissive ones accept too
MonoInv == /\ (Code(1) = 3 => Code(2) = 3 /\ Code(3) = 3 /\ Code(4) = 3)
           /\ (Code(2) = 3 => Code(4) = 3) /\ (Code(3) = 3 => Code(4) = 3)
           /\ (~st[1].dead => ~st[4].dead)

DeadStays == [][\A i \in 1..4 : st[i].dead => st'[i].dead]_<<bytes, st>>

Spec == Init /\ [][Next]_<<bytes, st>>
=============================================================================
