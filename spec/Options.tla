------------------------------ MODULE Options ------------------------------
(***************************************************************************)
(* Options as a last-wins map.  A store maps every option key to Unset or  *)
(* a value; a setter updates one or several keys; JoinOptions of setters   *)
(* is itself a setter that copies the keys its members set.                *)
(*                                                                         *)
(* Setters (records with field k):                                         *)
(*   "flag"  key v          a boolean option constructor                   *)
(*   "indent" s / "prefix" s   WithIndent / WithIndentPrefix: set the      *)
(*                          string and imply Multiline(true)               *)
(*   "marshalers" id / "unmarshalers" id   (id 0 = nil)                    *)
(*   "v1" / "v2"            DefaultOptionsV1 / DefaultOptionsV2            *)
(*   "nil"                  a nil Options value                            *)
(*   "join" items           JoinOptions(items...)                          *)
(***************************************************************************)
EXTENDS Integers, Sequences, FiniteSets, SequencesExt

\* the options DefaultOptionsV1 turns on and DefaultOptionsV2 turns off
V1Keys == {"AllowDuplicateNames", "AllowInvalidUTF8", "EscapeForHTML", "EscapeForJS", "PreserveRawStrings",
           "Deterministic", "FormatNilMapAsNull", "FormatNilSliceAsNull", "MatchCaseInsensitiveNames",
           "CallMethodsWithLegacySemantics", "FormatByteArrayAsArray", "FormatBytesWithLegacySemantics",
           "FormatDurationAsNano", "MatchCaseSensitiveDelimiter", "MergeWithLegacySemantics",
           "OmitEmptyWithLegacySemantics", "ParseBytesWithLooseRFC4648", "ParseTimeWithLooseRFC3339",
           "ReportErrorsWithLegacySemantics", "StringifyWithLegacySemantics", "UnmarshalArrayFromAnyLength"}

BoolKeys == V1Keys \cup {"CanonicalizeRawInts", "CanonicalizeRawFloats", "ReorderRawObjects", "Multiline",
                         "SpaceAfterColon", "SpaceAfterComma", "StringifyNumbers", "OmitZeroStructFields",
                         "RejectUnknownMembers"}

Keys == BoolKeys \cup {"Indent", "IndentPrefix", "Marshalers", "Unmarshalers"}

\* store values are strings so that they are comparable: "unset", "true", "false",
\* "s:<indent>", "id:<n>"
Unset == "unset"
B(v) == IF v THEN "true" ELSE "false"
Id(n) == CASE n = 0 -> "id:0" [] n = 1 -> "id:1" [] n = 2 -> "id:2"
Empty == [k \in Keys |-> Unset]

\* copy the keys that src sets (Struct.Join)
JoinStore(dst, src) == [k \in Keys |-> IF src[k] # Unset THEN src[k] ELSE dst[k]]

RECURSIVE Apply(_, _)
Apply(st, s) ==
    CASE s.k = "flag" -> [st EXCEPT ![s.key] = B(s.v)]
      [] s.k = "indent" -> [st EXCEPT !["Multiline"] = "true", !["Indent"] = "s:" \o s.s]
      [] s.k = "prefix" -> [st EXCEPT !["Multiline"] = "true", !["IndentPrefix"] = "s:" \o s.s]
      [] s.k = "marshalers" -> [st EXCEPT !["Marshalers"] = Id(s.id)]
      [] s.k = "unmarshalers" -> [st EXCEPT !["Unmarshalers"] = Id(s.id)]
      [] s.k = "v1" -> [k \in Keys |-> IF k \in V1Keys THEN "true" ELSE st[k]]
      [] s.k = "v2" -> [k \in Keys |-> IF k \in V1Keys THEN "false" ELSE st[k]]
      [] s.k = "nil" -> st
      [] s.k = "join" -> JoinStore(st, FoldLeft(Apply, Empty, s.items))

Eval(items) == FoldLeft(Apply, Empty, items)

Join(items) == [k |-> "join", items |-> items]

\* GetOption: <<value or Unset, present>>
Get(st, key) == <<st[key], st[key] # Unset>>

(***************************************************************************)
(* Which options matter for which operation (documentation of the option   *)
(* constructors: "encode only", "marshal only", "unmarshal only" ...).     *)
(***************************************************************************)
EncodeOnly == {"PreserveRawStrings", "CanonicalizeRawInts", "CanonicalizeRawFloats", "ReorderRawObjects",
               "EscapeForHTML", "EscapeForJS", "Multiline", "SpaceAfterColon", "SpaceAfterComma", "Indent", "IndentPrefix"}
MarshalOnly == {"Deterministic", "FormatNilMapAsNull", "FormatNilSliceAsNull", "OmitZeroStructFields", "Marshalers",
                "OmitEmptyWithLegacySemantics"}
UnmarshalOnly == {"RejectUnknownMembers", "Unmarshalers", "MergeWithLegacySemantics", "ParseBytesWithLooseRFC4648",
                  "ParseTimeWithLooseRFC3339", "UnmarshalArrayFromAnyLength"}

Irrelevant(op) == CASE op = "marshal" -> UnmarshalOnly
                    [] op = "unmarshal" -> EncodeOnly \cup MarshalOnly
                    [] op = "decode" -> EncodeOnly \cup MarshalOnly \cup UnmarshalOnly \cup (BoolKeys \ {"AllowDuplicateNames", "AllowInvalidUTF8"})
                    [] op = "encode" -> MarshalOnly \cup UnmarshalOnly
=============================================================================
