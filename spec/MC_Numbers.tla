----------------------------- MODULE MC_Numbers -----------------------------
(* Number semantics (C10) over an enumerated universe of literals: all       *)
(* integer literals within Near of every power-of-two bound, spelled with    *)
(* and without minus sign, plus fraction / exponent / -0 variants.           *)
(* Model theorems:                                                           *)
(*   LayoutInverse  the ECMA-262 layout of (digits, n) parses back to the    *)
(*                  same normal form: the layout is total, injective and     *)
(*                  denotes the value (all digit strings up to 3 digits over *)
(*                  {1,2,9,0} x exponents -9..24)                            *)
(*   RangeTwin      the digit-string range predicate agrees with integer     *)
(*                  arithmetic for the 8- and 16-bit types                   *)
(* Every literal is emitted with the predicted outcome for every integer     *)
(* destination type and for Token.Int / Token.Uint.                          *)
EXTENDS Numbers, TLC, Json

CONSTANTS Near, EmitCases

VARIABLES lit, phase

Bounds == {7, 8, 15, 16, 31, 32, 63, 64}

\* digit-string arithmetic used only to enumerate the universe
RECURSIVE Inc(_)
Inc(d) == IF d = <<>> THEN <<1>>
          ELSE IF d[Len(d)] < 9 THEN [d EXCEPT ![Len(d)] = @ + 1]
          ELSE Append(Inc(SubSeq(d, 1, Len(d) - 1)), 0)
RECURSIVE StripLeftKeep(_)
StripLeftKeep(d) == IF Len(d) > 1 /\ d[1] = 0 THEN StripLeftKeep(Tail(d)) ELSE d
RECURSIVE Dec(_)
Dec(d) == IF d = <<0>> THEN <<0>>        \* magnitudes: stay at zero
          ELSE IF d[Len(d)] > 0
          THEN StripLeftKeep([d EXCEPT ![Len(d)] = @ - 1])
          ELSE StripLeftKeep(Append(Dec(SubSeq(d, 1, Len(d) - 1)), 9))
RECURSIVE Shift(_, _)
Shift(d, k) == IF k = 0 THEN d ELSE IF k > 0 THEN Shift(Inc(d), k - 1) ELSE Shift(Dec(d), k + 1)

Text(neg, mag) == (IF neg THEN <<45>> ELSE <<>>) \o [i \in 1..Len(mag) |-> 48 + mag[i]]

Variants(neg, mag) ==
    LET t == Text(neg, mag) IN
    {t, t \o <<46, 48>>, t \o <<101, 48>>, t \o <<46, 53>>, t \o <<69, 43, 49>>}
    \cup (IF mag = <<0>> THEN {} ELSE {t \o <<48, 101, 45, 49>>})

Universe ==
    UNION {Variants(neg, Shift(Pow2(b), k)) : neg \in BOOLEAN, b \in Bounds, k \in (-Near)..Near}
    \cup UNION {Variants(neg, m) : neg \in BOOLEAN, m \in {<<0>>, <<1>>, <<9>>}}

Init == lit \in Universe /\ phase = "lit"
Next == FALSE /\ UNCHANGED <<lit, phase>>
Spec == Init /\ [][Next]_<<lit, phase>>

Types == <<<<8, TRUE>>, <<16, TRUE>>, <<32, TRUE>>, <<64, TRUE>>, <<8, FALSE>>, <<16, FALSE>>, <<32, FALSE>>, <<64, FALSE>>>>

\* numeric value of a short literal (fits TLC integers)
RECURSIVE MagVal(_)
MagVal(m) == IF m = <<>> THEN 0 ELSE MagVal(SubSeq(m, 1, Len(m) - 1)) * 10 + m[Len(m)]

RangeTwin == (IsIntSyntax(lit) /\ Len(lit) <= 7) =>
    LET neg == lit[1] = 45
        v == (IF neg THEN -1 ELSE 1) * MagVal(MagOf(lit)) IN
    /\ InRange(neg, MagOf(lit), 8, TRUE) = (v >= -128 /\ v <= 127)
    /\ InRange(neg, MagOf(lit), 16, TRUE) = (v >= -32768 /\ v <= 32767)
    /\ (~neg => InRange(neg, MagOf(lit), 8, FALSE) = (v <= 255))
    /\ (~neg => InRange(neg, MagOf(lit), 16, FALSE) = (v <= 65535))

DigitStrings == {<<a>> : a \in {1, 2, 9}} \cup {<<a, b>> : a \in {1, 9}, b \in {1, 2, 9}}
                \cup {<<a, b, c>> : a \in {1, 9}, b \in {0, 2}, c \in {1, 9}}

LayoutInverseHolds == \A d \in DigitStrings : \A n \in -9..24 : \A neg \in BOOLEAN :
    LET nf == Normal(EcmaLayout(neg, d, n)) IN nf.neg = neg /\ nf.d = d /\ nf.n = n

\* a constant-level theorem: evaluated once by TLC
ASSUME LayoutInverse == LayoutInverseHolds

V(x) == <<x.v.neg, x.v.mag, x.err>>
EmitInv == EmitCases =>
    PrintT(ToJson(<<lit, [i \in 1..8 |-> IntAccepts(lit, Types[i][1], Types[i][2])], V(TokenInt(lit)), V(TokenUint(lit)),
                    TruncDecidable(Normal(lit))>>))
=============================================================================
