------------------------------ MODULE Trace_V1 ------------------------------
(* Trace validation for C09: every record is a call program executed on both *)
(* github.com/go-json-experiment/json/v1 and encoding/json, step by step.     *)
EXTENDS V1, TLC, Json, IOUtils

CONSTANT MaxD

T == ndJsonDeserialize(IOEnv.VERIF_TRACE)

VARIABLES l, rej

FirstBad(rec) ==
    LET bads == {i \in 1..Len(rec.steps) : rec.steps[i][1] # "untouched" /\ ~Equivalent(rec.steps[i][2], rec.steps[i][3])} IN
    IF bads = {} THEN 0 ELSE CHOOSE i \in bads : \A j \in bads : i <= j

\* decoder programs of Token / More / InputOffset calls over one valid text, read from a reader
\* that delivers the whole input: both packages must answer what the stream model prescribes
StreamOps == {"Token", "More", "InputOffset", "UseNumber", "DisallowUnknownFields"}
Modelled(rec) == /\ rec.kind = "decoder" /\ rec.valid /\ ~rec.fed
                 /\ \A i \in 1..Len(rec.steps) : rec.steps[i][1] \in StreamOps
                 /\ LET toks == Finish(Run(Opt(TRUE, TRUE, MaxD), rec.input)).toks IN
                    \A i \in 1..Len(toks) : ~NumBorderline(rec.input, toks[i])
IsPrefixOf(p, s) == Len(p) <= Len(s) /\ SubSeq(s, 1, Len(p)) = p
StreamCheck(rec) ==
    LET toks == Finish(Run(Opt(TRUE, TRUE, MaxD), rec.input)).toks
        useNumber == \E i \in 1..Len(rec.steps) : rec.steps[i][1] = "UseNumber"
        r == FoldLeft(LAMBDA acc, i :
                 IF acc.bad # <<>> \/ rec.steps[i][1] \in {"UseNumber", "DisallowUnknownFields"} THEN acc
                 ELSE LET c == SCall(rec.input, toks, acc.st, rec.steps[i][1], useNumber)
                          agrees(res) == res[1] = c.ok /\ (c.ok \/ rec.steps[i][1] = "More" => IsPrefixOf(c.text, res[2])) IN
                      IF ~agrees(rec.steps[i][3]) THEN [acc EXCEPT !.bad = <<"SPEC", "classic-stream-differs-from-specification", rec.steps[i][1], i>>]
                      ELSE IF ~agrees(rec.steps[i][2]) THEN [acc EXCEPT !.bad = <<"C09", "stream-api", rec.steps[i][1], i>>]
                      ELSE [acc EXCEPT !.st = c.st],
               [st |-> SInit, bad |-> <<>>], [i \in 1..Len(rec.steps) |-> i]) IN
    r.bad

Check(rec) ==
    IF rec.panic # "" THEN <<"C20", "panic">>
    \* calibration: the specification's idea of the classic Valid must be what the classic package says
    ELSE IF rec.kind = "bytes" /\ rec.steps[1][3][1] # ClassicValid(rec.input, MaxD) THEN <<"SPEC", "classic-Valid-differs-from-specification">>
    ELSE LET i == FirstBad(rec) IN
         IF i # 0 THEN
              LET a == rec.steps[i][2]  b == rec.steps[i][3] IN
              IF a[1] /\ b[1] /\ SpellFFFD(b[2]) = a[2] THEN <<"C09", "fffd-spelling", rec.steps[i][1]>>
              ELSE IF a[1] /\ b[1] /\ rec.kind = "encoder" /\ SpellJS(a[2]) = SpellJS(b[2]) THEN <<"C09", "js-separator-spelling", rec.steps[i][1]>>
              \* both recorded spelling differences in one output
              ELSE IF a[1] /\ b[1] /\ rec.kind = "encoder" /\ SpellJS(SpellFFFD(a[2])) = SpellJS(SpellFFFD(b[2]))
                   THEN <<"C09", "fffd-spelling+js-separator-spelling", rec.steps[i][1]>>
              ELSE <<"C09", IF a[1] = b[1] THEN "results-differ" ELSE "succeed-or-fail-differs", rec.steps[i][1], i>>
         ELSE IF rec.kind = "unmarshal" /\ ~rec.valid /\ ~rec.steps[2][2][1] THEN <<"C09", "target-touched-on-invalid-input">>
         ELSE IF Modelled(rec) THEN StreamCheck(rec)
         ELSE <<>>

Init == l = 1 /\ rej = <<>>
Next == /\ l <= Len(T)
        /\ l' = l + 1
        /\ LET c == Check(T[l]) IN
           rej' = IF c = <<>> THEN rej ELSE Append(rej, <<T[l].id, c[1], c>>)
Spec == Init /\ [][Next]_<<l, rej>>
Done == l = Len(T) + 1 => PrintT(ToJson(<<"REJ", rej>>))
Consumed == TLCGet("stats").diameter = Len(T) + 1
=============================================================================
