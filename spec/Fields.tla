------------------------------ MODULE Fields ------------------------------
(***************************************************************************)
(* How the fields of a Go struct map to JSON object members (C15).         *)
(*                                                                         *)
(* A struct is a sequence of fields.  A field is a record                  *)
(*   [go, name, hasName, embed, sub, casing, omitzero, omitempty, str, kind]*)
(*   name     the JSON name (the Go name unless the tag gives one)         *)
(*   hasName  the tag gives the name explicitly                            *)
(*   embed    the field's members are promoted (Go embedding without an    *)
(*            explicit name, or the `embed` option); sub is the embedded   *)
(*            struct (a sequence of fields), <<>> otherwise                *)
(*   casing   0 default, 1 `case:ignore`, 2 `case:strict`                  *)
(*   kind     of a leaf: "int" "str" "slice"                               *)
(*                                                                         *)
(* Documented rules: breadth-first search; the shallowest field with a     *)
(* given name wins; among several at that depth a single explicitly named  *)
(* one wins, otherwise all are dropped; members are marshaled in           *)
(* depth-first source order; names are matched exactly, and - where        *)
(* requested - ignoring case, '_' and '-', an exact match being preferred  *)
(* and several insensitive matches being an error.                         *)
(***************************************************************************)
EXTENDS Integers, Sequences, FiniteSets, SequencesExt

\* ------------------------------------------------------- candidates (breadth-first)
\* queue entries: [fields, path]; result: candidates [name, hasName, depth, path, f]
RECURSIVE BFS(_, _)
BFS(queue, acc) ==
    IF queue = <<>> THEN acc
    ELSE LET q == queue[1]
             plain == SelectSeq([i \in 1..Len(q.fields) |-> [i |-> i, f |-> q.fields[i]]], LAMBDA x : ~x.f.embed)
             emb == SelectSeq([i \in 1..Len(q.fields) |-> [i |-> i, f |-> q.fields[i]]], LAMBDA x : x.f.embed)
             cands == [j \in 1..Len(plain) |->
                         [name |-> plain[j].f.name, hasName |-> plain[j].f.hasName, depth |-> Len(q.path) + 1,
                          path |-> Append(q.path, plain[j].i), f |-> plain[j].f, viaptr |-> q.viaptr]]
             more == [j \in 1..Len(emb) |-> [fields |-> emb[j].f.sub, path |-> Append(q.path, emb[j].i),
                                             viaptr |-> q.viaptr \/ emb[j].f.ptr]] IN
         BFS(Tail(queue) \o more, acc \o cands)

\* candidates in breadth-first order: the position in this sequence is the field's id
\* NOTE: within one struct the code visits fields in source order, plain and embedded interleaved;
\* ids of plain fields of the same struct keep their source order, which is all that matters here
Candidates(S) == BFS(<<[fields |-> S, path |-> <<>>, viaptr |-> FALSE]>>, <<>>)

\* ------------------------------------------------------- declarative resolution
WinnersOf(cs) ==
    LET idx == 1..Len(cs)
        top(i) == \A j \in idx : cs[j].name = cs[i].name => cs[j].depth >= cs[i].depth
        rivals(i) == {j \in idx : cs[j].name = cs[i].name /\ cs[j].depth = cs[i].depth}
        wins(i) == /\ top(i)
                   /\ \/ rivals(i) = {i}
                      \/ cs[i].hasName /\ \A j \in rivals(i) \ {i} : ~cs[j].hasName IN
    {i \in idx : wins(i)}

Winners(S) == WinnersOf(Candidates(S))

\* ------------------------------------------------------- the implementation's algorithm
\* stable sort by (name, depth, explicitly named first), keep the first of each name group if
\* it dominates the second
RECURSIVE SeqLessStr(_, _)
SeqLessStr(a, b) == IF a = <<>> THEN b # <<>> ELSE IF b = <<>> THEN FALSE
                    ELSE IF a[1] # b[1] THEN a[1] < b[1] ELSE SeqLessStr(Tail(a), Tail(b))

WinnersBySortingOf(cs) ==
    LET order == SortSeq([i \in 1..Len(cs) |-> i], LAMBDA x, y :
                    \/ SeqLessStr(cs[x].name, cs[y].name)
                    \/ cs[x].name = cs[y].name /\ cs[x].depth < cs[y].depth
                    \/ cs[x].name = cs[y].name /\ cs[x].depth = cs[y].depth /\ cs[x].hasName /\ ~cs[y].hasName
                    \/ cs[x].name = cs[y].name /\ cs[x].depth = cs[y].depth /\ cs[x].hasName = cs[y].hasName /\ x < y)
        first(k) == k = 1 \/ cs[order[k - 1]].name # cs[order[k]].name
        groupOf(k) == {m \in 1..Len(order) : cs[order[m]].name = cs[order[k]].name}
        keep(k) == first(k) /\
                   (\/ Cardinality(groupOf(k)) = 1
                    \/ cs[order[k]].depth # cs[order[k + 1]].depth
                    \/ cs[order[k]].hasName # cs[order[k + 1]].hasName) IN
    {order[k] : k \in {k \in 1..Len(order) : keep(k)}}

WinnersBySorting(S) == WinnersBySortingOf(Candidates(S))

\* ------------------------------------------------------- marshal order and lookup
\* winners in depth-first source order (lexicographic order of their index paths)
MarshalOrderOf(cs, w) == SortSeq(SetToSeq(w), LAMBDA x, y : SeqLessStr(cs[x].path, cs[y].path))
MarshalOrder(S) == MarshalOrderOf(Candidates(S), Winners(S))

\* names are sequences of code points; folding drops '_' and '-' and maps every letter to the
\* smallest code point of its set under Unicode simple case folding: ASCII letters to upper case,
\* and - for the cased non-ASCII letters the universes use - the sets listed here
\* (K k KELVIN SIGN; S s LONG S; E-acute; the three sigmas; DZ-caron in three cases; Roman eight;
\* circled A; micro and mu; A-ring and ANGSTROM SIGN; sharp s)
FoldSets == {{75, 107, 8490}, {83, 115, 383}, {201, 233}, {931, 962, 963}, {452, 453, 454}, {8551, 8567},
             {9398, 9424}, {181, 924, 956}, {197, 229, 8491}, {223, 7838}}
FoldCp(c) == IF \E s \in FoldSets : c \in s
             THEN LET s == CHOOSE x \in FoldSets : c \in x IN CHOOSE m \in s : \A y \in s : m <= y
             ELSE IF c \in 97..122 THEN c - 32 ELSE c
Fold(name) == LET keep == SelectSeq(name, LAMBDA c : c # 95 /\ c # 45) IN
              [i \in 1..Len(keep) |-> FoldCp(keep[i])]

\* result of looking up a member name: <<"field", id>> | <<"unknown">> | <<"ambiguous">>
LookupIn(cs, w, name, insensitive) ==
    LET exact == {i \in w : cs[i].name = name}
        folded == {i \in w : Fold(cs[i].name) = Fold(name) /\
                              (cs[i].f.casing = 1 \/ (insensitive /\ cs[i].f.casing # 2))} IN
    IF exact # {} THEN <<"field", CHOOSE i \in exact : TRUE>>
    ELSE IF Cardinality(folded) > 1 THEN <<"ambiguous">>
    ELSE IF folded # {} THEN <<"field", CHOOSE i \in folded : TRUE>>
    ELSE <<"unknown">>

Lookup(S, name, insensitive) == LookupIn(Candidates(S), Winners(S), name, insensitive)

\* ------------------------------------------------------- omit options
\* value classes of a leaf: "zero" (0, "", nil slice), "empty" (non-nil empty slice; same as zero
\* for int and str), "full"
\* a leaf of kind "zeroer" is an integer type with an IsZero() method that answers v = -1: its value
\* classes are "zero" (the Go zero value, but IsZero() is false), "empty" (-1: IsZero() is true)
\* and "full"; omitzero follows the method, as documented
Omitted(f, vc, omitZeroOpt) ==
    \/ (f.omitzero \/ omitZeroOpt) /\
         (IF f.kind = "zeroer" THEN vc = "empty" ELSE (vc = "zero" \/ (vc = "empty" /\ f.kind # "slice")))
    \/ f.omitempty /\ vc \in {"zero", "empty"} /\ f.kind \in {"str", "slice"}
=============================================================================
