---------------------------- MODULE Trace_Numbers ----------------------------
(* Trace validation for floating-point conversions (C10).                     *)
(*  fmt   a float (32 or 64 bit) with the text every formatting path produced *)
(*        (AppendFloat, Marshal, Float token, nested in a map), the           *)
(*        projection's shortest digits [neg, d, n], and the projection's      *)
(*        facts: the text parses back to the identical bits (rt), no shorter  *)
(*        decimal lies in the rounding interval (short).  The specification   *)
(*        decides the layout: ECMA-262 Number::toString, -0 stays -0.         *)
(*  parse a number literal with what Unmarshal / Token.Float made of it and   *)
(*        the projection's facts (math/big): the result is the correctly      *)
(*        rounded value on every route (round), the value overflows (ovf).    *)
(*        The specification requires round, and an error exactly on overflow. *)
EXTENDS Numbers, TLC, Json, IOUtils

T == ndJsonDeserialize(IOEnv.VERIF_TRACE)

VARIABLES l, rej

Check(rec) ==
    IF rec.panic # "" THEN <<"C20", "panic">>
    ELSE IF rec.kind = "fmt"
    THEN LET p == rec.proj
             want == IF p[2] = <<>> THEN (IF p[1] THEN <<45, 48>> ELSE <<48>>) ELSE EcmaLayout(p[1], p[2], p[3]) IN
         IF \E i \in 1..Len(rec.outs) : rec.outs[i] # want THEN <<"C10", "layout", want>>
         ELSE IF ~rec.rt THEN <<"C10", "not-round-trip">>
         ELSE IF ~rec.short THEN <<"C10", "not-shortest">>
         ELSE <<>>
    ELSE IF rec.kind = "typed"
    THEN \* a token built from a Go number; rec.lit is the exact decimal text of its value
         LET nf == Normal(rec.lit)
             want == IF rec.acc = "int" THEN ValueInt(nf) ELSE ValueUint(nf) IN
         IF rec.acc \in {"int", "uint"}
         THEN IF rec.toke # want.err THEN <<"C10", "typed-token-error", want.err>>
              ELSE IF (TruncDecidable(nf) \/ want.err = "nil") /\ rec.gotmag # want.v.mag THEN <<"C10", "typed-token-value", want.v.mag>>
              ELSE IF (TruncDecidable(nf) \/ want.err = "nil") /\ rec.gotneg # (want.v.neg /\ want.v.mag # <<0>>) THEN <<"C10", "typed-token-sign">>
              ELSE <<>>
         ELSE \* Float / Float32 accessor: a range error exactly when the value overflows the width
              IF (rec.toke = "range") # rec.ovf \/ rec.toke \notin {"nil", "range"} THEN <<"C10", "typed-token-float-error", rec.ovf>>
              ELSE IF ~rec.round THEN <<"C10", "typed-token-float-value">>
              ELSE <<>>
    ELSE IF ~rec.round THEN <<"C10", "not-correctly-rounded">>
         ELSE IF rec.err # rec.ovf THEN <<"C10", "overflow-error", rec.ovf>>
         ELSE IF (rec.toke = "range") # rec.ovf \/ rec.toke \notin {"nil", "range"} THEN <<"C10", "token-float-error", rec.ovf>>
         ELSE <<>>

Init == l = 1 /\ rej = <<>>

Next == /\ l <= Len(T)
        /\ l' = l + 1
        /\ LET c == Check(T[l]) IN
           rej' = IF c = <<>> THEN rej ELSE Append(rej, <<T[l].id, c[1], c>>)

Spec == Init /\ [][Next]_<<l, rej>>

Done == l = Len(T) + 1 => PrintT(ToJson(<<"REJ", rej>>))
Consumed == TLCGet("stats").diameter = Len(T) + 1
=============================================================================
