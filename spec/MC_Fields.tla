------------------------------ MODULE MC_Fields ------------------------------
(* All struct type graphs of a bounded grammar (given as the constant Types).  *)
(* Model theorem: the documented resolution rules (Winners) select exactly the *)
(* fields the implementation's sort-and-scan algorithm selects.                *)
(* Every type is emitted with the predicted member order, the field each probe *)
(* name is stored into (with and without case-insensitive matching) and which  *)
(* members are omitted for each value class.                                   *)
EXTENDS Fields, TLC, Json

CONSTANTS Types, Probes, EmitCases

VARIABLE ti

Init == ti \in 1..Len(Types)
Next == UNCHANGED ti
Spec == Init /\ [][Next]_ti

\* constant-level: computed once per type by TLC
Data == [i \in 1..Len(Types) |->
            LET cs == Candidates(Types[i])
                w == WinnersOf(cs) IN
            [cs |-> cs, w |-> w, alg |-> WinnersBySortingOf(cs), order |-> MarshalOrderOf(cs, w)]]

S == Types[ti]
D == Data[ti]

RulesEqualAlgorithm == D.w = D.alg

\* no two winners share a name: Marshal cannot emit a duplicate member through embedding
UniqueNames == \A i, j \in D.w : D.cs[i].name = D.cs[j].name => i = j

Res(r) == IF r[1] = "field" THEN <<"field", D.cs[r[2]].path>> ELSE r

EmitInv == EmitCases =>
    PrintT(ToJson(<<S,
                    [k \in 1..Len(D.order) |-> LET c == D.cs[D.order[k]] IN
                                                 <<c.name, c.path, c.f.str, c.f.kind, c.viaptr,
                                                   Omitted(c.f, "zero", FALSE), Omitted(c.f, "empty", FALSE),
                                                   Omitted(c.f, "zero", TRUE), Omitted(c.f, "empty", TRUE)>>],
                    [p \in 1..Len(Probes) |-> <<Probes[p], Res(LookupIn(D.cs, D.w, Probes[p], FALSE)),
                                                 Res(LookupIn(D.cs, D.w, Probes[p], TRUE))>>]>>))
=============================================================================
