package main

import (
	"bytes"
	"errors"
	"fmt"
	"io"
	"runtime"
	"sync/atomic"
	"testing/iotest"

	jsonv2 "github.com/go-json-experiment/json"
	"github.com/go-json-experiment/json/jsontext"
)

// optAt mirrors MC_C01!OptAt: 1 strict, 2 AllowDuplicateNames, 3 AllowInvalidUTF8, 4 both.
func optAt(i int) []jsontext.Options {
	return []jsontext.Options{
		jsontext.AllowInvalidUTF8(i == 3 || i == 4),
		jsontext.AllowDuplicateNames(i == 2 || i == 4),
	}
}

var c01Entries = []string{"isvalid", "unmarshal", "values", "tokens", "values1", "tokens1", "valuesbuf", "tokensbuf"}

// acceptance observation of one entry point: for isvalid/unmarshal "accepted
// as exactly one JSON text", for the decoder loops "ended with io.EOF".
func c01Observe(entry string, b []byte, oi int) (res bool, panicked any) {
	defer func() {
		if r := recover(); r != nil {
			panicked = r
		}
	}()
	opts := optAt(oi)
	loop := func(r io.Reader, tokens bool) bool {
		d := jsontext.NewDecoder(r, opts...)
		for {
			var err error
			if tokens {
				_, err = d.ReadToken()
			} else {
				_, err = d.ReadValue()
			}
			if err != nil {
				return err == io.EOF
			}
		}
	}
	switch entry {
	case "isvalid":
		return jsontext.Value(b).IsValid(opts...), nil
	case "unmarshal":
		var v any
		jo := []jsonv2.Options{opts[0], opts[1]}
		return jsonv2.Unmarshal(b, &v, jo...) == nil, nil
	case "values":
		return loop(bytes.NewReader(b), false), nil
	case "tokens":
		return loop(bytes.NewReader(b), true), nil
	case "values1":
		return loop(iotest.OneByteReader(bytes.NewReader(b)), false), nil
	case "tokens1":
		return loop(iotest.OneByteReader(bytes.NewReader(b)), true), nil
	case "valuesbuf":
		return loop(bytes.NewBuffer(append([]byte(nil), b...)), false), nil
	case "tokensbuf":
		return loop(bytes.NewBuffer(append([]byte(nil), b...)), true), nil
	}
	panic("unknown entry " + entry)
}

type c01Mismatch struct {
	Prop  string `json:"prop"`
	B     []int  `json:"b"`
	Text  string `json:"text"`
	Entry string `json:"entry"`
	Opt   int    `json:"opt"`
	Code  int    `json:"code"`
	Want  bool   `json:"want"`
	Got   bool   `json:"got"`
	Panic string `json:"panic,omitempty"`
}

// c01Want is the observation predicted from the spec's verdict code:
// 0 dead, 1 viable but incomplete, 2 valid stream (not one text), 3 one text.
func c01Want(entry string, code int) bool {
	if entry == "isvalid" || entry == "unmarshal" {
		return code == 3
	}
	return code >= 2
}

func c01Check(b []byte, codes []int, bigexp bool, out *sink) (evals int) {
	for oi := 1; oi <= 4; oi++ {
		for _, e := range c01Entries {
			if e == "unmarshal" && bigexp {
				continue // float64 overflow is decided by C03/C10
			}
			if e == "unmarshal" && (oi == 2 || oi == 4) && codes[oi-1] == 3 && codes[oi-2] != 3 {
				continue // allowed duplicates are merged (C14); merging may fail for type reasons
			}
			want := c01Want(e, codes[oi-1])
			got, p := c01Observe(e, b, oi)
			evals++
			if p != nil || got != want {
				m := c01Mismatch{Prop: "C01", B: ints(b), Text: fmt.Sprintf("%q", b), Entry: e, Opt: oi, Code: codes[oi-1], Want: want, Got: got}
				if p != nil {
					m.Prop = "C20"
					m.Panic = fmt.Sprint(p)
				}
				out.put(m)
			}
		}
	}
	return evals
}

// replay-c01 cases=<TLC output> out=<mismatch file>
func replayC01(args map[string]string) error {
	out, err := newMismatchSink(argStr(args, "out", "/dev/null"))
	if err != nil {
		return err
	}
	defer out.close()
	var cases, evals, valid atomic.Int64
	err = parallelLines(args["cases"], runtime.NumCPU(), func(line []byte) {
		var rec []any
		if err := jsonv2.Unmarshal(line, &rec); err != nil || len(rec) != 3 {
			return
		}
		bs := rec[0].([]any)
		b := make([]byte, len(bs))
		for i, x := range bs {
			b[i] = byte(x.(float64))
		}
		cs := rec[1].([]any)
		codes := make([]int, 4)
		for i := range codes {
			codes[i] = int(cs[i].(float64))
		}
		if codes[0] == 3 {
			valid.Add(1)
		}
		evals.Add(int64(c01Check(b, codes, rec[2].(bool), out)))
		cases.Add(1)
	})
	if err != nil {
		return err
	}
	summary(map[string]any{"cases": cases.Load(), "evaluations": evals.Load(), "valid_strict": valid.Load(), "mismatches": out.n})
	return nil
}

func init() {
	commands["replay-c01"] = replayC01
	_ = errors.New
}

type c01Rec struct {
	ID    int      `json:"id"`
	Kind  string   `json:"kind"`
	B     []int    `json:"b"`
	Got   [][]bool `json:"got"`
	Panic string   `json:"panic"`
}

func c01Record(id int, kind string, b []byte) c01Rec {
	rec := c01Rec{ID: id, Kind: kind, B: ints(b)}
	for oi := 1; oi <= 4; oi++ {
		row := make([]bool, len(c01Entries))
		for i, e := range c01Entries {
			got, p := c01Observe(e, b, oi)
			if p != nil {
				rec.Panic = fmt.Sprintf("%s opt %d: %v", e, oi, p)
			}
			row[i] = got
		}
		rec.Got = append(rec.Got, row)
	}
	return rec
}

// c01Inputs generates the driver's inputs: grammar-generated texts, byte-level
// mutations of them, wide objects around the name-lookup switch, and texts
// nested around the depth limit.
func c01Inputs(seed uint64, n int, deep bool, emit func(kind string, b []byte)) {
	r := newRng(seed, 1)
	for i := 0; i < n; i++ {
		c := randCfg(r)
		t := genText(r, c)
		switch r.IntN(10) {
		case 0, 1, 2:
			emit("gen", t)
		case 3: // stream of several texts
			u := append(append([]byte(nil), t...), []byte{' ', '\n'}[r.IntN(2)])
			emit("stream", append(u, genText(r, c)...))
		case 4, 5:
			long := r.IntN(2) == 0
			nn := 1 + r.IntN(80)
			if r.IntN(2) == 0 {
				nn = 60 + r.IntN(20) // around the switch from linear search to a map
			}
			dup := -1
			switch r.IntN(6) {
			case 0:
			case 1:
				dup = 0
			case 2:
				dup = nn - 1
			case 3:
				dup = -2 - r.IntN(3) // at or next to the switch of the name set
			default:
				dup = r.IntN(nn)
			}
			emit("wide", wideObject(r, nn, long, dup, r.IntN(2) == 0))
		default:
			emit("mut", mutate(r, t))
		}
	}
	if deep {
		for _, d := range []int{9999, 10000, 10001, 10002} {
			pats := []func(i int) bool{
				func(i int) bool { return false },
				func(i int) bool { return true },
				func(i int) bool { return i%2 == 0 },
				func(i int) bool { return i == d-1 }, // arrays around an innermost object
				func(i int) bool { return i != d-1 }, // objects around an innermost array
				func(i int) bool { return i >= 5000 },
			}
			for pi, p := range pats {
				if pi >= 5 && d != 10000 && d != 10001 {
					continue
				}
				emit("deep", nested(d, p, ""))
				if pi < 2 {
					emit("deep", nested(d-1, p, "0"))
					emit("deep", nested(d-1, p, `{"b":[]}`))
				}
			}
		}
	}
}

// drive-c01 seed=N n=N deep=0|1 out=<ndjson> [redo=<file of records>]
func driveC01(args map[string]string) error {
	out, err := newSink(args["out"])
	if err != nil {
		return err
	}
	defer out.close()
	id := 0
	if redo := args["redo"]; redo != "" {
		err := tlcLines(redo, func(line []byte) {
			var rec c01Rec
			if jsonv2.Unmarshal(line, &rec) == nil {
				out.put(c01Record(rec.ID, rec.Kind, bytesOf(rec.B)))
			}
		})
		summary(map[string]any{"cases": out.n})
		return err
	}
	type job struct {
		id   int
		kind string
		b    []byte
	}
	ch := make(chan job, 256)
	done := make(chan struct{})
	var total atomic.Int64
	for w := 0; w < runtime.NumCPU(); w++ {
		go func() {
			for j := range ch {
				out.put(c01Record(j.id, j.kind, j.b))
				total.Add(int64(len(j.b)))
			}
			done <- struct{}{}
		}()
	}
	c01Inputs(uint64(argInt(args, "seed", 1)), argInt(args, "n", 1000), argInt(args, "deep", 0) == 1, func(kind string, b []byte) {
		id++
		ch <- job{id, kind, b}
	})
	close(ch)
	for w := 0; w < runtime.NumCPU(); w++ {
		<-done
	}
	summary(map[string]any{"cases": id, "bytes": total.Load()})
	return nil
}

func init() { commands["drive-c01"] = driveC01 }
