package main

import (
	"runtime"
	"slices"
	"sync/atomic"

	jsonv2 "github.com/go-json-experiment/json"
	"github.com/go-json-experiment/json/jsontext"
)

func strOf(x any) string { return string(bytesOf(toInts(x))) }

// replay-ptr cases=<TLC out> out=<mismatches>: jsontext.Pointer methods against MC_Pointer's predictions.
func replayPtr(args map[string]string) error {
	out, err := newMismatchSink(argStr(args, "out", "/dev/null"))
	if err != nil {
		return err
	}
	defer out.close()
	var cases, evals atomic.Int64
	err = parallelLines(args["cases"], runtime.NumCPU(), func(line []byte) {
		var rec []any
		if err := jsonv2.Unmarshal(line, &rec); err != nil || len(rec) < 3 {
			return
		}
		cases.Add(1)
		bad := func(what string, got, want any) {
			out.put(map[string]any{"prop": "C16", "family": "ptr", "case": rec, "what": what, "got": got, "want": want})
		}
		defer func() {
			if r := recover(); r != nil {
				out.put(map[string]any{"prop": "C20", "family": "ptr", "case": rec, "what": "panic"})
			}
		}()
		switch rec[0].(string) {
		case "toks":
			var toks []string
			for _, t := range rec[1].([]any) {
				toks = append(toks, strOf(t))
			}
			want, parent, last := strOf(rec[2]), strOf(rec[3]), strOf(rec[4])
			p := jsontext.Pointer("")
			for _, t := range toks {
				p = p.AppendToken(t)
			}
			evals.Add(6)
			if string(p) != want {
				bad("AppendToken", string(p), want)
			}
			if got := slices.Collect(p.Tokens()); !slices.Equal(got, toks) {
				bad("Tokens", got, toks)
			}
			if string(p.Parent()) != parent {
				bad("Parent", string(p.Parent()), parent)
			}
			if p.LastToken() != last {
				bad("LastToken", p.LastToken(), last)
			}
			if !p.IsValid() {
				bad("IsValid", false, true)
			}
			if !p.Parent().Contains(p) || !p.Contains(p) || (len(toks) > 0 && p.Contains(p.Parent())) {
				bad("Contains", nil, nil)
			}
		case "str":
			s := strOf(rec[1])
			valid := rec[2].(bool)
			evals.Add(1)
			p := jsontext.Pointer(s)
			if p.IsValid() != valid {
				bad("IsValid", p.IsValid(), valid)
			}
			if valid {
				var toks []string
				for _, t := range rec[3].([]any) {
					toks = append(toks, strOf(t))
				}
				evals.Add(2)
				if got := slices.Collect(p.Tokens()); !slices.Equal(got, toks) {
					bad("Tokens", got, toks)
				}
				if string(p.Parent()) != strOf(rec[4]) {
					bad("Parent", string(p.Parent()), strOf(rec[4]))
				}
			}
		}
	})
	if err != nil {
		return err
	}
	summary(map[string]any{"cases": cases.Load(), "evaluations": evals.Load(), "mismatches": out.n})
	return nil
}

func init() { commands["replay-ptr"] = replayPtr }
