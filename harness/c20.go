package main

import (
	"fmt"
	"os"
	"os/exec"
	"strings"
	"time"

	jsonv2 "github.com/go-json-experiment/json"
	"github.com/go-json-experiment/json/jsontext"
)

// Go values for property C20: deeply nested values and (possibly cyclic) heaps.
//
// A heap is a list of nodes [kind, successors]:
//
//	"leaf"           an int
//	"slice"          []any holding its successors
//	"map"            map[string]any holding its successors
//	"ptr"            *any pointing at a variable holding its (single) successor
//	"struct"         *struct{ Next any } with Next = its (single) successor
//
// The value of a node used as a successor is the reference itself (slice header, map, pointer),
// so the Go value is cyclic exactly when the graph has a cycle reachable from the root.
type heapNode struct {
	Kind string `json:"kind"`
	Succ []int  `json:"succ"`
}

type c20Case struct {
	ID      int        `json:"id"`
	Prop    string     `json:"prop"`
	Name    string     `json:"name"`
	Kind    string     `json:"kind"` // "heap" | "nest"
	Nodes   []heapNode `json:"nodes"`
	Root    int        `json:"root"`
	Shape   []string   `json:"shape"` // nest: container kinds from the outside in: "s" slice, "m" map, "p" pointer, "i" interface
	Repeat  int        `json:"repeat"`
	Leaf    string     `json:"leaf"`    // nest: what sits innermost: "" an int; empty containers of several types otherwise
	Opt     string     `json:"opt"`     // awk: option set
	Calls   int        `json:"calls"`   // awk: calls made
	Panics  [][]string `json:"panics"`  // awk: [call, panic text]
	Outcome string     `json:"outcome"` // ok | err | panic | crash | timeout
	Detail  string     `json:"detail"`
}

type selfStruct struct{ Next any }

func buildHeap(nodes []heapNode, root int) any {
	vals := make([]any, len(nodes))
	slices := make([][]any, len(nodes))
	maps := make([]map[string]any, len(nodes))
	ptrs := make([]*any, len(nodes))
	structs := make([]*selfStruct, len(nodes))
	for i, n := range nodes {
		switch n.Kind {
		case "leaf":
			vals[i] = i
		case "slice":
			slices[i] = make([]any, len(n.Succ))
			vals[i] = slices[i]
		case "map":
			maps[i] = map[string]any{}
			vals[i] = maps[i]
		case "ptr":
			ptrs[i] = new(any)
			vals[i] = ptrs[i]
		case "struct":
			structs[i] = &selfStruct{}
			vals[i] = structs[i]
		}
	}
	for i, n := range nodes {
		for k, j := range n.Succ {
			switch n.Kind {
			case "slice":
				slices[i][k] = vals[j]
			case "map":
				maps[i][fmt.Sprintf("k%d", k)] = vals[j]
			case "ptr":
				*ptrs[i] = vals[j]
			case "struct":
				structs[i].Next = vals[j]
			}
		}
	}
	return vals[root]
}

// buildNest builds repeat copies of the shape nested inside each other around a leaf.
func leafValue(leaf string) any {
	switch leaf {
	case "es":
		return []any{}
	case "ns":
		return []any(nil)
	case "em":
		return map[string]any{}
	case "nm":
		return map[string]any(nil)
	case "ti":
		return []int{}
	case "tm":
		return map[string]int{}
	case "st":
		return struct{}{}
	case "sx":
		return struct{ X []int }{}
	case "a0":
		return [0]int{}
	case "pe":
		return &[]string{}
	}
	return 7
}

func buildNest(shape []string, repeat int, leaf string) any {
	v := leafValue(leaf)
	for r := 0; r < repeat; r++ {
		for i := len(shape) - 1; i >= 0; i-- {
			switch shape[i] {
			case "s":
				v = []any{v}
			case "m":
				v = map[string]any{"a": v}
			case "p":
				x := v
				v = &x
			case "i":
				var x any = v
				v = x
			}
		}
	}
	return v
}

func c20Run(c *c20Case) {
	defer func() {
		if r := recover(); r != nil {
			c.Outcome, c.Detail = "panic", fmt.Sprint(r)
		}
	}()
	if c.Kind == "awk" {
		c.Calls, c.Panics = awkRun(awkTypes[c.Root], awkOptSets[c.Opt])
		c.Outcome = "ok"
		if len(c.Panics) > 0 {
			c.Outcome, c.Detail = "panic", c.Panics[0][0]+": "+c.Panics[0][1]
			if len(c.Panics) > 8 {
				c.Panics = c.Panics[:8]
			}
		}
		return
	}
	var v any
	if c.Kind == "heap" {
		v = buildHeap(c.Nodes, c.Root)
	} else {
		v = buildNest(c.Shape, c.Repeat, c.Leaf)
	}
	b, err := jsonv2.Marshal(v)
	if err != nil {
		c.Outcome, c.Detail = "err", ""
		return
	}
	c.Outcome = "ok"
	if !jsontext.Value(b).IsValid() {
		c.Outcome, c.Detail = "panic", "Marshal returned invalid JSON"
	}
}

// c20-child case=<json>: executes one case in this process (the parent isolates crashes).
func c20Child(args map[string]string) error {
	var c c20Case
	if err := jsonv2.Unmarshal([]byte(args["case"]), &c); err != nil {
		return err
	}
	c20Run(&c)
	fmt.Println("OUTCOME " + c.Outcome + " " + c.Detail)
	return nil
}

func c20Isolated(c *c20Case) {
	b, _ := jsonv2.Marshal(c)
	cmd := exec.Command(os.Args[0], "c20-child", "case="+string(b))
	cmd.Env = append(os.Environ(), "GOTRACEBACK=none")
	done := make(chan struct{})
	var outb []byte
	var err error
	go func() { outb, err = cmd.CombinedOutput(); close(done) }()
	select {
	case <-done:
	case <-time.After(120 * time.Second):
		cmd.Process.Kill()
		<-done
		c.Outcome, c.Detail = "timeout", ""
		return
	}
	for _, line := range strings.Split(string(outb), "\n") {
		if rest, ok := strings.CutPrefix(line, "OUTCOME "); ok {
			c.Outcome, c.Detail, _ = strings.Cut(rest, " ")
			return
		}
	}
	c.Outcome = "crash"
	c.Detail = strings.SplitN(string(outb), "\n", 2)[0]
	_ = err
}

func c20Cases() []c20Case {
	var cs []c20Case
	add := func(c c20Case) {
		c.ID = len(cs) + 1
		c.Prop = "C20"
		if c.Nodes == nil {
			c.Nodes = []heapNode{}
		}
		if c.Panics == nil {
			c.Panics = [][]string{}
		}
		if c.Shape == nil {
			c.Shape = []string{}
		}
		cs = append(cs, c)
	}
	n := func(kind string, succ ...int) heapNode {
		if succ == nil {
			succ = []int{}
		}
		return heapNode{Kind: kind, Succ: succ}
	}
	kinds := []string{"slice", "map", "struct"}
	// self loops and two-cycles through every container kind (each step adds JSON depth)
	for _, k := range kinds {
		add(c20Case{Name: "self-" + k, Kind: "heap", Nodes: []heapNode{n(k, 0)}})
		for _, k2 := range kinds {
			add(c20Case{Name: "two-" + k + "-" + k2, Kind: "heap", Nodes: []heapNode{n(k, 1), n(k2, 0)}})
			add(c20Case{Name: "dag-" + k + "-" + k2, Kind: "heap", Nodes: []heapNode{n(k, 1, 2), n(k2, 2), n("leaf")}}) // shared, acyclic
			add(c20Case{Name: "tail-" + k + "-" + k2, Kind: "heap", Nodes: []heapNode{n(k, 1), n(k2, 2), n("slice", 1)}})
		}
		add(c20Case{Name: "viaptr-" + k, Kind: "heap", Nodes: []heapNode{n(k, 1), n("ptr", 0)}})
	}
	// cycles that pass only through pointers and interfaces: no JSON nesting is added
	add(c20Case{Name: "nodepth-ptr-self", Kind: "heap", Nodes: []heapNode{n("ptr", 0)}})
	add(c20Case{Name: "nodepth-ptr-two", Kind: "heap", Nodes: []heapNode{n("ptr", 1), n("ptr", 0)}})
	add(c20Case{Name: "acyclic-ptr-chain", Kind: "heap", Nodes: []heapNode{n("ptr", 1), n("ptr", 2), n("leaf")}})
	// nesting around the limit through every container kind
	for _, d := range []int{9999, 10000, 10001} {
		add(c20Case{Name: fmt.Sprintf("nest-slice-%d", d), Kind: "nest", Shape: []string{"s"}, Repeat: d})
		add(c20Case{Name: fmt.Sprintf("nest-map-%d", d), Kind: "nest", Shape: []string{"m"}, Repeat: d})
		add(c20Case{Name: fmt.Sprintf("nest-ptrslice-%d", d), Kind: "nest", Shape: []string{"p", "s", "i"}, Repeat: d})
	}
	// the innermost value is itself a container, of every kind that has a short cut for "empty"
	for _, leaf := range []string{"es", "ns", "em", "nm", "ti", "tm", "st", "sx", "a0", "pe"} {
		for _, d := range []int{9998, 9999, 10000} {
			add(c20Case{Name: fmt.Sprintf("leaf-%s-slice-%d", leaf, d), Kind: "nest", Shape: []string{"s"}, Repeat: d, Leaf: leaf})
			add(c20Case{Name: fmt.Sprintf("leaf-%s-map-%d", leaf, d), Kind: "nest", Shape: []string{"m"}, Repeat: d, Leaf: leaf})
		}
	}
	// struct shapes reflection can only half reach: no input may make a call panic
	for i, t := range awkTypes {
		for _, o := range []string{"default", "reject", "dups-ci", "v1", "omitzero"} {
			add(c20Case{Name: "awk-" + t.Name() + "-" + o, Kind: "awk", Root: i, Opt: o})
		}
	}
	add(c20Case{Name: "nest-mixed-10000", Kind: "nest", Shape: []string{"s", "m", "p", "s", "i"}, Repeat: 3334}) // 10002 containers
	add(c20Case{Name: "nest-mixed-9999", Kind: "nest", Shape: []string{"s", "m", "p", "s", "i"}, Repeat: 3333})  // 9999 containers
	add(c20Case{Name: "nest-pointers-only", Kind: "nest", Shape: []string{"p", "i"}, Repeat: 20000})             // no JSON nesting at all
	return cs
}

// drive-c20 out=<ndjson> [redo=<records>]
func driveC20(args map[string]string) error {
	out, err := newSink(args["out"])
	if err != nil {
		return err
	}
	defer out.close()
	var cs []c20Case
	if redo := args["redo"]; redo != "" {
		if err := tlcLines(redo, func(line []byte) {
			var c c20Case
			if jsonv2.Unmarshal(line, &c) == nil {
				cs = append(cs, c)
			}
		}); err != nil {
			return err
		}
	} else {
		cs = c20Cases()
	}
	sem := make(chan struct{}, 8)
	done := make(chan struct{})
	for i := range cs {
		go func(c *c20Case) {
			sem <- struct{}{}
			c20Isolated(c)
			<-sem
			done <- struct{}{}
		}(&cs[i])
	}
	for range cs {
		<-done
	}
	for _, c := range cs {
		out.put(c)
	}
	summary(map[string]any{"cases": len(cs)})
	return nil
}

func init() {
	commands["drive-c20"] = driveC20
	commands["c20-child"] = c20Child
}
