package main

import (
	"bytes"
	stdjson "encoding/json"
	"fmt"
	"io"
	"math/rand/v2"
	"reflect"
	"runtime"
	"strconv"
	"strings"
	"sync"
	"sync/atomic"
	"time"

	jsonv2 "github.com/go-json-experiment/json"
	jsonv1 "github.com/go-json-experiment/json/v1"
)

// C09: package v1 against the toolchain's encoding/json.  Every record holds, per step, what
// each of the two implementations answered; nothing here decides the property.

type v1Case struct {
	ID    int      `json:"id"`
	Prop  string   `json:"prop"`
	Kind  string   `json:"kind"` // bytes | marshal | unmarshal | decoder | encoder
	Seed  []uint64 `json:"seed"`
	Input []int    `json:"input"`
	Type  string   `json:"type"`
	Steps [][]any  `json:"steps"` // [name, v1 result, std result]; a result is [ok, rendering]
	Valid bool     `json:"valid"` // std Valid(input) (for the untouched-target clause)
	Panic string   `json:"panic"`
	Toks  []string `json:"toks"` // decoder programs of Token calls only: kinds std returned
	Fed   bool     `json:"fed"`  // decoder programs: the input arrived in pieces written between the calls
}

func res(ok bool, b []byte) []any {
	if b == nil {
		b = []byte{}
	}
	return []any{ok, ints(b)}
}

func v1Type(r *rand.Rand) *tdesc {
	c := &typeCfg{maxDepth: 1 + r.IntN(4), maxFields: 1 + r.IntN(6), tags: true, anys: true, floats: true, plainNames: true,
		mapKeys: []string{"string", "int", "uint8"}} // colliding text keys have no defined order in either package
	t := genTypeDesc(r, c, 0)
	// user methods both packages honour
	var walk func(t *tdesc)
	walk = func(t *tdesc) {
		if t == nil {
			return
		}
		switch t.K {
		case "slice", "array", "ptr", "map":
			walk(t.Elem)
		case "struct":
			for i := range t.Fields {
				walk(t.Fields[i].T)
				ft := t.Fields[i].T
				if ft.K == "ptr" {
					ft = ft.Elem
				}
				if ft.K == "struct" && r.IntN(3) == 0 {
					t.Fields[i].Embedded = true // promoted fields: addressability is inherited from the enclosing value
				}
			}
		default:
			switch r.IntN(14) {
			case 0:
				t.K = "cat:marshaler"
			case 1:
				t.K = "cat:text"
			case 2:
				t.K = "cat:ptrmarshaler"
			}
		}
	}
	walk(t)
	return t
}

// a key type of string kind that also has text methods: encoding/json uses the string itself
type v1Level string

func (l v1Level) MarshalText() ([]byte, error) { return []byte("level-" + string(l)), nil }
func (l *v1Level) UnmarshalText(b []byte) error {
	*l = v1Level(strings.TrimPrefix(string(b), "level-"))
	return nil
}

// interfaces that merely include the marshal methods, and implementations that tolerate a nil receiver
type v1Entity interface {
	MarshalJSON() ([]byte, error)
	Other()
}
type v1TextEntity interface {
	MarshalText() ([]byte, error)
	Other()
}
type v1NilSafe struct{ N int }

func (p *v1NilSafe) MarshalJSON() ([]byte, error) {
	if p == nil {
		return []byte(`"nil-receiver"`), nil
	}
	return []byte(fmt.Sprintf(`{"n":%d}`, p.N)), nil
}
func (p *v1NilSafe) Other() {}

type v1NilSafeText struct{}

func (p *v1NilSafeText) MarshalText() ([]byte, error) {
	if p == nil {
		return []byte("nil-receiver"), nil
	}
	return []byte("text"), nil
}
func (p *v1NilSafeText) Other() {}

// uPtrMarshaler has pointer-receiver methods only (addressability matters in v1 semantics)
type uPtrMarshaler struct{ ID int }

func (u *uPtrMarshaler) MarshalJSON() ([]byte, error) {
	return []byte(fmt.Sprintf(`"ptr%d"`, u.ID)), nil
}
func (u *uPtrMarshaler) UnmarshalJSON(b []byte) error { u.ID = len(b); return nil }

func (u *uMarshaler) UnmarshalJSON(b []byte) error { u.ID = len(b) % 7; return nil }
func (u *uText) UnmarshalText(b []byte) error      { u.ID = len(b) % 5; return nil }

func init() {
	catalogTypes["cat:ptrmarshaler"] = reflect.TypeOf(uPtrMarshaler{})
}

func render2(v any) []byte { return []byte(fmt.Sprintf("%#v", derefAll(reflect.ValueOf(v)))) }

// derefAll renders a value with pointers followed (addresses differ between the two runs)
func derefAll(v reflect.Value) string {
	var sb strings.Builder
	var walk func(v reflect.Value, d int)
	walk = func(v reflect.Value, d int) {
		if !v.IsValid() {
			sb.WriteString("<invalid>")
			return
		}
		if d > 40 {
			sb.WriteString("...")
			return
		}
		switch v.Kind() {
		case reflect.Pointer, reflect.Interface:
			if v.IsNil() {
				sb.WriteString("nil")
				return
			}
			sb.WriteString("&")
			walk(v.Elem(), d+1)
		case reflect.Struct:
			sb.WriteString("{")
			for i := 0; i < v.NumField(); i++ {
				walk(v.Field(i), d+1)
				sb.WriteString(",")
			}
			sb.WriteString("}")
		case reflect.Slice, reflect.Array:
			if v.Kind() == reflect.Slice && v.IsNil() {
				sb.WriteString("nilslice")
				return
			}
			sb.WriteString("[")
			for i := 0; i < v.Len(); i++ {
				walk(v.Index(i), d+1)
				sb.WriteString(",")
			}
			sb.WriteString("]")
		case reflect.Map:
			if v.IsNil() {
				sb.WriteString("nilmap")
				return
			}
			keys := v.MapKeys()
			strs := make([]string, len(keys))
			for i, k := range keys {
				var ks, vs strings.Builder
				old := sb
				sb = ks
				walk(k, d+1)
				ks = sb
				sb = vs
				walk(v.MapIndex(k), d+1)
				vs = sb
				sb = old
				strs[i] = ks.String() + ":" + vs.String()
			}
			sortStrings(strs)
			sb.WriteString("map[" + strings.Join(strs, " ") + "]")
		default:
			fmt.Fprintf(&sb, "%#v", v.Interface())
		}
	}
	walk(v, 0)
	return sb.String()
}

func sortStrings(s []string) {
	for i := 1; i < len(s); i++ {
		for j := i; j > 0 && s[j] < s[j-1]; j-- {
			s[j], s[j-1] = s[j-1], s[j]
		}
	}
}

func v1Exec(c *v1Case) {
	defer func() {
		if r := recover(); r != nil {
			c.Panic = fmt.Sprint(r)
		}
		if c.Steps == nil {
			c.Steps = [][]any{}
		}
		if c.Input == nil {
			c.Input = []int{}
		}
		if c.Toks == nil {
			c.Toks = []string{}
		}
	}()
	r := rand.New(rand.NewPCG(c.Seed[0], c.Seed[1]))
	step := func(name string, a, b []any) { c.Steps = append(c.Steps, []any{name, a, b}) }
	switch c.Kind {
	case "bytes":
		in := bytesOf(c.Input)
		c.Valid = stdjson.Valid(in)
		step("Valid", res(jsonv1.Valid(in), nil), res(stdjson.Valid(in), nil))
		var b1, b2 bytes.Buffer
		e1, e2 := jsonv1.Compact(&b1, in), stdjson.Compact(&b2, in)
		step("Compact", res(e1 == nil, b1.Bytes()), res(e2 == nil, b2.Bytes()))
		b1.Reset()
		b2.Reset()
		// encoding/json takes any string as prefix and indent
		prefix := []string{"", " ", "\t", ">", "ab", "x\t", ""}[r.IntN(7)]
		indent := []string{"", "  ", "\t", " \t", "ab", "-", ""}[r.IntN(7)]
		e2 = stdjson.Indent(&b2, in, prefix, indent)
		if hungCalls.Load() > 3 {
			step("Indent-skipped-after-hangs", res(true, nil), res(true, nil))
		} else if !watchdog(func() { e1 = jsonv1.Indent(&b1, in, prefix, indent) }) {
			c.Panic = fmt.Sprintf("no termination within %v: v1.Indent(%q, %q, %q)", watchdogLimit, in, prefix, indent)
			step("Indent", res(false, []byte("timeout")), res(e2 == nil, b2.Bytes()))
			b1 = bytes.Buffer{}
		} else {
			step("Indent", res(e1 == nil, b1.Bytes()), res(e2 == nil, b2.Bytes()))
		}
		b1.Reset()
		b2.Reset()
		jsonv1.HTMLEscape(&b1, in)
		stdjson.HTMLEscape(&b2, in)
		step("HTMLEscape", res(true, b1.Bytes()), res(true, b2.Bytes()))
	case "mapkeys":
		// key types beyond strings and integers: a string kind with a text method, floats,
		// pointers, interfaces
		var v any
		var tgt1, tgt2 any
		switch r.IntN(5) {
		case 0:
			v = map[v1Level]int{"hi": 2, "lo": 1}
			tgt1, tgt2 = new(map[v1Level]int), new(map[v1Level]int)
		case 1:
			v = map[float64]string{1.5: "a"}
			tgt1, tgt2 = new(map[float64]string), new(map[float64]string)
		case 2:
			k := "p"
			v = map[*string]int{&k: 1}
			tgt1, tgt2 = new(map[*string]int), new(map[*string]int)
		case 3:
			v = map[any]int{"a": 1}
			tgt1, tgt2 = new(map[any]int), new(map[any]int)
		default:
			v = map[bool]int{true: 1}
			tgt1, tgt2 = new(map[bool]int), new(map[bool]int)
		}
		c.Type = fmt.Sprintf("%T", v)
		b1, e1 := jsonv1.Marshal(v)
		b2, e2 := stdjson.Marshal(v)
		step("Marshal", res(e1 == nil, b1), res(e2 == nil, b2))
		in := []byte([]string{`{"hi":2}`, `{}`, `{"1.5":"a"}`, `null`, `{"true":1}`}[r.IntN(5)])
		c.Input = ints(in)
		e1, e2 = jsonv1.Unmarshal(in, tgt1), stdjson.Unmarshal(in, tgt2)
		r1, r2 := []byte{}, []byte{}
		if e1 == nil {
			r1 = render2(tgt1)
		}
		if e2 == nil {
			r2 = render2(tgt2)
		}
		step("Unmarshal", res(e1 == nil, r1), res(e2 == nil, r2))
	case "unmarshal-quoted":
		// the `string` option: what may stand between the quotes
		type Q struct {
			I int     `json:",string"`
			U uint8   `json:",string"`
			F float64 `json:",string"`
			G float32 `json:",string"`
			B bool    `json:",string"`
			S string  `json:",string"`
			P *int    `json:",string"`
			T *string `json:",string"`
		}
		pool := []string{"1", "-1", "+1", ".5", "1.", "1e2", "1E+2", "NaN", "Inf", "+Inf", "-Inf", "Infinity", "nan", "0x10", "1_0", " 1", "1 ", "", "null", "true", "false",
			"01", "-0", "1.5", "-1.5e-3", "\"abc\"", "\"null\"", "\"\"", "abc", "256", "-129", "1e400", "3.5e38", "9223372036854775808", "0.1e1", "1e0", "TRUE", "nul", "\"\\ud800\"", "\"a\\nb\""}
		fields := []string{"I", "U", "F", "G", "B", "S", "P", "T"}
		var sb strings.Builder
		sb.WriteByte('{')
		for i, k := 0, 1+r.IntN(3); i < k; i++ {
			if i > 0 {
				sb.WriteByte(',')
			}
			q, _ := stdjson.Marshal(pool[r.IntN(len(pool))])
			sb.WriteString(strconv.Quote(fields[r.IntN(len(fields))]) + ":" + string(q))
		}
		sb.WriteByte('}')
		in := []byte(sb.String())
		c.Input, c.Valid, c.Type = ints(in), stdjson.Valid(in), "Q (every field with the string option)"
		var t1, t2 Q
		e1, e2 := jsonv1.Unmarshal(in, &t1), stdjson.Unmarshal(in, &t2)
		r1, r2 := []byte{}, []byte{}
		if e1 == nil {
			r1 = render2(&t1)
		}
		if e2 == nil {
			r2 = render2(&t2)
		}
		step("Unmarshal", res(e1 == nil, r1), res(e2 == nil, r2))
	case "marshal-iface":
		// interface-typed fields (other than any) holding nil pointers, non-nil pointers and nil:
		// encoding/json calls MarshalJSON / MarshalText on a nil pointer receiver
		mk := func(k int) *v1NilSafe {
			switch k {
			case 0:
				return nil
			default:
				return &v1NilSafe{N: k}
			}
		}
		var v any
		switch r.IntN(4) {
		case 0:
			v = struct {
				E v1Entity
				A int
			}{mk(r.IntN(3)), 1}
		case 1:
			v = struct{ M stdjson.Marshaler }{mk(r.IntN(3))}
		case 2:
			v = []v1Entity{mk(0), mk(1), nil}
		default:
			v = map[string]v1TextEntity{"a": (*v1NilSafeText)(nil), "b": &v1NilSafeText{}, "c": nil}
		}
		c.Type = fmt.Sprintf("%T", v)
		b1, e1 := jsonv1.Marshal(v)
		b2, e2 := stdjson.Marshal(v)
		step("Marshal", res(e1 == nil, b1), res(e2 == nil, b2))
	case "marshal":
		t := buildType(v1Type(r))
		c.Type = truncate(t.String(), 300)
		v := genGoValue(r, &valCfg{nils: true, invalidUTF8: true, nonFinite: r.IntN(4) == 0}, t, 0)
		fillCatalogIDs(r, v, 0)
		b1, e1 := jsonv1.Marshal(v.Interface())
		b2, e2 := stdjson.Marshal(v.Interface())
		step("Marshal", res(e1 == nil, b1), res(e2 == nil, b2))
		p := reflect.New(t)
		p.Elem().Set(v)
		b1, e1 = jsonv1.Marshal(p.Interface())
		b2, e2 = stdjson.Marshal(p.Interface())
		step("Marshal-addressable", res(e1 == nil, b1), res(e2 == nil, b2))
		b1, e1 = jsonv1.MarshalIndent(v.Interface(), ">", "  ")
		b2, e2 = stdjson.MarshalIndent(v.Interface(), ">", "  ")
		step("MarshalIndent", res(e1 == nil, b1), res(e2 == nil, b2))
	case "unmarshal-folded":
		// member names that equal a field name only under Unicode simple folding: the Kelvin
		// sign folds to k, the long s to s; '_' and '-' do not fold away in the original
		type S struct {
			Kind  int
			Size  string
			Mask  []int
			KS    map[string]int
			Ask_s int `json:"ask_s"`
		}
		variants := map[rune][]string{'k': {"k", "K", "\u212a"}, 's': {"s", "S", "\u017f"}}
		names := []string{"Kind", "Size", "Mask", "KS", "ask_s"}
		vals := []string{"1", `"x"`, "[1,2]", `{"a":1}`, "5"}
		var sb strings.Builder
		sb.WriteByte('{')
		for i, k := 0, 1+r.IntN(4); i < k; i++ {
			if i > 0 {
				sb.WriteByte(',')
			}
			j := r.IntN(len(names))
			var nm strings.Builder
			for _, ch := range names[j] {
				lower := ch | 0x20
				if vs, ok := variants[lower]; ok && ch < 0x80 {
					nm.WriteString(vs[r.IntN(len(vs))])
				} else if r.IntN(3) == 0 && ch != '_' {
					nm.WriteRune(ch ^ 0x20)
				} else {
					nm.WriteRune(ch)
				}
			}
			if r.IntN(6) == 0 {
				nm.WriteString([]string{"_", "-", "\u212a"}[r.IntN(3)])
			}
			sb.WriteString(strconv.Quote(nm.String()) + ":" + vals[j])
		}
		sb.WriteByte('}')
		in := []byte(sb.String())
		c.Input = ints(in)
		c.Valid = stdjson.Valid(in)
		c.Type = "struct{Kind int; Size string; Mask []int; KS map[string]int; Ask_s int `json:\"ask_s\"`}"
		var t1, t2 S
		d1, d2 := jsonv1.NewDecoder(bytes.NewReader(in)), stdjson.NewDecoder(bytes.NewReader(in))
		if r.IntN(2) == 0 {
			d1.DisallowUnknownFields()
			d2.DisallowUnknownFields()
			step("DisallowUnknownFields", res(true, nil), res(true, nil))
		}
		e1, e2 := d1.Decode(&t1), d2.Decode(&t2)
		r1, r2 := []byte{}, []byte{}
		if e1 == nil {
			r1 = render2(&t1)
		}
		if e2 == nil {
			r2 = render2(&t2)
		}
		step("Decode", res(e1 == nil, r1), res(e2 == nil, r2))
	case "unmarshal":
		td := v1Type(r)
		t := buildType(td)
		c.Type = truncate(t.String(), 300)
		var sb strings.Builder
		genJSONFor(r, td, &sb, 0)
		in := []byte(sb.String())
		switch r.IntN(5) {
		case 0:
			in = mutate(r, in)
		case 1: // case-insensitive names, duplicates: v1 territory
			in = bytes.ToUpper(in)
		}
		c.Input = ints(in)
		c.Valid = stdjson.Valid(in)
		pre := genGoValue(r, &valCfg{nils: true}, t, 0)
		t1, t2 := reflect.New(t), reflect.New(t)
		t1.Elem().Set(pre)
		t2.Elem().Set(deepCopy(pre))
		before := derefAll(t1.Elem())
		e1 := jsonv1.Unmarshal(in, t1.Interface())
		e2 := stdjson.Unmarshal(in, t2.Interface())
		// the decoded values are compared only on success; on a syntax error the target must be untouched
		r1, r2 := []byte{}, []byte{}
		if e1 == nil {
			r1 = []byte(derefAll(t1.Elem()))
		}
		if e2 == nil {
			r2 = []byte(derefAll(t2.Elem()))
		}
		step("Unmarshal", res(e1 == nil, r1), res(e2 == nil, r2))
		step("untouched", res(derefAll(t1.Elem()) == before, nil), res(derefAll(t2.Elem()) == before, nil))
	case "decoder":
		in := bytesOf(c.Input)
		c.Valid = stdjson.Valid(in)
		var rd1, rd2 io.Reader = &scriptedReader{data: in, chunks: []int{1 + r.IntN(40)}}, &scriptedReader{data: in, chunks: []int{1 + r.IntN(40)}}
		// a bytes.Buffer that the caller keeps writing to between the calls
		var bb1, bb2 *bytes.Buffer
		fed := 0
		feed := func() {}
		if r.IntN(4) == 0 {
			bb1, bb2 = &bytes.Buffer{}, &bytes.Buffer{}
			rd1, rd2 = bb1, bb2
			c.Fed = true
			feed = func() {
				if fed < len(in) && r.IntN(2) == 0 {
					k := min(len(in)-fed, 1+r.IntN(30))
					bb1.Write(in[fed : fed+k])
					bb2.Write(in[fed : fed+k])
					fed += k
				}
			}
			feed()
		}
		d1 := jsonv1.NewDecoder(rd1)
		d2 := stdjson.NewDecoder(rd2)
		if r.IntN(3) == 0 {
			d1.UseNumber()
			d2.UseNumber()
			step("UseNumber", res(true, nil), res(true, nil))
		}
		if r.IntN(4) == 0 {
			d1.DisallowUnknownFields()
			d2.DisallowUnknownFields()
			step("DisallowUnknownFields", res(true, nil), res(true, nil))
		}
		allTok := true
		n := 1 + r.IntN(30)
		mode := r.IntN(3)
		for i := 0; i < n; i++ {
			feed()
			op := []string{"Token", "Token", "Token", "More", "Decode", "InputOffset", "DecodeStruct"}[r.IntN(7)]
			if mode == 0 {
				op = "Token"
			}
			switch op {
			case "Token":
				t1, e1 := d1.Token()
				t2, e2 := d2.Token()
				step("Token", res(e1 == nil, []byte(fmt.Sprintf("%T %v", t1, t1))), res(e2 == nil, []byte(fmt.Sprintf("%T %v", t2, t2))))
				if e2 == nil {
					c.Toks = append(c.Toks, fmt.Sprintf("%T", t2))
				} else {
					c.Toks = append(c.Toks, "err")
				}
				if e1 != nil && e2 != nil {
					i = n
				}
			case "More":
				allTok = false
				step("More", res(d1.More(), nil), res(d2.More(), nil))
			case "Decode":
				allTok = false
				var v1, v2 any
				e1, e2 := d1.Decode(&v1), d2.Decode(&v2)
				step("Decode", res(e1 == nil, render2(&v1)), res(e2 == nil, render2(&v2)))
				if e1 != nil && e2 != nil {
					i = n
				}
			case "DecodeStruct":
				allTok = false
				type S struct {
					A int
					B []string
					C map[string]any
				}
				var v1, v2 S
				e1, e2 := d1.Decode(&v1), d2.Decode(&v2)
				r1, r2 := []byte{}, []byte{}
				if e1 == nil {
					r1 = render2(&v1)
				}
				if e2 == nil {
					r2 = render2(&v2)
				}
				step("DecodeStruct", res(e1 == nil, r1), res(e2 == nil, r2))
				if e1 != nil && e2 != nil {
					i = n
				}
			case "InputOffset":
				allTok = false
				step("InputOffset", res(true, []byte(fmt.Sprint(d1.InputOffset()))), res(true, []byte(fmt.Sprint(d2.InputOffset()))))
			}
		}
		// the usual client loop to the end of the input: More, Token, ... until both give up
		// (what a decoder does after it reported an error is not compared)
		failed := false
		for _, st := range c.Steps {
			if !st[1].([]any)[0].(bool) && st[0] != "More" {
				failed = true
			}
		}
		if bb1 != nil { // the rest of the input arrives
			bb1.Write(in[fed:])
			bb2.Write(in[fed:])
			fed = len(in)
		}
		for i := 0; i < 40 && !failed; i++ {
			allTok = false
			step("More", res(d1.More(), nil), res(d2.More(), nil))
			t1, e1 := d1.Token()
			t2, e2 := d2.Token()
			step("Token", res(e1 == nil, []byte(fmt.Sprintf("%T %v", t1, t1))), res(e2 == nil, []byte(fmt.Sprintf("%T %v", t2, t2))))
			if e1 != nil || e2 != nil {
				break
			}
		}
		if !allTok {
			c.Toks = []string{}
		}
		// what is left: Buffered + rest of the reader is the unread input in both
		b1, _ := io.ReadAll(d1.Buffered())
		b2, _ := io.ReadAll(d2.Buffered())
		_ = b1
		_ = b2
	case "encoder":
		var w1, w2 bytes.Buffer
		e1, e2 := jsonv1.NewEncoder(&w1), stdjson.NewEncoder(&w2)
		for i, n := 0, 1+r.IntN(6); i < n; i++ {
			switch r.IntN(4) {
			case 0:
				p, ind := []string{"", ">"}[r.IntN(2)], []string{"", " ", "\t"}[r.IntN(3)]
				e1.SetIndent(p, ind)
				e2.SetIndent(p, ind)
				step("SetIndent", res(true, nil), res(true, nil))
			case 1:
				on := r.IntN(2) == 0
				e1.SetEscapeHTML(on)
				e2.SetEscapeHTML(on)
				step("SetEscapeHTML", res(true, nil), res(true, nil))
			default:
				t := buildType(v1Type(r))
				v := genGoValue(r, &valCfg{nils: true}, t, 0)
				fillCatalogIDs(r, v, 0)
				x1, x2 := e1.Encode(v.Interface()), e2.Encode(v.Interface())
				step("Encode", res(x1 == nil, w1.Bytes()), res(x2 == nil, w2.Bytes()))
			}
		}
	}
}

// watchdog runs f and reports whether it returned in time; a call that does not return keeps
// its goroutine (and a core) until the process exits, so callers stop after a few of them
const watchdogLimit = 10 * time.Second

var hungCalls atomic.Int64

func watchdog(f func()) bool {
	done := make(chan struct{})
	var p any
	go func() {
		defer func() { p = recover(); close(done) }()
		f()
	}()
	select {
	case <-done:
		if p != nil {
			panic(p)
		}
		return true
	case <-time.After(watchdogLimit):
		hungCalls.Add(1)
		return false
	}
}

func deepCopy(v reflect.Value) reflect.Value {
	b, err := stdjson.Marshal(v.Interface())
	out := reflect.New(v.Type())
	if err == nil && stdjson.Unmarshal(b, out.Interface()) == nil && derefAll(out.Elem()) == derefAll(v) {
		return out.Elem()
	}
	return v // shared structure: acceptable for scalars; the untouched clause then uses a zero-like value
}

// drive-v1 seed=N n=N out=<ndjson> [redo=<records>]
func driveV1(args map[string]string) error {
	out, err := newSink(args["out"])
	if err != nil {
		return err
	}
	defer out.close()
	if redo := args["redo"]; redo != "" {
		err := tlcLines(redo, func(line []byte) {
			var c v1Case
			if err := jsonv2.Unmarshal(line, &c); err != nil {
				panic(err)
			}
			c.Steps, c.Toks, c.Panic = nil, nil, ""
			v1Exec(&c)
			out.put(c)
		})
		summary(map[string]any{"cases": out.n})
		return err
	}
	seed, n := uint64(argInt(args, "seed", 1)), argInt(args, "n", 1000)
	var wg sync.WaitGroup
	var nsteps atomic.Int64
	workers := runtime.NumCPU()
	for w := 0; w < workers; w++ {
		wg.Add(1)
		go func(w int) {
			defer wg.Done()
			r := newRng(seed, uint64(3100+w))
			for i := w; i < n; i += workers {
				c := v1Case{ID: i + 1, Prop: "C09", Seed: []uint64{r.Uint64(), r.Uint64()}}
				c.Kind = []string{"bytes", "bytes", "marshal", "marshal", "unmarshal", "unmarshal", "decoder", "decoder", "encoder", "unmarshal-folded", "marshal-iface", "unmarshal-quoted", "mapkeys"}[r.IntN(13)]
				if c.Kind == "bytes" || c.Kind == "decoder" {
					cfg := randCfg(r)
					cfg.bigNums = r.IntN(3) == 0
					in := genText(r, cfg)
					switch r.IntN(5) {
					case 0:
						in = mutate(r, in)
					case 1:
						in = append(append(in, ' '), genText(r, cfg)...)
					}
					if c.Kind == "bytes" && r.IntN(3) == 0 { // trailing whitespace is preserved by Indent
						in = append(in, []string{"\n", "\n  ", " \n\t ", "\n \n", "  ", "\r\n    "}[r.IntN(6)]...)
					}
					if c.Kind == "decoder" && r.IntN(4) == 0 && len(in) > 0 { // input ending anywhere, also after ',' and ':'
						cut := r.IntN(len(in) + 1)
						if r.IntN(2) == 0 { // right after a separator
							var seps []int
							for i, b := range in {
								if b == ',' || b == ':' {
									seps = append(seps, i+1)
								}
							}
							if len(seps) > 0 {
								cut = seps[r.IntN(len(seps))]
							}
						}
						in = in[:cut]
					}
					c.Input = ints(in)
				}
				v1Exec(&c)
				nsteps.Add(int64(len(c.Steps)))
				out.put(c)
			}
		}(w)
	}
	wg.Wait()
	summary(map[string]any{"cases": n, "steps": nsteps.Load()})
	return nil
}

func init() { commands["drive-v1"] = driveV1 }
