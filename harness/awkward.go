package main

import (
	"fmt"
	"reflect"
	"strings"

	jsonv2 "github.com/go-json-experiment/json"
	"github.com/go-json-experiment/json/jsontext"
	jsonv1 "github.com/go-json-experiment/json/v1"
)

// Struct shapes that reflection can only half reach: embedded pointers to unexported structs,
// unexported embedded structs given a JSON name, fallbacks behind nil pointers, embedded
// non-struct types, diamonds.  reflect.StructOf cannot build these, so they are declared here.
// The C20 clause they serve needs no oracle: whatever the input, no call may panic.

type awkInner struct{ B int }
type awkNamedPtr struct {
	*awkInner `json:"in"`
	A         int
}
type awkNamedVal struct {
	awkInner `json:"in"`
	A        int
}
type awkHiddenMap struct {
	B int
	X map[string]any `json:",embed"`
}
type awkOuterMap struct {
	*awkHiddenMap
	A int
}
type awkHiddenRaw struct {
	X jsontext.Value `json:",embed"`
}
type awkOuterRaw struct {
	*awkHiddenRaw
	A int
}
type AwkExported struct {
	B int
	Y *int
}
type awkOuterExported struct {
	*AwkExported
	A int
}
type awkDeep struct {
	*awkOuterMap
	Z []int
}
type awkMyInt int
type awkEmbedNonStruct struct {
	awkMyInt
	A int
}
type AwkMyString string
type awkEmbedExportedNonStruct struct {
	AwkMyString
	A int
}
type awkLeaf struct{ Y int }
type awkMid struct {
	awkLeaf
	X int
}
type awkLeft struct{ awkMid }
type awkRight struct{ awkMid }
type awkDiamond struct {
	awkLeft
	awkRight
}
type awkFallbackTyped struct {
	A int
	X map[string]int `json:",embed"`
}
type awkFallbackPtrRaw struct {
	A int
	X *jsontext.Value `json:",embed"`
}
type awkIface interface{ M() }
type awkIfaceField struct {
	I awkIface
	E any
	A int
}
type awkRecursive struct {
	A    int
	Next *awkRecursive
	M    map[string]*awkRecursive
	*awkInner
}
type awkUnexportedOnly struct {
	a int
	b string
}
type awkFuncField struct {
	A int
	F func()   `json:",omitzero"`
	C chan int `json:",omitempty"`
}
type awkArrayOfEmbedded struct {
	L [2]awkNamedVal
	S []*awkOuterMap
	M map[string]awkNamedPtr
}

var awkTypes = []reflect.Type{
	reflect.TypeFor[awkNamedPtr](), reflect.TypeFor[awkNamedVal](), reflect.TypeFor[awkOuterMap](), reflect.TypeFor[awkOuterRaw](),
	reflect.TypeFor[awkOuterExported](), reflect.TypeFor[awkDeep](), reflect.TypeFor[awkEmbedNonStruct](), reflect.TypeFor[awkEmbedExportedNonStruct](),
	reflect.TypeFor[awkDiamond](), reflect.TypeFor[awkFallbackTyped](), reflect.TypeFor[awkFallbackPtrRaw](), reflect.TypeFor[awkIfaceField](),
	reflect.TypeFor[awkRecursive](), reflect.TypeFor[awkUnexportedOnly](), reflect.TypeFor[awkFuncField](), reflect.TypeFor[awkArrayOfEmbedded](),
}

var awkOptSets = map[string][]jsonv2.Options{
	"default":  nil,
	"reject":   {jsonv2.RejectUnknownMembers(true)},
	"dups-ci":  {jsontext.AllowDuplicateNames(true), jsonv2.MatchCaseInsensitiveNames(true)},
	"v1":       {jsonv1.DefaultOptionsV1()},
	"omitzero": {jsonv2.OmitZeroStructFields(true), jsonv2.FormatNilMapAsNull(true), jsonv2.Deterministic(true)},
}

func awkProbes() []string {
	names := []string{"A", "B", "X", "Y", "Z", "in", "unknown", "I", "E", "Next", "M", "L", "S", "awkMyInt", "AwkMyString", "awkInner", "a", "F"}
	vals := []string{`1`, `null`, `{"B":2}`, `{"unknown":true}`, `[1]`, `"s"`, `{"in":{"B":3}}`, `[{"in":null},{"A":1}]`, `{"k":{"in":{"B":1}}}`, `[{"unknown":1}]`}
	ps := []string{`null`, `{}`, `[]`, `1`, `"x"`, `{"A":1,"unknown":2}`, `{"unknown":2,"A":1,"B":2}`, `{"A":1,"A":2}`, `{"a":1,"A":2}`}
	for _, n := range names {
		for _, v := range vals {
			ps = append(ps, fmt.Sprintf(`{%q:%s}`, n, v))
		}
	}
	return ps
}

// awkRun: every probe into a zero value and into what an earlier probe left, then Marshal of the
// result; returns the calls that panicked
func awkRun(t reflect.Type, opts []jsonv2.Options) (calls int, panics [][]string) {
	try := func(what string, f func()) {
		calls++
		defer func() {
			if r := recover(); r != nil {
				panics = append(panics, []string{what, truncate(fmt.Sprint(r), 160)})
			}
		}()
		f()
	}
	kept := reflect.New(t)
	for _, p := range awkProbes() {
		fresh := reflect.New(t)
		try("unmarshal "+p, func() { jsonv2.Unmarshal([]byte(p), fresh.Interface(), opts...) })
		try("marshal after "+p, func() { jsonv2.Marshal(fresh.Interface(), opts...) })
		try("unmarshal-into-kept "+p, func() { jsonv2.Unmarshal([]byte(p), kept.Interface(), opts...) })
		try("marshal kept after "+p, func() { jsonv2.Marshal(kept.Elem().Interface(), opts...) })
		try("unmarshalread "+p, func() { jsonv2.UnmarshalRead(strings.NewReader(p), reflect.New(t).Interface(), opts...) })
	}
	return
}
