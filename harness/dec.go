package main

import (
	"bytes"
	"errors"
	"fmt"
	"io"
	"strings"
	"unicode/utf8"

	"github.com/go-json-experiment/json/jsontext"
)

// ---------------------------------------------------------------- scripted reader

var errFault = errors.New("verif: injected transient read fault")

// scriptedReader hands out data in the scheduled chunk sizes (0 = empty read),
// fails the Read calls whose index is in faults, and can return the last data
// together with io.EOF.
type scriptedReader struct {
	data        []byte
	pos         int
	chunks      []int // cyclic
	ci          int
	carry       int // rest of a chunk that did not fit into p
	faults      map[int]bool
	reads       int
	eofWithData bool
	faultNext   bool // fail the next Read call (armed by the driver per call)

	handed    int  // bytes handed out so far
	delivered bool // a fault was delivered since the flag was last cleared
}

func (r *scriptedReader) Read(p []byte) (int, error) {
	idx := r.reads
	r.reads++
	if r.faults[idx] || r.faultNext {
		r.faultNext = false
		r.delivered = true
		return 0, errFault
	}
	if r.pos >= len(r.data) {
		return 0, io.EOF
	}
	n := r.carry
	if n == 0 {
		if len(r.chunks) == 0 {
			n = len(r.data)
		} else {
			n = r.chunks[r.ci%len(r.chunks)]
			r.ci++
		}
	}
	if n == 0 {
		return 0, nil // empty read
	}
	if n > len(r.data)-r.pos {
		n = len(r.data) - r.pos
	}
	r.carry = 0
	if n > len(p) {
		r.carry = n - len(p)
		n = len(p)
	}
	copy(p, r.data[r.pos:r.pos+n])
	r.pos += n
	r.handed += n
	if r.eofWithData && r.pos == len(r.data) {
		return n, io.EOF
	}
	return n, nil
}

// ---------------------------------------------------------------- observation

type decStep struct {
	Op    string    `json:"op"`
	Err   string    `json:"err"`
	K     int       `json:"k"`
	Len   int       `json:"len"`
	Off   int64     `json:"off"`
	Depth int       `json:"depth"`
	Idx   [][]int64 `json:"idx"`
	Ptr   [][]int   `json:"ptr"`
	Str   []int     `json:"str"`
	Fd    bool      `json:"fd"`
	Acct  bool      `json:"acct"`
	Vok   bool      `json:"vok"`
	Panic string    `json:"panic"`
	Eoff  int64     `json:"eoff"`
	Eptr  [][]int   `json:"eptr"`
	Ecls  string    `json:"ecls"`
}

func errClass(err error) string {
	var se *jsontext.SyntacticError
	switch {
	case err == nil:
		return "nil"
	case err == io.EOF:
		return "eof"
	case errors.Is(err, errFault):
		return "io"
	case errors.As(err, &se):
		return "syn"
	}
	return "other"
}

// runesOf projects a Go string to code points; each ill-formed byte is U+FFFD.
func runesOf(s string) []int {
	out := make([]int, 0, len(s))
	for _, r := range s {
		out = append(out, int(r))
	}
	return out
}

// pointerTokens projects a jsontext.Pointer to its reference tokens as code points.
func pointerTokens(p jsontext.Pointer) [][]int {
	out := [][]int{}
	for tok := range p.Tokens() {
		out = append(out, runesOf(tok))
	}
	return out
}

func stackIdx(depth int, at func(i int) (jsontext.Kind, int64)) [][]int64 {
	levels := []int{0}
	if depth == 1 {
		levels = append(levels, 1)
	} else if depth >= 2 {
		levels = append(levels, depth-1, depth)
	}
	out := make([][]int64, 0, 3)
	for _, i := range levels {
		k, n := at(i)
		out = append(out, []int64{int64(i), int64(k), n})
	}
	return out
}

// decRun executes a call program on a real Decoder reading input through rd.
// handed() reports how many input bytes the reader has given out so far.
// faultAt[i] arms a fault for the next Read issued during call i.
type decEnv struct {
	input   []byte
	rd      io.Reader
	sr      *scriptedReader // nil for bytes.Buffer / bytes.Reader kinds
	buf     *bytes.Buffer
	faultAt map[int]bool
}

func (e *decEnv) handed() int {
	switch {
	case e.sr != nil:
		return e.sr.handed
	case e.buf != nil:
		return len(e.input) - e.buf.Len()
	}
	return -1
}

func decRun(e *decEnv, ai, ad bool, ops []string) (steps []decStep) {
	d := jsontext.NewDecoder(e.rd, jsontext.AllowInvalidUTF8(ai), jsontext.AllowDuplicateNames(ad))
	if (len(e.input)+len(ops))%3 == 0 {
		// a Decoder with a past: it has read part of another, longer stream (its buffer was
		// refilled, it stands inside nested containers) and is then Reset onto this input
		pastPanic := ""
		func() {
			defer func() {
				if r := recover(); r != nil {
					pastPanic = "while reading the earlier stream: " + fmt.Sprint(r)
				}
			}()
			d = jsontext.NewDecoder(&scriptedReader{data: decoderPast, chunks: []int{13, 64, 1}})
			for k := 0; k < 20+len(ops)%40; k++ {
				if _, err := d.ReadToken(); err != nil {
					break
				}
			}
			d.Reset(e.rd, jsontext.AllowInvalidUTF8(ai), jsontext.AllowDuplicateNames(ad))
		}()
		if pastPanic != "" && len(ops) > 0 { // reported as a panic of the first call
			return []decStep{{Op: ops[0], Len: -1, Vok: true, Ptr: [][]int{}, Str: []int{}, Eptr: [][]int{}, Eoff: -1, Panic: pastPanic}}
		}
	}
	for i, op := range ops {
		st := decStep{Op: op, Len: -1, Vok: true, Ptr: [][]int{}, Str: []int{}, Eptr: [][]int{}, Eoff: -1}
		if e.sr != nil {
			e.sr.delivered = false
			e.sr.faultNext = e.faultAt[i]
		}
		func() {
			defer func() {
				if r := recover(); r != nil {
					st.Panic = fmt.Sprint(r)
				}
			}()
			var err error
			switch op {
			case "tok":
				var t jsontext.Token
				t, err = d.ReadToken()
				if err == nil {
					st.K = int(t.Kind())
					switch t.Kind() {
					case '"':
						st.Str = runesOf(t.String())
					case '0':
						raw := t.String()
						off := int(d.InputOffset())
						st.Len = len(raw)
						st.Vok = off >= len(raw) && string(e.input[off-len(raw):off]) == raw
					}
				}
			case "val":
				var v jsontext.Value
				v, err = d.ReadValue()
				if err == nil {
					st.K = int(v.Kind())
					st.Len = len(v)
					off := int(d.InputOffset())
					st.Vok = off >= len(v) && bytes.Equal(e.input[off-len(v):off], v)
				}
			case "skip":
				err = d.SkipValue()
			case "peek":
				st.K = int(d.PeekKind())
			case "ptr":
				st.Ptr = pointerTokens(d.StackPointer())
			}
			st.Err = errClass(err)
			var se *jsontext.SyntacticError
			if errors.As(err, &se) {
				st.Eoff = se.ByteOffset
				st.Eptr = pointerTokens(se.JSONPointer)
				switch {
				case errors.Is(err, io.ErrUnexpectedEOF):
					st.Ecls = "ueof"
				case errors.Is(err, jsontext.ErrDuplicateName):
					st.Ecls = "dup"
				default:
					st.Ecls = "inv"
				}
			}
		}()
		if e.sr != nil {
			st.Fd = e.sr.delivered
			e.sr.faultNext = false
		}
		if st.Panic == "" {
			st.Off = d.InputOffset()
			st.Depth = d.StackDepth()
			st.Idx = stackIdx(st.Depth, d.StackIndex)
			st.Acct = true
			if h := e.handed(); h >= 0 {
				un := d.UnreadBuffer()
				st.Acct = int(st.Off)+len(un) == h && bytes.Equal(un, e.input[st.Off:h])
			}
		}
		steps = append(steps, st)
		if st.Panic != "" {
			break
		}
	}
	return steps
}

// reader kinds
func newEnv(input []byte, kind string, chunks []int, faults map[int]bool, eofWithData bool, faultAt map[int]bool) *decEnv {
	e := &decEnv{input: input, faultAt: faultAt}
	switch kind {
	case "buffer":
		e.buf = bytes.NewBuffer(append([]byte(nil), input...))
		e.rd = e.buf
	default:
		e.sr = &scriptedReader{data: input, chunks: chunks, faults: faults, eofWithData: eofWithData}
		e.rd = e.sr
	}
	return e
}

var _ = utf8.RuneError

var decoderPast = []byte(`{"past":[{"name-one":"` + strings.Repeat("v", 90) + `","k":[1,2,{"deep":[true,null,"` + strings.Repeat("w", 70) + `"]}]},` +
	strings.Repeat(`{"again":[0.5,"x"]},`, 12) + `null],"tail":{"a":{"b":{"c":[[[]]]}}}}`)
