package main

import (
	"errors"
	"fmt"
	"io"
	"reflect"
	"runtime"
	"sync"
	"sync/atomic"

	jsonv2 "github.com/go-json-experiment/json"
	"github.com/go-json-experiment/json/jsontext"
)

// script is carried by every catalog value: it tells each user-supplied callable how to behave
// and records which were invoked.
type script struct {
	mu    sync.Mutex
	beh   map[string]string
	calls []string
}

func (s *script) log(name string) string {
	s.mu.Lock()
	defer s.mu.Unlock()
	s.calls = append(s.calls, name)
	return s.beh[name]
}

var errUser = errors.New("user error")

// a bytes-returning callable (MarshalJSON, MarshalText, AppendText, MarshalFunc)
func (s *script) doBytes(name, recv string, isJSON bool) ([]byte, error) {
	marker := name + ":" + recv
	if isJSON {
		marker = `"` + marker + `"`
	}
	switch s.log(name) {
	case "ok":
		return []byte(marker), nil
	case "zero":
		if isJSON {
			return []byte{}, nil
		}
		return nil, errUser // an empty text is a legitimate value; make it an error instead
	case "two":
		if isJSON {
			return []byte(`1 2`), nil
		}
		return nil, errUser
	case "partial":
		if isJSON {
			return []byte(`{"a":`), nil
		}
		return nil, errUser
	case "unsup", "unsupafter":
		return nil, errors.ErrUnsupported
	case "reset":
		return nil, errUser
	}
	return nil, errUser
}

// a callable that is handed the encoder (MarshalJSONTo, MarshalToFunc)
func (s *script) doTo(e *jsontext.Encoder, name, recv string) error {
	switch s.log(name) {
	case "ok":
		return e.WriteToken(jsontext.String(name + ":" + recv))
	case "zero":
		return nil
	case "two":
		e.WriteToken(jsontext.Int(1))
		return e.WriteToken(jsontext.Int(2))
	case "partial":
		e.WriteToken(jsontext.BeginObject)
		return e.WriteToken(jsontext.String("a"))
	case "unsup":
		return errors.ErrUnsupported
	case "unsupafter":
		e.WriteToken(jsontext.Int(1))
		return errors.ErrUnsupported
	case "reset":
		e.Reset(new(nopWriter))
		return nil
	case "nestreset":
		// a nested call on the same encoder, for a value with a MarshalJSONTo of its own, comes and
		// goes; after it the outer call is still in progress
		e.WriteToken(jsontext.BeginArray)
		jsonv2.MarshalEncode(e, nestedTo{})
		e.WriteToken(jsontext.EndArray)
		e.Reset(new(nopWriter))
		return nil
	}
	return errUser
}

type nestedTo struct{}

func (nestedTo) MarshalJSONTo(e *jsontext.Encoder) error { return e.WriteToken(jsontext.Int(7)) }

type nestedFrom struct{}

func (*nestedFrom) UnmarshalJSONFrom(d *jsontext.Decoder) error { return d.SkipValue() }

type nopWriter struct{}

func (nopWriter) Write(p []byte) (int, error) { return len(p), nil }

var unmarshalCodes = map[string]int{"from": 1, "json": 2, "text": 3, "f1": 11, "f2": 12}

// an unmarshal callable that is handed the decoder (UnmarshalJSONFrom, UnmarshalFromFunc)
func (s *script) undoFrom(d *jsontext.Decoder, v *int, name string) error {
	switch s.log(name) {
	case "ok":
		*v = unmarshalCodes[name]
		return d.SkipValue()
	case "zero":
		return nil
	case "two":
		d.SkipValue()
		return d.SkipValue()
	case "partial":
		_, err := d.ReadToken() // consumes only the first token (the input is an object for this behaviour)
		return err
	case "unsup":
		return errors.ErrUnsupported
	case "unsupafter":
		d.SkipValue()
		return errors.ErrUnsupported
	case "reset":
		d.Reset(new(emptyReader))
		return nil
	case "nestreset":
		jsonv2.UnmarshalDecode(d, new(nestedFrom))
		d.Reset(new(emptyReader))
		return nil
	}
	return errUser
}

type emptyReader struct{}

func (emptyReader) Read(p []byte) (int, error) { return 0, io.EOF }

// an unmarshal callable that receives bytes (UnmarshalJSON, UnmarshalText, UnmarshalFunc)
func (s *script) undoBytes(b []byte, v *int, name string) error {
	switch s.log(name) {
	case "ok":
		*v = unmarshalCodes[name]
		return nil
	case "unsup", "unsupafter":
		return errors.ErrUnsupported
	}
	return errUser
}

type dispatchCfg struct {
	Recv  map[string]string `json:"recv"`
	Funcs []struct {
		To  bool `json:"to"`
		Ptr bool `json:"ptr"`
	} `json:"funcs"`
	Beh map[string]string `json:"beh"`
	Nil bool              `json:"nil"`
}

// funcOptions builds WithMarshalers for the catalog type t from the function list.
func funcOptions(t reflect.Type, cfg dispatchCfg, s *script) []jsonv2.Options {
	if len(cfg.Funcs) == 0 {
		return nil
	}
	var ms []*jsonv2.Marshalers
	for i, f := range cfg.Funcs {
		name := fmt.Sprintf("f%d", i+1)
		ms = append(ms, makeFunc(t, f.To, f.Ptr, name, s))
	}
	return []jsonv2.Options{jsonv2.WithMarshalers(jsonv2.JoinMarshalers(ms...))}
}

// makeFunc instantiates MarshalFunc / MarshalToFunc for the (dynamic) catalog type via reflection
// on a generic helper: the catalog has 81 types, so the helpers are looked up by type.
func makeFunc(t reflect.Type, to, ptr bool, name string, s *script) *jsonv2.Marshalers {
	mk := funcMakers[t]
	return mk(to, ptr, name, s)
}

var funcMakers = map[reflect.Type]func(to, ptr bool, name string, s *script) *jsonv2.Marshalers{}
var unFuncMakers = map[reflect.Type]func(from bool, name string, s *script) *jsonv2.Unmarshalers{}

func registerUnFuncs[T any](setV func(*T) *int) {
	unFuncMakers[reflect.TypeFor[T]()] = func(from bool, name string, s *script) *jsonv2.Unmarshalers {
		if from {
			return jsonv2.UnmarshalFromFunc(func(d *jsontext.Decoder, v *T) error { return s.undoFrom(d, setV(v), name) })
		}
		return jsonv2.UnmarshalFunc(func(b []byte, v *T) error { return s.undoBytes(b, setV(v), name) })
	}
}

func registerFuncs[T any]() {
	funcMakers[reflect.TypeFor[T]()] = func(to, ptr bool, name string, s *script) *jsonv2.Marshalers {
		switch {
		case to && ptr:
			return jsonv2.MarshalToFunc(func(e *jsontext.Encoder, v *T) error { return s.doTo(e, name, "ptr") })
		case to:
			return jsonv2.MarshalToFunc(func(e *jsontext.Encoder, v T) error { return s.doTo(e, name, "val") })
		case ptr:
			return jsonv2.MarshalFunc(func(v *T) ([]byte, error) { return s.doBytes(name, "ptr", true) })
		default:
			return jsonv2.MarshalFunc(func(v T) ([]byte, error) { return s.doBytes(name, "val", true) })
		}
	}
}

// positions in which the value is placed; each returns the Go value to marshal and a function
// extracting the representation of the catalog value from the output
type position struct {
	name string
	wrap func(v reflect.Value, nilp bool) any
	pre  string
	post string
}

func positions(t reflect.Type) []position {
	ptrT := reflect.PointerTo(t)
	return []position{
		{"value", func(v reflect.Value, nilp bool) any {
			if nilp {
				return reflect.Zero(ptrT).Interface()
			}
			return v.Interface()
		}, "", ""},
		{"pointer", func(v reflect.Value, nilp bool) any {
			if nilp {
				return reflect.Zero(ptrT).Interface()
			}
			p := reflect.New(t)
			p.Elem().Set(v)
			return p.Interface()
		}, "", ""},
		{"field", func(v reflect.Value, nilp bool) any {
			ft := t
			if nilp {
				ft = ptrT
			}
			st := reflect.StructOf([]reflect.StructField{{Name: "F", Type: ft}})
			x := reflect.New(st).Elem()
			if !nilp {
				x.Field(0).Set(v)
			}
			return x.Interface() // passed by value: not addressable
		}, `{"F":`, `}`},
		{"slice-elem", func(v reflect.Value, nilp bool) any {
			et := t
			if nilp {
				et = ptrT
			}
			s := reflect.MakeSlice(reflect.SliceOf(et), 1, 1)
			if !nilp {
				s.Index(0).Set(v)
			}
			return s.Interface()
		}, `[`, `]`},
		{"array-elem", func(v reflect.Value, nilp bool) any {
			et := t
			if nilp {
				et = ptrT
			}
			a := reflect.New(reflect.ArrayOf(1, et)).Elem()
			if !nilp {
				a.Index(0).Set(v)
			}
			return a.Interface() // an array passed by value: elements are not addressable
		}, `[`, `]`},
		{"map-value", func(v reflect.Value, nilp bool) any {
			et := t
			if nilp {
				et = ptrT
			}
			m := reflect.MakeMap(reflect.MapOf(reflect.TypeOf(""), et))
			if nilp {
				m.SetMapIndex(reflect.ValueOf("k"), reflect.Zero(ptrT))
			} else {
				m.SetMapIndex(reflect.ValueOf("k"), v)
			}
			return m.Interface()
		}, `{"k":`, `}`},
		{"interface", func(v reflect.Value, nilp bool) any {
			var x any
			if nilp {
				x = reflect.Zero(ptrT).Interface()
			} else {
				x = v.Interface()
			}
			return []any{x}
		}, `[`, `]`},
	}
}

// replay-disp cases=<TLC out> out=<mismatches>: [recv, funcs, beh, nil, calls, out]
func replayDisp(args map[string]string) error {
	out, err := newMismatchSink(argStr(args, "out", "/dev/null"))
	if err != nil {
		return err
	}
	defer out.close()
	var cases, evals atomic.Int64
	err = parallelLines(args["cases"], runtime.NumCPU(), func(line []byte) {
		var rec []jsontext.Value
		if err := jsonv2.Unmarshal(line, &rec); err != nil || len(rec) != 7 {
			return
		}
		var cfg dispatchCfg
		var wantCalls []string
		var wantOut []string
		jsonv2.Unmarshal(rec[0], &cfg.Recv)
		jsonv2.Unmarshal(rec[1], &cfg.Funcs)
		jsonv2.Unmarshal(rec[2], &cfg.Beh)
		jsonv2.Unmarshal(rec[3], &cfg.Nil)
		jsonv2.Unmarshal(rec[4], &wantCalls)
		jsonv2.Unmarshal(rec[5], &wantOut)
		var dir string
		jsonv2.Unmarshal(rec[6], &dir)
		cases.Add(1)
		var raw any
		jsonv2.Unmarshal(line, &raw)
		if dir == "unmarshal" {
			evals.Add(int64(replayUndispatch(cfg, wantCalls, wantOut, raw, out)))
			return
		}
		key := cfg.Recv["to"] + cfg.Recv["json"] + cfg.Recv["app"] + cfg.Recv["text"]
		t := marshalCatalog[key]
		for _, pos := range positions(t) {
			s := &script{beh: cfg.Beh}
			v := reflect.New(t).Elem()
			v.Field(0).Set(reflect.ValueOf(s))
			v.Field(1).SetInt(7)
			opts := funcOptions(t, cfg, s)
			var got []byte
			var merr error
			panicked := ""
			func() {
				defer func() {
					if r := recover(); r != nil {
						panicked = fmt.Sprint(r)
					}
				}()
				got, merr = jsonv2.Marshal(pos.wrap(v, cfg.Nil), opts...)
			}()
			evals.Add(1)
			// expected output text
			var want string
			wantErr, wantPanic := false, false
			switch wantOut[0] {
			case "by":
				recvKind := map[string]string{"v": "val", "p": "ptr"}[cfg.Recv[wantOut[1]]]
				if len(wantOut[1]) == 2 && wantOut[1][0] == 'f' { // a function
					i := int(wantOut[1][1] - '1')
					recvKind = map[bool]string{false: "val", true: "ptr"}[cfg.Funcs[i].Ptr]
				}
				want = pos.pre + `"` + wantOut[1] + ":" + recvKind + `"` + pos.post
			case "default":
				want = pos.pre + `{"V":7}` + pos.post
			case "null":
				want = pos.pre + `null` + pos.post
			case "err":
				wantErr = true
			case "panic-reset":
				wantPanic = true
			}
			why := ""
			switch {
			case wantPanic != (panicked != ""):
				why = "panic"
			case panicked != "":
			case wantErr != (merr != nil):
				why = "error"
			case merr == nil && string(got) != want:
				why = "output"
			case !reflect.DeepEqual(append([]string{}, s.calls...), append([]string{}, wantCalls...)):
				why = "calls"
			}
			if why != "" {
				prop := "C17"
				if why == "panic" && !wantPanic {
					prop = "C20"
				}
				out.put(map[string]any{"prop": prop, "family": "disp", "case": raw, "position": pos.name, "why": why, "got": string(got), "want": want,
					"gotcalls": s.calls, "wantcalls": wantCalls, "err": fmt.Sprint(merr), "panic": panicked})
			}
		}
	})
	if err != nil {
		return err
	}
	summary(map[string]any{"cases": cases.Load(), "evaluations": evals.Load(), "mismatches": out.n})
	return nil
}

func init() { commands["replay-disp"] = replayDisp }

// replayUndispatch: the unmarshal side.  The value is placed as the target itself, a struct
// field, a slice element and a map value.
func replayUndispatch(cfg dispatchCfg, wantCalls, wantOut []string, raw any, out *sink) int {
	key := cfg.Recv["from"] + cfg.Recv["json"] + cfg.Recv["text"]
	t := unmarshalCatalog[key]
	evals := 0
	// the input each candidate can digest
	input := `5`
	switch {
	case wantOut[0] == "by" && wantOut[1] == "text":
		input = `"five"`
	case wantOut[0] == "default":
		input = `{"V":9}`
	}
	for _, b := range cfg.Beh {
		if b == "partial" {
			input = `{"V":9}`
		}
	}
	if len(wantCalls) > 0 && wantCalls[len(wantCalls)-1] == "text" {
		input = `"five"`
	}
	type place struct {
		name   string
		target func(s *script) (ptr any, get func() reflect.Value)
		text   string
	}
	mk := func(s *script) reflect.Value {
		v := reflect.New(t)
		v.Elem().Field(0).Set(reflect.ValueOf(s))
		return v
	}
	places := []place{
		{"value", func(s *script) (any, func() reflect.Value) {
			v := mk(s)
			return v.Interface(), func() reflect.Value { return v.Elem() }
		}, input},
		{"field", func(s *script) (any, func() reflect.Value) {
			st := reflect.StructOf([]reflect.StructField{{Name: "F", Type: t}})
			x := reflect.New(st)
			x.Elem().Field(0).Field(0).Set(reflect.ValueOf(s))
			return x.Interface(), func() reflect.Value { return x.Elem().Field(0) }
		}, `{"F":` + input + `}`},
		{"pointer-field", func(s *script) (any, func() reflect.Value) {
			st := reflect.StructOf([]reflect.StructField{{Name: "F", Type: reflect.PointerTo(t)}})
			x := reflect.New(st)
			x.Elem().Field(0).Set(mk(s))
			return x.Interface(), func() reflect.Value { return x.Elem().Field(0).Elem() }
		}, `{"F":` + input + `}`},
	}
	for _, pl := range places {
		s := &script{beh: cfg.Beh}
		ptr, get := pl.target(s)
		var opts []jsonv2.Options
		if len(cfg.Funcs) > 0 {
			var us []*jsonv2.Unmarshalers
			for i, f := range cfg.Funcs {
				us = append(us, unFuncMakers[t](f.To, fmt.Sprintf("f%d", i+1), s))
			}
			opts = append(opts, jsonv2.WithUnmarshalers(jsonv2.JoinUnmarshalers(us...)))
		}
		var uerr error
		panicked := ""
		func() {
			defer func() {
				if r := recover(); r != nil {
					panicked = fmt.Sprint(r)
				}
			}()
			uerr = jsonv2.Unmarshal([]byte(pl.text), ptr, opts...)
		}()
		evals++
		wantErr, wantPanic := wantOut[0] == "err", wantOut[0] == "panic-reset"
		wantV := 0
		switch wantOut[0] {
		case "by":
			wantV = unmarshalCodes[wantOut[1]]
		case "default":
			wantV = 9
		}
		why := ""
		switch {
		case wantPanic != (panicked != ""):
			why = "panic"
		case panicked != "":
		case wantErr != (uerr != nil):
			why = "error"
		case uerr == nil && int(get().Field(1).Int()) != wantV:
			why = "value"
		case !reflect.DeepEqual(append([]string{}, s.calls...), append([]string{}, wantCalls...)):
			why = "calls"
		}
		if why != "" {
			out.put(map[string]any{"prop": "C17", "family": "disp", "case": raw, "position": pl.name, "why": why, "input": pl.text,
				"gotcalls": s.calls, "wantcalls": wantCalls, "err": fmt.Sprint(uerr), "panic": panicked, "wantv": wantV})
		}
	}
	return evals
}

// ------------------------------------------------------------------ functions for untyped values behind `any`

func anyFuncOf(kind string, i int, log *[]int) (*jsonv2.Marshalers, *jsonv2.Unmarshalers) {
	mark := func() []byte { *log = append(*log, i); return []byte(fmt.Sprintf(`"f%d"`, i)) }
	switch kind {
	case "bool":
		return jsonv2.MarshalFunc(func(x bool) ([]byte, error) { return mark(), nil }),
			jsonv2.UnmarshalFunc(func(b []byte, x *bool) error { mark(); *x = true; return nil })
	case "string":
		return jsonv2.MarshalFunc(func(x string) ([]byte, error) { return mark(), nil }),
			jsonv2.UnmarshalFunc(func(b []byte, x *string) error { mark(); *x = fmt.Sprintf("f%d", i); return nil })
	case "float64":
		return jsonv2.MarshalFunc(func(x float64) ([]byte, error) { return mark(), nil }),
			jsonv2.UnmarshalFunc(func(b []byte, x *float64) error { mark(); *x = float64(100 + i); return nil })
	case "map":
		return jsonv2.MarshalFunc(func(x map[string]any) ([]byte, error) { return mark(), nil }),
			jsonv2.UnmarshalFunc(func(b []byte, x *map[string]any) error { mark(); *x = map[string]any{"f": float64(i)}; return nil })
	case "slice":
		return jsonv2.MarshalFunc(func(x []any) ([]byte, error) { return mark(), nil }),
			jsonv2.UnmarshalFunc(func(b []byte, x *[]any) error { mark(); *x = []any{float64(i)}; return nil })
	// Go types that no JSON text decodes into, but that an `any` may hold when marshaling
	case "int":
		return jsonv2.MarshalFunc(func(x int) ([]byte, error) { return mark(), nil }),
			jsonv2.UnmarshalFunc(func(b []byte, x *int) error { mark(); return nil })
	case "int64":
		return jsonv2.MarshalFunc(func(x int64) ([]byte, error) { return mark(), nil }),
			jsonv2.UnmarshalFunc(func(b []byte, x *int64) error { mark(); return nil })
	case "strings":
		return jsonv2.MarshalFunc(func(x []string) ([]byte, error) { return mark(), nil }),
			jsonv2.UnmarshalFunc(func(b []byte, x *[]string) error { mark(); return nil })
	}
	return jsonv2.MarshalFunc(func(x complex64) ([]byte, error) { return mark(), nil }),
		jsonv2.UnmarshalFunc(func(b []byte, x *complex64) error { mark(); return nil })
}

// replay-anyf cases=<TLC out> out=<mismatches>: [funcs, valueKind, winner]
func replayAnyF(args map[string]string) error {
	out, err := newMismatchSink(argStr(args, "out", "/dev/null"))
	if err != nil {
		return err
	}
	defer out.close()
	var cases, evals atomic.Int64
	// containers are empty so that no inner key or element is itself a candidate for a function
	vals := map[string]any{"bool": true, "string": "s", "float64": 1.5, "map": map[string]any{}, "slice": []any{}, "int": 7, "int64": int64(-8), "strings": []string{}}
	texts := map[string]string{"bool": `true`, "string": `"s"`, "float64": `1.5`, "map": `{}`, "slice": `[]`, "int": `7`, "int64": `-8`, "strings": `[]`}
	marshalOnly := map[string]bool{"int": true, "int64": true, "strings": true}
	err = parallelLines(args["cases"], runtime.NumCPU(), func(line []byte) {
		var rec []any
		if err := jsonv2.Unmarshal(line, &rec); err != nil || len(rec) != 3 {
			return
		}
		var kinds []string
		for _, k := range rec[0].([]any) {
			kinds = append(kinds, k.(string))
		}
		vk, winner := rec[1].(string), toInt(rec[2])
		cases.Add(1)
		type holder struct{ F any }
		wraps := []struct {
			name      string
			wrap      func(x any) any
			pre, post string
			target    func() any
		}{
			{"field", func(x any) any { return holder{x} }, `{"F":`, "}", func() any { return new(holder) }},
			{"array", func(x any) any { return [1]any{x} }, `[`, "]", func() any { return new([1]any) }},
			{"ptrfield", func(x any) any { return &holder{x} }, `{"F":`, "}", func() any { return new(*holder) }},
		}
		// a non-nil pointer to an empty value in an omitempty field: omitted, unless a function
		// for the pointee's type writes something that is not empty
		if mk := map[string]func() any{
			"string": func() any {
				x := ""
				return struct {
					F *string `json:",omitempty"`
				}{&x}
			},
			"strings": func() any {
				x := []string{}
				return struct {
					F *[]string `json:",omitempty"`
				}{&x}
			},
			"map": func() any {
				x := map[string]any{}
				return struct {
					F *map[string]any `json:",omitempty"`
				}{&x}
			},
		}[vk]; mk != nil {
			var log []int
			var ms []*jsonv2.Marshalers
			for i, k := range kinds {
				m, _ := anyFuncOf(k, i+1, &log)
				ms = append(ms, m)
			}
			evals.Add(1)
			got, merr := jsonv2.Marshal(mk(), jsonv2.WithMarshalers(jsonv2.JoinMarshalers(ms...)))
			want := `{}`
			if winner > 0 {
				want = fmt.Sprintf(`{"F":"f%d"}`, winner)
			}
			if merr != nil || string(got) != want {
				out.put(map[string]any{"prop": "C17", "family": "anyf", "case": rec, "dir": "replay", "direction": "marshal", "position": "omitempty-pointer-field",
					"why": "output", "got": string(got) + fmt.Sprint(" err=", merr), "want": want, "calls": log})
			}
		}
		for _, w := range wraps {
			var log []int
			var ms []*jsonv2.Marshalers
			var us []*jsonv2.Unmarshalers
			for i, k := range kinds {
				m, u := anyFuncOf(k, i+1, &log)
				ms, us = append(ms, m), append(us, u)
			}
			bad := func(dir, why string, got, want any) {
				out.put(map[string]any{"prop": "C17", "family": "anyf", "case": rec, "dir": "replay", "direction": dir, "position": w.name, "why": why, "got": got, "want": want, "calls": log})
			}
			evals.Add(2)
			got, merr := jsonv2.Marshal(w.wrap(vals[vk]), jsonv2.WithMarshalers(jsonv2.JoinMarshalers(ms...)))
			want := w.pre + texts[vk] + w.post
			wantLog := []int{}
			if winner > 0 {
				want = w.pre + fmt.Sprintf(`"f%d"`, winner) + w.post
				wantLog = []int{winner}
			}
			if merr != nil || string(got) != want || !reflect.DeepEqual(append([]int{}, log...), wantLog) {
				bad("marshal", "output", string(got)+fmt.Sprint(" err=", merr), want)
			}
			if marshalOnly[vk] {
				continue
			}
			log = nil
			uerr := jsonv2.Unmarshal([]byte(w.pre+texts[vk]+w.post), w.target(), jsonv2.WithUnmarshalers(jsonv2.JoinUnmarshalers(us...)))
			if uerr != nil {
				bad("unmarshal", "error", uerr.Error(), nil)
			} else if !reflect.DeepEqual(append([]int{}, log...), wantLog) {
				bad("unmarshal", "calls", log, wantLog)
			}
		}
	})
	if err != nil {
		return err
	}
	summary(map[string]any{"cases": cases.Load(), "evaluations": evals.Load(), "mismatches": out.n})
	return nil
}

func init() { commands["replay-anyf"] = replayAnyF }
