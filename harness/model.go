package main

import (
	"bytes"
	"encoding/json"
	"fmt"
	"math"
	"math/big"
	"math/rand/v2"
	"reflect"
	"runtime"
	"sort"
	"strconv"
	"strings"
	"sync"
	"sync/atomic"
	"time"

	jsonv2 "github.com/go-json-experiment/json"
	"github.com/go-json-experiment/json/jsontext"
)

// Binding of spec/Arshal.tla: Go types and values of the model's universe are built with
// reflect from TLC's description, Marshal / Unmarshal run on the real library, and the
// outcome is rendered back into the model's value language.  Predictions come from TLC.

// type of Arshal.tla
type mtype struct {
	K      string   `json:"k"`
	Bits   int      `json:"bits"`
	Signed bool     `json:"signed"`
	E      *mtype   `json:"e"`
	N      int      `json:"n"`
	Key    *mtype   `json:"key"`
	F      []mfield `json:"f"`
	FB     []*mtype `json:"fb"` // struct: element type of the embedded fallback map, if any

	rt reflect.Type
}

type mfield struct {
	Name      []int  `json:"name"`
	T         *mtype `json:"t"`
	OmitZero  bool   `json:"omitzero"`
	OmitEmpty bool   `json:"omitempty"`
	Str       bool   `json:"str"`
	Casing    int    `json:"casing"`
	Fmt       string `json:"fmt"`
}

var anyRT = reflect.TypeOf((*any)(nil)).Elem()

func cpsToString(cps []int) string {
	var sb strings.Builder
	for _, c := range cps {
		sb.WriteRune(rune(c))
	}
	return sb.String()
}

func stringToCps(s string) []any {
	out := []any{}
	for _, r := range s {
		out = append(out, float64(r))
	}
	return out
}

func (t *mtype) goType() reflect.Type {
	if t.rt != nil {
		return t.rt
	}
	var rt reflect.Type
	switch t.K {
	case "bool":
		rt = reflect.TypeOf(false)
	case "str":
		rt = reflect.TypeOf("")
	case "float":
		rt = reflect.TypeOf(float64(0))
	case "int":
		switch {
		case t.Signed && t.Bits == 8:
			rt = reflect.TypeOf(int8(0))
		case t.Signed && t.Bits == 16:
			rt = reflect.TypeOf(int16(0))
		case t.Signed && t.Bits == 32:
			rt = reflect.TypeOf(int32(0))
		case t.Signed:
			rt = reflect.TypeOf(int64(0))
		case t.Bits == 8:
			rt = reflect.TypeOf(uint8(0))
		case t.Bits == 16:
			rt = reflect.TypeOf(uint16(0))
		case t.Bits == 32:
			rt = reflect.TypeOf(uint32(0))
		default:
			rt = reflect.TypeOf(uint64(0))
		}
	case "dur":
		rt = reflect.TypeOf(time.Duration(0))
	case "time":
		rt = reflect.TypeOf(time.Time{})
	case "bytes":
		rt = reflect.TypeOf([]byte(nil))
	case "barr":
		rt = reflect.ArrayOf(t.N, reflect.TypeOf(byte(0)))
	case "slice":
		rt = reflect.SliceOf(t.E.goType())
	case "array":
		rt = reflect.ArrayOf(t.N, t.E.goType())
	case "ptr":
		rt = reflect.PointerTo(t.E.goType())
	case "map":
		rt = reflect.MapOf(t.Key.goType(), t.E.goType())
	case "any":
		rt = anyRT
	case "struct":
		fs := make([]reflect.StructField, len(t.F))
		for i, f := range t.F {
			parts := []string{cpsToString(f.Name)}
			switch f.Casing {
			case 1:
				parts = append(parts, "case:ignore")
			case 2:
				parts = append(parts, "case:strict")
			}
			if f.OmitZero {
				parts = append(parts, "omitzero")
			}
			if f.OmitEmpty {
				parts = append(parts, "omitempty")
			}
			if f.Str {
				parts = append(parts, "string")
			}
			if f.Fmt != "" {
				parts = append(parts, "format:"+f.Fmt)
			}
			fs[i] = reflect.StructField{Name: "F" + strconv.Itoa(i), Type: f.T.goType(),
				Tag: reflect.StructTag(`json:` + strconv.Quote(strings.Join(parts, ",")))}
		}
		if len(t.FB) == 1 {
			fs = append(fs, reflect.StructField{Name: "Xfb", Type: reflect.MapOf(reflect.TypeOf(""), t.FB[0].goType()), Tag: `json:",embed"`})
		}
		rt = reflect.StructOf(fs)
	default:
		panic("model type kind " + t.K)
	}
	t.rt = rt
	return rt
}

func digitsToString(x any) string {
	var sb strings.Builder
	for _, d := range x.([]any) {
		sb.WriteByte(byte('0' + int(d.(float64))))
	}
	return sb.String()
}

// floatOf converts the model's decimal [neg, d, n] (0.d1..dk * 10^n) to a float64
func floatOf(m map[string]any) float64 {
	ds := digitsToString(m["d"])
	neg := m["neg"].(bool)
	if ds == "" {
		switch int(m["n"].(float64)) { // the codes of the non-finite values
		case 1:
			if neg {
				return math.Inf(-1)
			}
			return math.Inf(1)
		case 2:
			return math.NaN()
		}
		if neg {
			return negZero()
		}
		return 0
	}
	s := "0." + ds + "e" + strconv.Itoa(int(m["n"].(float64)))
	f, err := strconv.ParseFloat(s, 64)
	if err != nil {
		panic(err)
	}
	if neg {
		f = -f
	}
	return f
}

func negZero() float64 { z := 0.0; return -z }

// set stores the model value g (decoded JSON of a record of Arshal.tla) into v
func (t *mtype) set(v reflect.Value, g any) {
	m, _ := g.(map[string]any)
	switch t.K {
	case "bool":
		v.SetBool(m["b"].(bool))
	case "str":
		v.SetString(cpsToString(toInts(m["s"])))
	case "float":
		v.SetFloat(floatOf(m))
	case "int":
		s := digitsToString(m["mag"])
		if t.Signed {
			if m["neg"].(bool) {
				s = "-" + s
			}
			n, err := strconv.ParseInt(s, 10, 64)
			if err != nil {
				panic(err)
			}
			v.SetInt(n)
		} else {
			n, err := strconv.ParseUint(s, 10, 64)
			if err != nil {
				panic(err)
			}
			v.SetUint(n)
		}
	case "dur":
		n, _ := new(big.Int).SetString(digitsToString(m["mag"]), 10)
		if m["neg"].(bool) {
			n.Neg(n)
		}
		v.SetInt(n.Int64())
	case "time":
		n, _ := new(big.Int).SetString(digitsToString(m["mag"]), 10)
		if m["neg"].(bool) {
			n.Neg(n)
		}
		sec, nsec := new(big.Int).DivMod(n, big.NewInt(1e9), new(big.Int)) // Euclidean: 0 <= nsec
		v.Set(reflect.ValueOf(time.Unix(sec.Int64(), nsec.Int64()).UTC()))
	case "bytes":
		if m["nil"].(bool) {
			v.SetZero()
			return
		}
		v.SetBytes(bytesOf(toInts(m["b"])))
	case "barr":
		for i, b := range toInts(m["b"]) {
			v.Index(i).SetUint(uint64(b))
		}
	case "slice":
		if m["nil"].(bool) {
			v.SetZero()
			return
		}
		es := m["e"].([]any)
		s := reflect.MakeSlice(t.goType(), len(es), len(es))
		for i, e := range es {
			t.E.set(s.Index(i), e)
		}
		v.Set(s)
	case "array":
		for i, e := range m["e"].([]any) {
			t.E.set(v.Index(i), e)
		}
	case "ptr":
		if m["nil"].(bool) {
			v.SetZero()
			return
		}
		p := reflect.New(t.E.goType())
		t.E.set(p.Elem(), m["e"])
		v.Set(p)
	case "map":
		if m["nil"].(bool) {
			v.SetZero()
			return
		}
		mp := reflect.MakeMap(t.goType())
		for _, kv := range m["m"].([]any) {
			pair := kv.([]any)
			k := reflect.New(t.Key.goType()).Elem()
			t.Key.set(k, pair[0])
			e := reflect.New(t.E.goType()).Elem()
			t.E.set(e, pair[1])
			mp.SetMapIndex(k, e)
		}
		v.Set(mp)
	case "any":
		if m["nil"].(bool) {
			v.SetZero()
			return
		}
		dt := decodeMType(m["dt"])
		e := reflect.New(dt.goType()).Elem()
		dt.set(e, m["e"])
		v.Set(e)
	case "struct":
		for i, e := range m["f"].([]any) {
			t.F[i].T.set(v.Field(i), e)
		}
		if len(t.FB) == 1 {
			(&mtype{K: "map", Key: &mtype{K: "str"}, E: t.FB[0]}).set(v.Field(len(t.F)), m["fb"])
		}
	}
}

func decodeMType(x any) *mtype {
	b, _ := json.Marshal(x)
	var t mtype
	if err := json.Unmarshal(b, &t); err != nil {
		panic(err)
	}
	return &t
}

func digitsOf(s string) []any {
	out := []any{}
	for _, c := range s {
		out = append(out, float64(c-'0'))
	}
	return out
}

// modelOfType describes a Go type met behind an interface in the model's type language
func modelOfType(rt reflect.Type) map[string]any {
	switch rt.Kind() {
	case reflect.Bool:
		return map[string]any{"k": "bool"}
	case reflect.String:
		return map[string]any{"k": "str"}
	case reflect.Float64:
		return map[string]any{"k": "float"}
	case reflect.Int8, reflect.Int16, reflect.Int32, reflect.Int64:
		return map[string]any{"k": "int", "bits": float64(rt.Bits()), "signed": true}
	case reflect.Uint8, reflect.Uint16, reflect.Uint32, reflect.Uint64:
		return map[string]any{"k": "int", "bits": float64(rt.Bits()), "signed": false}
	case reflect.Slice:
		if rt.Elem().Kind() == reflect.Uint8 {
			return map[string]any{"k": "bytes"}
		}
		return map[string]any{"k": "slice", "e": modelOfType(rt.Elem())}
	case reflect.Array:
		if rt.Elem().Kind() == reflect.Uint8 {
			return map[string]any{"k": "barr", "n": float64(rt.Len())}
		}
		return map[string]any{"k": "array", "n": float64(rt.Len()), "e": modelOfType(rt.Elem())}
	case reflect.Pointer:
		return map[string]any{"k": "ptr", "e": modelOfType(rt.Elem())}
	case reflect.Map:
		return map[string]any{"k": "map", "key": modelOfType(rt.Key()), "e": modelOfType(rt.Elem())}
	case reflect.Interface:
		return map[string]any{"k": "any"}
	}
	return map[string]any{"k": "other:" + rt.String()}
}

func typeFromModel(m map[string]any) *mtype { return decodeMType(m) }

// render describes the Go value v of model type t in the model's value language
func (t *mtype) render(v reflect.Value) any {
	switch t.K {
	case "bool":
		return map[string]any{"b": v.Bool()}
	case "str":
		return map[string]any{"s": stringToCps(v.String())}
	case "float":
		f := v.Float()
		if math.IsNaN(f) {
			return map[string]any{"neg": false, "d": []any{}, "n": float64(2)}
		}
		if math.IsInf(f, 0) {
			return map[string]any{"neg": f < 0, "d": []any{}, "n": float64(1)}
		}
		if f == 0 {
			return map[string]any{"neg": strconv.FormatFloat(f, 'g', -1, 64) == "-0", "d": []any{}, "n": float64(0)}
		}
		// shortest digits: d.ddddde±xx
		s := strconv.FormatFloat(f, 'e', -1, 64)
		neg := s[0] == '-'
		if neg {
			s = s[1:]
		}
		mant, exp, _ := strings.Cut(s, "e")
		e, _ := strconv.Atoi(exp)
		ds := strings.Replace(mant, ".", "", 1)
		ds = strings.TrimRight(ds, "0")
		return map[string]any{"neg": neg, "d": digitsOf(ds), "n": float64(e + 1)}
	case "int":
		if t.Signed {
			n := v.Int()
			s := strconv.FormatInt(n, 10)
			return map[string]any{"neg": n < 0, "mag": digitsOf(strings.TrimPrefix(s, "-"))}
		}
		return map[string]any{"neg": false, "mag": digitsOf(strconv.FormatUint(v.Uint(), 10))}
	case "dur":
		n := v.Int()
		s := strconv.FormatInt(n, 10)
		return map[string]any{"neg": n < 0, "mag": digitsOf(strings.TrimPrefix(s, "-"))}
	case "time":
		t := v.Interface().(time.Time)
		n := new(big.Int).Mul(big.NewInt(t.Unix()), big.NewInt(1e9))
		n.Add(n, big.NewInt(int64(t.Nanosecond())))
		return map[string]any{"neg": n.Sign() < 0, "mag": digitsOf(new(big.Int).Abs(n).String())}
	case "bytes", "barr":
		bs := []any{}
		for i := 0; i < v.Len(); i++ {
			bs = append(bs, float64(v.Index(i).Uint()))
		}
		if t.K == "barr" {
			return map[string]any{"b": bs}
		}
		return map[string]any{"nil": v.IsNil(), "b": bs}
	case "slice":
		es := []any{}
		for i := 0; i < v.Len(); i++ {
			es = append(es, t.E.render(v.Index(i)))
		}
		return map[string]any{"nil": v.IsNil(), "e": es}
	case "array":
		es := []any{}
		for i := 0; i < v.Len(); i++ {
			es = append(es, t.E.render(v.Index(i)))
		}
		return map[string]any{"e": es}
	case "ptr":
		if v.IsNil() {
			return map[string]any{"nil": true}
		}
		return map[string]any{"nil": false, "e": t.E.render(v.Elem())}
	case "map":
		type ent struct {
			name string
			kv   []any
		}
		var ents []ent
		for it := v.MapRange(); it.Next(); {
			var name string
			if t.Key.K == "str" {
				name = it.Key().String()
			} else if t.Key.Signed {
				name = strconv.FormatInt(it.Key().Int(), 10)
			} else {
				name = strconv.FormatUint(it.Key().Uint(), 10)
			}
			ents = append(ents, ent{name, []any{t.Key.render(it.Key()), t.E.render(it.Value())}})
		}
		sort.Slice(ents, func(i, j int) bool { return ents[i].name < ents[j].name })
		ms := []any{}
		for _, e := range ents {
			ms = append(ms, any(e.kv))
		}
		return map[string]any{"nil": v.IsNil(), "m": ms}
	case "any":
		if v.IsNil() {
			return map[string]any{"nil": true}
		}
		dm := modelOfType(v.Elem().Type())
		return map[string]any{"nil": false, "dt": dm, "e": typeFromModel(dm).render(v.Elem())}
	case "struct":
		fs := []any{}
		for i := range t.F {
			fs = append(fs, t.F[i].T.render(v.Field(i)))
		}
		fb := any(map[string]any{"nil": true, "m": []any{}})
		if len(t.FB) == 1 {
			fb = (&mtype{K: "map", Key: &mtype{K: "str"}, E: t.FB[0]}).render(v.Field(len(t.F)))
		}
		return map[string]any{"f": fs, "fb": fb}
	}
	return "unrenderable " + t.K
}

type mopts struct {
	Det bool `json:"det"`
	Nsn bool `json:"nsn"`
	Nmn bool `json:"nmn"`
	Oz  bool `json:"oz"`
	Sn  bool `json:"sn"`
	Ru  bool `json:"ru"`
	Ci  bool `json:"ci"`
	Ad  bool `json:"ad"`
}

func (o mopts) options() []jsonv2.Options {
	out := []jsonv2.Options{jsonv2.ExperimentalSupportFormatTag(true)}
	if o.Det {
		out = append(out, jsonv2.Deterministic(true))
	}
	if o.Nsn {
		out = append(out, jsonv2.FormatNilSliceAsNull(true))
	}
	if o.Nmn {
		out = append(out, jsonv2.FormatNilMapAsNull(true))
	}
	if o.Oz {
		out = append(out, jsonv2.OmitZeroStructFields(true))
	}
	if o.Sn {
		out = append(out, jsonv2.StringifyNumbers(true))
	}
	if o.Ru {
		out = append(out, jsonv2.RejectUnknownMembers(true))
	}
	if o.Ci {
		out = append(out, jsonv2.MatchCaseInsensitiveNames(true))
	}
	if o.Ad {
		out = append(out, jsontext.AllowDuplicateNames(true))
	}
	return out
}

// order-insensitive form of a JSON text (only used when map order is unspecified)
func sortedMembers(b []byte) string {
	v := jsontext.Value(append([]byte(nil), b...))
	if err := v.Format(jsontext.ReorderRawObjects(true), jsontext.AllowDuplicateNames(true), jsontext.AllowInvalidUTF8(true), jsontext.PreserveRawStrings(true)); err != nil {
		return string(b)
	}
	return string(v)
}

// replay-arshal cases=<TLC out> universe=<json> out=<mismatches>
func replayArshal(args map[string]string) error {
	out, err := newMismatchSink(argStr(args, "out", "/dev/null"))
	if err != nil {
		return err
	}
	defer out.close()
	prop := argStr(args, "prop", "")
	var tcache sync.Map // type text -> *mtype
	typeOf := func(x any) *mtype {
		b, _ := json.Marshal(x)
		if t, ok := tcache.Load(string(b)); ok {
			return t.(*mtype)
		}
		t := decodeMType(x)
		t.goType()
		a, _ := tcache.LoadOrStore(string(b), t)
		return a.(*mtype)
	}
	optsOf := func(x any) mopts {
		b, _ := json.Marshal(x)
		var o mopts
		json.Unmarshal(b, &o)
		return o
	}
	var cases, evals atomic.Int64
	one := func(line []byte) {
		var rec []any
		if err := json.Unmarshal(line, &rec); err != nil || len(rec) < 6 {
			return
		}
		kind, _ := rec[0].(string)
		if kind != "m" && kind != "u" {
			return
		}
		cases.Add(1)
		bad := func(what string, got, want any) {
			m := map[string]any{"family": "arshal", "case": rec, "what": what, "got": got, "want": want}
			if prop != "" {
				m["prop"] = prop
			}
			out.put(m)
		}
		defer func() {
			if r := recover(); r != nil {
				out.put(map[string]any{"prop": "C20", "family": "arshal", "case": rec, "what": "panic", "detail": fmt.Sprint(r)})
			}
		}()
		t := typeOf(rec[1])
		o := optsOf(rec[3])
		p := reflect.New(t.goType())
		t.set(p.Elem(), rec[2])
		evals.Add(1)
		if kind == "m" {
			wantOK := rec[4].(bool)
			want := string(bytesOf(toInts(rec[5])))
			got, err := jsonv2.Marshal(p.Interface(), o.options()...)
			if (err == nil) != wantOK {
				bad("marshal-ok", fmt.Sprint(err), wantOK)
				return
			}
			if err != nil {
				return
			}
			if string(got) != want && (o.Det || sortedMembers(got) != sortedMembers([]byte(want))) {
				bad("marshal-bytes", string(got), want)
			}
			// the value form as well (non-addressable route)
			got2, err2 := jsonv2.Marshal(p.Elem().Interface(), o.options()...)
			if err2 != nil || (string(got2) != want && (o.Det || sortedMembers(got2) != sortedMembers([]byte(want)))) {
				bad("marshal-bytes-by-value", string(got2), want)
			}
			return
		}
		text := bytesOf(toInts(rec[4]))
		wantOK := rec[5].(bool)
		err := jsonv2.Unmarshal(text, p.Interface(), o.options()...)
		if (err == nil) != wantOK {
			bad("unmarshal-ok", fmt.Sprint(err), wantOK)
			return
		}
		if err != nil {
			return
		}
		got := t.render(p.Elem())
		if !reflect.DeepEqual(got, rec[6]) {
			bad("unmarshal-value", got, rec[6])
		}
	}
	if err := parallelLines(args["cases"], runtime.NumCPU(), one); err != nil {
		return err
	}
	summary(map[string]any{"cases": cases.Load(), "evaluations": evals.Load(), "mismatches": out.n})
	return nil
}

func init() { commands["replay-arshal"] = replayArshal }

// ------------------------------------------------------------------ trace validation against Arshal.tla

// modelOfDesc maps a generated type description into the model's type language (nil when the
// description uses something the model does not cover)
func modelOfDesc(t *tdesc) *mtype {
	intT := func(bits int, signed bool) *mtype { return &mtype{K: "int", Bits: bits, Signed: signed} }
	switch t.K {
	case "bool":
		return &mtype{K: "bool"}
	case "string":
		return &mtype{K: "str"}
	case "float64":
		return &mtype{K: "float"}
	case "int8":
		return intT(8, true)
	case "int16":
		return intT(16, true)
	case "int32":
		return intT(32, true)
	case "int64", "int":
		return intT(64, true)
	case "uint8":
		return intT(8, false)
	case "uint16":
		return intT(16, false)
	case "uint32":
		return intT(32, false)
	case "uint64", "uint":
		return intT(64, false)
	case "any":
		return &mtype{K: "any"}
	case "bytes":
		return &mtype{K: "bytes"}
	case "slice", "array", "ptr":
		if t.K == "slice" && t.Elem.K == "uint8" { // []byte and [N]byte are binary data, not lists
			return &mtype{K: "bytes"}
		}
		if t.K == "array" && t.Elem.K == "uint8" {
			return &mtype{K: "barr", N: t.N}
		}
		e := modelOfDesc(t.Elem)
		if e == nil {
			return nil
		}
		return &mtype{K: t.K, E: e, N: t.N}
	case "map":
		k, e := modelOfDesc(t.Key), modelOfDesc(t.Elem)
		if k == nil || e == nil || (k.K != "str" && k.K != "int") {
			return nil
		}
		return &mtype{K: "map", Key: k, E: e}
	case "struct":
		m := &mtype{K: "struct", F: []mfield{}}
		for _, f := range t.Fields {
			if f.Embedded {
				return nil
			}
			ft := modelOfDesc(f.T)
			if f.T.K == "time" || f.T.K == "duration" || (f.T.K == "ptr" && (f.T.Elem.K == "time" || f.T.Elem.K == "duration")) {
				k := map[string]string{"time": "time", "duration": "dur"}[strings.TrimPrefix(f.T.K+f.T.elemK(), "ptr")]
				ft = &mtype{K: k}
				if f.T.K == "ptr" {
					ft = &mtype{K: "ptr", E: ft}
				}
			}
			if ft == nil {
				return nil
			}
			if strings.ContainsAny(jsonNameOf(f), "\"\\'`") { // would need quoting inside the tag; the generator does not quote
				return nil
			}
			mf := mfield{T: ft, Name: []int{}}
			for _, r := range jsonNameOf(f) {
				mf.Name = append(mf.Name, int(r))
			}
			if f.Tag != "" {
				tag, _ := strconv.Unquote(strings.TrimPrefix(f.Tag, "json:"))
				for _, o := range strings.Split(tag, ",")[1:] {
					switch o {
					case "omitzero":
						mf.OmitZero = true
					case "omitempty":
						mf.OmitEmpty = true
					case "string":
						mf.Str = true
					default:
						fm, ok := strings.CutPrefix(o, "format:")
						if !ok {
							return nil
						}
						mf.Fmt = fm
					}
				}
			}
			if base := strings.TrimPrefix(f.T.K+f.T.elemK(), "ptr"); base == "time" && mf.Fmt == "" {
				return nil // the default representation of time.Time (RFC 3339) is not modelled
			}
			if mf.Fmt != "" && !modelledFormat(ft, mf.Fmt) {
				return nil
			}
			m.F = append(m.F, mf)
		}
		return m
	}
	return nil
}

// modelledFormat: the `format` options Arshal.tla gives a meaning for the type (through pointers)
func modelledFormat(t *mtype, f string) bool {
	in := func(xs ...string) bool {
		for _, x := range xs {
			if x == f {
				return true
			}
		}
		return false
	}
	switch t.K {
	case "ptr":
		return modelledFormat(t.E, f)
	case "dur":
		return in("sec", "milli", "micro", "nano", "iso8601")
	case "time":
		return in("unix", "unixmilli", "unixmicro", "unixnano")
	case "bytes", "barr":
		return in("base64", "base64url", "base32", "base32hex", "base16", "hex", "array")
	case "float":
		return in("nonfinite")
	case "slice", "map":
		return in("emitnull", "emitempty")
	}
	return false
}

// the model type as JSON-able data (every field of the TLA+ records present)
func (t *mtype) data() map[string]any {
	switch t.K {
	case "int":
		return map[string]any{"k": "int", "bits": t.Bits, "signed": t.Signed}
	case "slice", "ptr":
		return map[string]any{"k": t.K, "e": t.E.data()}
	case "barr":
		return map[string]any{"k": "barr", "n": t.N}
	case "array":
		return map[string]any{"k": "array", "n": t.N, "e": t.E.data()}
	case "map":
		return map[string]any{"k": "map", "key": t.Key.data(), "e": t.E.data()}
	case "struct":
		fs := []any{}
		for _, f := range t.F {
			fs = append(fs, map[string]any{"name": f.Name, "t": f.T.data(), "omitzero": f.OmitZero, "omitempty": f.OmitEmpty, "str": f.Str, "casing": f.Casing, "fmt": f.Fmt})
		}
		fb := []any{}
		for _, e := range t.FB {
			fb = append(fb, e.data())
		}
		return map[string]any{"k": "struct", "f": fs, "fb": fb}
	}
	return map[string]any{"k": t.K}
}

func hasOther(x any) bool {
	switch v := x.(type) {
	case map[string]any:
		if k, ok := v["k"].(string); ok && strings.HasPrefix(k, "other:") {
			return true
		}
		for _, e := range v {
			if hasOther(e) {
				return true
			}
		}
	case []any:
		for _, e := range v {
			if hasOther(e) {
				return true
			}
		}
	}
	return false
}

type modelCase struct {
	ID    int            `json:"id"`
	Prop  string         `json:"prop"`
	Kind  string         `json:"kind"` // m | u | skip
	Seed  []uint64       `json:"seed"`
	T     map[string]any `json:"t"`
	V     any            `json:"v"`   // m: the value; u: the resulting value (0 when the call failed)
	Old   any            `json:"old"` // u: the pre-existing value
	O     mopts          `json:"o"`
	Text  []int          `json:"text"`
	OK    bool           `json:"ok"`
	Out   []int          `json:"out"`
	Panic string         `json:"panic"`
	Note  string         `json:"note"` // error text, for the reader of a rejected record
}

var tvMOpts = []mopts{{Det: true}, {Det: true, Nsn: true, Nmn: true}, {Det: true, Oz: true}, {Det: true, Sn: true}, {Det: true, Sn: true, Oz: true, Nsn: true}}
var tvUOpts = []mopts{{}, {Sn: true}, {Ru: true}, {Ci: true}, {Ad: true}, {Ad: true, Ci: true, Sn: true}}

func modelExec(c *modelCase) {
	defer func() {
		if r := recover(); r != nil {
			c.Panic = fmt.Sprint(r)
		}
		if c.Text == nil {
			c.Text = []int{}
		}
		if c.Out == nil {
			c.Out = []int{}
		}
		if c.V == nil {
			c.V = 0
		}
		if c.Old == nil {
			c.Old = 0
		}
		if c.T == nil {
			c.T = map[string]any{"k": "none"}
		}
	}()
	r := newRngPCG(c.Seed[0], c.Seed[1])
	cfg := &typeCfg{maxDepth: 1 + r.IntN(4), maxFields: 1 + r.IntN(6), tags: true, anys: true, floats: true, plainNames: r.IntN(3) != 0,
		times: r.IntN(2) == 0, formats: true,
		mapKeys: []string{"string", "string", "int", "int8", "uint64", "uint16"}}
	td := genTypeDesc(r, cfg, 0)
	mt := modelOfDesc(td)
	kind := c.Kind
	c.Kind = "skip"
	if mt == nil {
		return
	}
	rt := buildType(td)
	mt.rt = rt
	c.T = mt.data()
	// the generator's more exotic names can make a struct tag the library refuses: outside the domain
	if _, err := jsonv2.Marshal(reflect.Zero(rt).Interface()); err != nil && strings.Contains(err.Error(), "malformed `json` tag") {
		return
	}
	if kind == "m" {
		v := genGoValue(r, &valCfg{nils: true}, rt, 0)
		c.O = tvMOpts[r.IntN(len(tvMOpts))]
		mv := mt.render(v)
		if hasOther(mv) {
			return
		}
		p := reflect.New(rt)
		p.Elem().Set(v)
		out, err := jsonv2.Marshal(p.Interface(), c.O.options()...)
		c.Kind, c.V, c.OK, c.Out = "m", mv, err == nil, ints(out)
		if err != nil {
			c.Out, c.Note = []int{}, truncate(err.Error(), 200)
		}
		return
	}
	old := genGoValue(r, &valCfg{nils: true}, rt, 0)
	if r.IntN(3) == 0 {
		old = reflect.New(rt).Elem()
	}
	ov := mt.render(old)
	if hasOther(ov) {
		return
	}
	var sb strings.Builder
	genJSONFor(r, td, &sb, 0)
	text := []byte(sb.String())
	switch r.IntN(6) {
	case 0:
		text = mutate(r, text)
	case 1: // the text of another value of another type: mostly kind mismatches
		sb.Reset()
		genJSONFor(r, genTypeDesc(r, cfg, 0), &sb, 0)
		text = []byte(sb.String())
	}
	if !numbersInsideModel(text, mtHas(mt, "float", "any")) {
		return
	}
	c.O = tvUOpts[r.IntN(len(tvUOpts))]
	p := reflect.New(rt)
	p.Elem().Set(old)
	err := jsonv2.Unmarshal(text, p.Interface(), c.O.options()...)
	c.Kind, c.Old, c.Text, c.OK = "u", ov, ints(text), err == nil
	if err != nil {
		c.Note = truncate(err.Error(), 200)
	}
	if err == nil {
		c.V = mt.render(p.Elem())
		if hasOther(c.V) {
			c.Kind = "skip"
		}
	}
}

func newRngPCG(a, b uint64) *rand.Rand { return rand.New(rand.NewPCG(a, b)) }

// drive-arshalmodel seed=N n=N prop=Cxx out=<ndjson> [redo=<records>]
func driveArshalModel(args map[string]string) error {
	out, err := newSink(args["out"])
	if err != nil {
		return err
	}
	defer out.close()
	if redo := args["redo"]; redo != "" {
		err := tlcLines(redo, func(line []byte) {
			var c modelCase
			if err := json.Unmarshal(line, &c); err != nil {
				panic(err)
			}
			c2 := modelCase{ID: c.ID, Prop: c.Prop, Kind: c.Kind, Seed: c.Seed}
			modelExec(&c2)
			out.put(c2)
		})
		summary(map[string]any{"cases": out.n})
		return err
	}
	seed, n, prop := uint64(argInt(args, "seed", 1)), argInt(args, "n", 1000), argStr(args, "prop", "C04")
	kinds := strings.Split(argStr(args, "kinds", "m,u"), ",")
	var wg sync.WaitGroup
	var skipped atomic.Int64
	workers := runtime.NumCPU()
	for w := 0; w < workers; w++ {
		wg.Add(1)
		go func(w int) {
			defer wg.Done()
			r := newRng(seed, uint64(4100+w))
			for i := w; i < n; i += workers {
				c := modelCase{ID: i + 1, Prop: prop, Kind: kinds[r.IntN(len(kinds))], Seed: []uint64{r.Uint64(), r.Uint64()}}
				modelExec(&c)
				if c.Kind == "skip" {
					skipped.Add(1)
				}
				out.put(c)
			}
		}(w)
	}
	wg.Wait()
	summary(map[string]any{"cases": n, "outside_model": skipped.Load()})
	return nil
}

func init() { commands["drive-arshalmodel"] = driveArshalModel }

func mtHas(t *mtype, kinds ...string) bool {
	if t == nil {
		return false
	}
	for _, k := range kinds {
		if t.K == k {
			return true
		}
	}
	if mtHas(t.E, kinds...) || mtHas(t.Key, kinds...) {
		return true
	}
	for _, f := range t.F {
		if mtHas(f.T, kinds...) {
			return true
		}
	}
	return false
}

// numbersInsideModel: the model converts a literal to float64 by itself only when it has at
// most 15 significant digits and lies well inside the range, or far outside it (overflow,
// underflow to zero).  Everything else belongs to C10's check.  Texts that are not valid JSON
// are kept: the model does not look at their numbers.
func numbersInsideModel(text []byte, floats bool) bool {
	d := jsontext.NewDecoder(bytes.NewReader(text), jsontext.AllowDuplicateNames(true), jsontext.AllowInvalidUTF8(true))
	for {
		tok, err := d.ReadToken()
		if err != nil {
			return true
		}
		if tok.Kind() != '0' {
			continue
		}
		lit := strings.TrimPrefix(tok.String(), "-")
		mant, exp, isExp := strings.Cut(strings.ToLower(lit), "e")
		isFloat := isExp || strings.Contains(mant, ".")
		if !isFloat && !floats {
			continue // integers go to integer types: any length is decided by the model
		}
		intPart, frac, _ := strings.Cut(mant, ".")
		digits := strings.TrimLeft(intPart+frac, "0")
		lead := len(intPart+frac) - len(digits) // leading zeros dropped
		sig := strings.TrimRight(digits, "0")
		if sig == "" {
			continue // zero
		}
		e, _ := strconv.Atoi(exp)
		if len(exp) > 6 {
			e = 1000000
			if strings.HasPrefix(exp, "-") {
				e = -1000000
			}
		}
		n := len(intPart) - lead + e // value = 0.sig * 10^n
		switch {
		case n >= 310 || n <= -330:
		case len(sig) <= 15 && n > -290 && n < 290:
		default:
			return false
		}
	}
}

func (t *tdesc) elemK() string {
	if t.K == "ptr" && t.Elem != nil {
		return t.Elem.K
	}
	return ""
}
