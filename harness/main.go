// Command harness binds the TLA+ specification in /verif/spec to the real
// go-json-experiment/json code.  It has two kinds of sub-commands:
//
//	replay-<family>  reads cases emitted by TLC (inputs + predicted observations),
//	                 executes them against the library and reports mismatches;
//	drive-<family>   generates inputs, executes them against the library and
//	                 logs what was observed (NDJSON) for validation by TLC.
//
// The harness never decides a property by itself: predictions come from TLC.
package main

import (
	"bufio"
	"encoding/json"
	"fmt"
	"os"
	"sort"
	"strconv"
	"strings"
	"sync"
)

type command func(args map[string]string) error

var commands = map[string]command{}

func main() {
	if len(os.Args) < 2 {
		names := []string{}
		for n := range commands {
			names = append(names, n)
		}
		sort.Strings(names)
		fmt.Fprintln(os.Stderr, "usage: harness <command> [key=value ...]\ncommands:", strings.Join(names, " "))
		os.Exit(2)
	}
	cmd, ok := commands[os.Args[1]]
	if !ok {
		fmt.Fprintln(os.Stderr, "unknown command", os.Args[1])
		os.Exit(2)
	}
	args := map[string]string{}
	for _, a := range os.Args[2:] {
		k, v, _ := strings.Cut(a, "=")
		args[k] = v
	}
	if err := cmd(args); err != nil {
		fmt.Fprintln(os.Stderr, "harness:", err)
		os.Exit(2)
	}
}

func argInt(args map[string]string, k string, def int) int {
	if v, ok := args[k]; ok {
		n, err := strconv.Atoi(v)
		if err != nil {
			panic(err)
		}
		return n
	}
	return def
}

func argStr(args map[string]string, k, def string) string {
	if v, ok := args[k]; ok {
		return v
	}
	return def
}

// tlcLines streams the JSON payloads that a TLC run printed with
// PrintT(ToJson(x)): lines of the form "…escaped json…".
func tlcLines(path string, fn func(line []byte)) error {
	f, err := os.Open(path)
	if err != nil {
		return err
	}
	defer f.Close()
	sc := bufio.NewScanner(f)
	sc.Buffer(make([]byte, 1<<20), 1<<28)
	for sc.Scan() {
		b := sc.Bytes()
		if len(b) < 2 || b[0] != '"' {
			if len(b) > 0 && (b[0] == '[' || b[0] == '{') { // already plain JSON
				fn(b)
			}
			continue
		}
		if !strings.Contains(string(b), `\`) {
			fn(b[1 : len(b)-1])
			continue
		}
		var s string
		if err := json.Unmarshal(b, &s); err != nil {
			return fmt.Errorf("bad TLC line %q: %v", b, err)
		}
		fn([]byte(s))
	}
	return sc.Err()
}

// parallelLines feeds lines to n workers.
func parallelLines(path string, workers int, fn func(line []byte)) error {
	ch := make(chan []byte, 1024)
	var wg sync.WaitGroup
	for i := 0; i < workers; i++ {
		wg.Add(1)
		go func() {
			defer wg.Done()
			for l := range ch {
				fn(l)
			}
		}()
	}
	err := tlcLines(path, func(l []byte) { ch <- append([]byte(nil), l...) })
	close(ch)
	wg.Wait()
	return err
}

// sink collects mismatches / trace records as NDJSON, concurrency safe.
type sink struct {
	mu  sync.Mutex
	w   *bufio.Writer
	f   *os.File
	n   int
	max int // 0 = unlimited; otherwise records beyond max are counted but not written
}

// newMismatchSink is a sink that keeps only the first records: a broken tree can
// produce millions of mismatches.
func newMismatchSink(path string) (*sink, error) {
	s, err := newSink(path)
	if s != nil {
		s.max = 2000
	}
	return s, err
}

func newSink(path string) (*sink, error) {
	f, err := os.Create(path)
	if err != nil {
		return nil, err
	}
	return &sink{w: bufio.NewWriterSize(f, 1<<20), f: f}, nil
}

func (s *sink) put(v any) {
	b, err := json.Marshal(v)
	if err != nil {
		panic(err)
	}
	s.mu.Lock()
	if s.max == 0 || s.n < s.max {
		s.w.Write(b)
		s.w.WriteByte('\n')
	}
	s.n++
	s.mu.Unlock()
}

func (s *sink) close() {
	s.w.Flush()
	s.f.Close()
}

func ints(b []byte) []int {
	r := make([]int, len(b))
	for i, c := range b {
		r[i] = int(c)
	}
	return r
}

func bytesOf(a []int) []byte {
	r := make([]byte, len(a))
	for i, c := range a {
		r[i] = byte(c)
	}
	return r
}

// summary is printed as the last stdout line of every command as JSON.
func summary(m map[string]any) {
	b, _ := json.Marshal(m)
	fmt.Println("SUMMARY " + string(b))
}
