package main

import (
	"fmt"
	"hash/fnv"
	"math/rand/v2"
	"reflect"
	"runtime"
	"sync"
	"sync/atomic"

	jsonv2 "github.com/go-json-experiment/json"
)

// A step travels as a tuple to keep traces small:
// [op, err, k, len, off, depth, idx, ptr, str, fd, acct, vok, panic, eoff, eptr, ecls]
func (s decStep) tuple() []any {
	if s.Idx == nil {
		s.Idx = [][]int64{}
	}
	if s.Ptr == nil {
		s.Ptr = [][]int{}
	}
	if s.Str == nil {
		s.Str = []int{}
	}
	if s.Eptr == nil {
		s.Eptr = [][]int{}
	}
	return []any{s.Op, s.Err, s.K, s.Len, s.Off, s.Depth, s.Idx, s.Ptr, s.Str, s.Fd, s.Acct, s.Vok, s.Panic, s.Eoff, s.Eptr, s.Ecls}
}

type decCase struct {
	ID    int     `json:"id"`
	Prop  string  `json:"prop"`
	In    []int   `json:"in"`
	AI    bool    `json:"ai"`
	AD    bool    `json:"ad"`
	Sched any     `json:"sched"`
	Steps [][]any `json:"steps"`
}

type decSched struct {
	Kind   string `json:"kind"`
	Chunks []int  `json:"chunks"`
	EOFD   bool   `json:"eofd"`
	Faults []int  `json:"faults"` // call indices whose next Read fails
}

// norm makes nil slices empty: the trace reader on the TLC side has no JSON null.
func (s decSched) norm() decSched {
	if s.Chunks == nil {
		s.Chunks = []int{}
	}
	if s.Faults == nil {
		s.Faults = []int{}
	}
	return s
}

func (s decSched) env(input []byte) *decEnv {
	fa := map[int]bool{}
	for _, i := range s.Faults {
		fa[i] = true
	}
	return newEnv(input, s.Kind, s.Chunks, nil, s.EOFD, fa)
}

func tuples(steps []decStep) [][]any {
	out := make([][]any, len(steps))
	for i, s := range steps {
		out[i] = s.tuple()
	}
	return out
}

// ------------------------------------------------------------------ replay

// expected step as emitted by MC_Decoder: [op, err, k, len, off, depth, idx, ptr, str]
type decPred struct {
	op, err string
	k, ln   int
	off     int64
	depth   int
	idx     [][]int64
	ptr     [][]int
	str     []int
}

func toInt(x any) int { return int(x.(float64)) }
func toInts(x any) []int {
	a := x.([]any)
	r := make([]int, len(a))
	for i := range a {
		r[i] = toInt(a[i])
	}
	return r
}
func toIntss(x any) [][]int {
	a := x.([]any)
	r := make([][]int, len(a))
	for i := range a {
		r[i] = toInts(a[i])
	}
	return r
}

func parsePred(x any) decPred {
	a := x.([]any)
	p := decPred{op: a[0].(string), err: a[1].(string), k: toInt(a[2]), ln: toInt(a[3]), off: int64(toInt(a[4])), depth: toInt(a[5])}
	for _, row := range a[6].([]any) {
		r := toInts(row)
		p.idx = append(p.idx, []int64{int64(r[0]), int64(r[1]), int64(r[2])})
	}
	p.ptr = toIntss(a[7])
	p.str = toInts(a[8])
	return p
}

func sameInts(a, b []int) bool {
	if len(a) != len(b) {
		return false
	}
	for i := range a {
		if a[i] != b[i] {
			return false
		}
	}
	return true
}

// stepMatches compares an observed fault-free step with the prediction.
func stepMatches(s decStep, p decPred) string {
	switch {
	case s.Panic != "":
		return "panic"
	case s.Err != p.err:
		return "err"
	case p.err == "nil" && (p.op == "tok" || p.op == "val") && s.K != p.k:
		return "kind"
	case p.op == "peek" && p.k != -1 && s.K != p.k: // -1: left open by the specification
		return "peekkind"
	case p.err == "nil" && (p.op == "tok" || p.op == "val") && s.Len != -1 && s.Len != p.ln:
		return "len"
	case s.Off != p.off:
		return "offset"
	case s.Depth != p.depth:
		return "depth"
	case !reflect.DeepEqual(s.Idx, p.idx):
		return "stackindex"
	case p.op == "ptr" && !reflect.DeepEqual(s.Ptr, p.ptr):
		return "pointer"
	case p.op == "tok" && p.err == "nil" && p.k == '"' && !sameInts(s.Str, p.str):
		return "string"
	case !s.Acct:
		return "unread-accounting"
	case !s.Vok:
		return "value-bytes"
	}
	return ""
}

// schedules for exhaustive replay of short documents
func replaySchedules(n int, h uint64) []decSched {
	out := []decSched{{Kind: "buffer"}, {Kind: "chunks"}, {Kind: "chunks", Chunks: []int{1}}, {Kind: "chunks", Chunks: []int{1}, EOFD: true},
		{Kind: "chunks", Chunks: []int{0, 1}}, {Kind: "chunks", Chunks: []int{0, 0, 3, 0, 1}, EOFD: true}, {Kind: "chunks", EOFD: true}}
	for c := 1; c < n; c++ { // every single cut
		out = append(out, decSched{Kind: "chunks", Chunks: []int{c, n}})
	}
	if n <= 9 { // every composition
		for m := 1; m < 1<<(n-1); m++ {
			var ch []int
			run := 1
			for i := 0; i < n-1; i++ {
				if m>>i&1 == 1 {
					ch = append(ch, run)
					run = 1
				} else {
					run++
				}
			}
			ch = append(ch, run)
			out = append(out, decSched{Kind: "chunks", Chunks: ch, EOFD: m&1 == 1})
		}
	} else {
		r := rand.New(rand.NewPCG(h, 7))
		for k := 0; k < 12; k++ {
			var ch []int
			for i := 0; i < 6; i++ {
				ch = append(ch, r.IntN(5))
			}
			ch = append(ch, 1+r.IntN(4))
			out = append(out, decSched{Kind: "chunks", Chunks: ch, EOFD: k%2 == 0})
		}
	}
	return out
}

// replay-dec cases=<TLC out> out=<mismatches> faultout=<trace for TLC>
func replayDec(args map[string]string) error {
	out, err := newMismatchSink(argStr(args, "out", "/dev/null"))
	if err != nil {
		return err
	}
	defer out.close()
	fout, err := newSink(argStr(args, "faultout", "/dev/null"))
	if err != nil {
		return err
	}
	defer fout.close()
	var cases, evals, faulted atomic.Int64
	plain := argStr(args, "scheds", "all") == "plain"
	fsample := uint64(argInt(args, "faultsample", 1))
	plainTrace := argStr(args, "tracemode", "fault") == "plain"
	err = parallelLines(args["cases"], runtime.NumCPU(), func(line []byte) {
		var rec []any
		if err := jsonv2.Unmarshal(line, &rec); err != nil || len(rec) != 4 {
			return
		}
		input := bytesOf(toInts(rec[0]))
		ai, ad := rec[1].(bool), rec[2].(bool)
		var preds []decPred
		var ops []string
		for _, x := range rec[3].([]any) {
			p := parsePred(x)
			preds = append(preds, p)
			ops = append(ops, p.op)
		}
		id := int(cases.Add(1))
		hh := fnv.New64a()
		hh.Write(line)
		h := hh.Sum64()
		scheds := replaySchedules(len(input), h)
		if plain {
			scheds = scheds[:2]
		}
		for _, sc := range scheds {
			steps := decRun(sc.env(input), ai, ad, ops)
			evals.Add(1)
			for i, s := range steps {
				if why := stepMatches(s, preds[i]); why != "" {
					prop := "C05"
					if sc.Kind == "buffer" || (sc.Kind == "chunks" && len(sc.Chunks) == 0 && !sc.EOFD) {
						prop = "C16"
					}
					if why == "panic" {
						prop = "C20"
					}
					out.put(map[string]any{"prop": prop, "family": "dec", "case": rec, "sched": sc, "step": i, "why": why,
						"text": fmt.Sprintf("%q", input), "got": s.tuple(), "want": rec[3].([]any)[i]})
					break
				}
			}
		}
		// one faulted execution per (sampled) program, validated by TLC (Trace_Decoder)
		if fsample == 0 || h%fsample != 0 {
			return
		}
		r := rand.New(rand.NewPCG(h, 11))
		sc := decSched{Kind: "chunks", Chunks: []int{1 + r.IntN(3), r.IntN(3), 1 + r.IntN(4)}, EOFD: r.IntN(2) == 0}
		var fops []string
		tprop := "C05"
		if plainTrace { // no faults, plain reader: the trace is about positions (C16)
			sc = decSched{Kind: []string{"buffer", "chunks"}[r.IntN(2)]}
			fops = ops
			tprop = "C16"
		} else {
			for _, op := range ops {
				fops = append(fops, op)
				if r.IntN(3) == 0 && op != "ptr" {
					sc.Faults = append(sc.Faults, len(fops)-1)
					if op != "peek" {
						fops = append(fops, op) // retry the interrupted call
					}
				}
			}
		}
		steps := decRun(sc.env(input), ai, ad, fops)
		fout.put(decCase{ID: id, Prop: tprop, In: ints(input), AI: ai, AD: ad, Sched: sc.norm(), Steps: tuples(steps)})
		faulted.Add(1)
	})
	if err != nil {
		return err
	}
	summary(map[string]any{"cases": cases.Load(), "evaluations": evals.Load(), "faulted_traces": faulted.Load(), "mismatches": out.n})
	return nil
}

// ------------------------------------------------------------------ driver

var decOps = []string{"tok", "tok", "tok", "tok", "tok", "val", "val", "skip", "peek", "peek", "ptr"}

// padTo stretches a text with whitespace / long strings so that token boundaries
// straddle the decoder's buffer sizes (64 initially, then doubling).
func genSized(r *rand.Rand, target int) []byte {
	c := randCfg(r)
	c.maxStr = 1 + r.IntN(80)
	var out []byte
	out = append(out, '[')
	for len(out) < target {
		if len(out) > 1 {
			out = append(out, ',')
		}
		out = append(out, genText(r, c)...)
	}
	out = append(out, ']')
	return out
}

func randSched(r *rand.Rand, n int, faults bool, steps int) decSched {
	s := decSched{Kind: "chunks", EOFD: r.IntN(2) == 0}
	switch r.IntN(8) {
	case 0:
		s.Kind = "buffer"
	case 1:
		s.Chunks = []int{1}
	case 2:
		s.Chunks = []int{1 + r.IntN(n+1), n}
	case 3:
		s.Chunks = []int{63, 1, 64, 65, 127, 129, 0, 255, 257}
	case 4:
		s.Chunks = []int{64}
	default:
		k := 1 + r.IntN(8)
		for i := 0; i < k; i++ {
			switch r.IntN(4) {
			case 0:
				s.Chunks = append(s.Chunks, 0)
			case 1:
				s.Chunks = append(s.Chunks, 1+r.IntN(8))
			case 2:
				s.Chunks = append(s.Chunks, 30+r.IntN(100))
			default:
				s.Chunks = append(s.Chunks, 1+r.IntN(5000))
			}
		}
		s.Chunks = append(s.Chunks, 1+r.IntN(64))
	}
	if faults && s.Kind != "buffer" {
		for i := 0; i < steps; i++ {
			if r.IntN(6) == 0 {
				s.Faults = append(s.Faults, i)
			}
		}
	}
	return s
}

func decProgram(r *rand.Rand, maxSteps int, deepOK bool) []string {
	n := 1 + r.IntN(maxSteps)
	ops := make([]string, n)
	mode := r.IntN(4)
	for i := range ops {
		switch mode {
		case 0: // mostly tokens
			ops[i] = []string{"tok", "tok", "tok", "tok", "peek", "ptr", "val"}[r.IntN(7)]
		case 1:
			ops[i] = decOps[r.IntN(len(decOps))]
		case 2:
			ops[i] = []string{"tok", "val", "skip", "tok", "peek"}[r.IntN(5)]
		default:
			ops[i] = []string{"tok", "tok", "ptr", "tok", "peek", "tok", "skip"}[r.IntN(7)]
		}
		if !deepOK && ops[i] == "ptr" {
			ops[i] = "peek"
		}
	}
	return ops
}

// drive-dec seed=N n=N mode=c05|c16 out=<ndjson> [redo=<records>]
func driveDec(args map[string]string) error {
	out, err := newSink(args["out"])
	if err != nil {
		return err
	}
	defer out.close()
	if redo := args["redo"]; redo != "" {
		err := tlcLines(redo, func(line []byte) {
			var rec struct {
				ID    int      `json:"id"`
				Prop  string   `json:"prop"`
				In    []int    `json:"in"`
				AI    bool     `json:"ai"`
				AD    bool     `json:"ad"`
				Sched decSched `json:"sched"`
				Steps [][]any  `json:"steps"`
			}
			if err := jsonv2.Unmarshal(line, &rec); err != nil {
				panic(err)
			}
			var ops []string
			for _, s := range rec.Steps {
				ops = append(ops, s[0].(string))
			}
			input := bytesOf(rec.In)
			steps := decRun(rec.Sched.env(input), rec.AI, rec.AD, ops)
			out.put(decCase{ID: rec.ID, Prop: rec.Prop, In: rec.In, AI: rec.AI, AD: rec.AD, Sched: rec.Sched.norm(), Steps: tuples(steps)})
		})
		summary(map[string]any{"cases": out.n})
		return err
	}
	seed, n, mode := uint64(argInt(args, "seed", 1)), argInt(args, "n", 1000), argStr(args, "mode", "c05")
	if mode == "deep" {
		return driveDecDeep(out, argInt(args, "stride", 1))
	}
	var wg sync.WaitGroup
	var nsteps, nbytes, nfd atomic.Int64
	workers := runtime.NumCPU()
	for w := 0; w < workers; w++ {
		wg.Add(1)
		go func(w int) {
			defer wg.Done()
			r := newRng(seed, uint64(100+w))
			for i := w; i < n; i += workers {
				var input []byte
				switch k := r.IntN(10); {
				case k < 3:
					input = genText(r, randCfg(r))
				case k < 5:
					sizes := []int{40, 60, 64, 70, 120, 128, 140, 250, 260, 500, 520, 1000, 1030, 2040, 2100, 4090, 4200, 8200, 16400}
					input = genSized(r, sizes[r.IntN(len(sizes))]+r.IntN(8)-4)
				case k < 6: // stream
					input = append(append(genText(r, randCfg(r)), ' '), genText(r, randCfg(r))...)
				case k < 7:
					input = wideObject(r, 1+r.IntN(80), r.IntN(2) == 0, r.IntN(90)-10, r.IntN(2) == 0)
				default:
					input = mutate(r, genText(r, randCfg(r)))
				}
				if r.IntN(6) == 0 {
					input = mutate(r, input)
				}
				ops := decProgram(r, 12+len(input)/3, true)
				var sc decSched
				prop := "C05"
				if mode == "c16" {
					sc = decSched{Kind: []string{"buffer", "chunks"}[r.IntN(2)]}
					prop = "C16"
				} else {
					sc = randSched(r, len(input), r.IntN(2) == 0, len(ops))
					if sc.Kind == "buffer" {
						sc.Kind = "chunks"
					}
				}
				ai, ad := r.IntN(4) == 0, r.IntN(4) == 0
				steps := decRun(sc.env(input), ai, ad, ops)
				// stop logging after the program ran into the end of input
				cut := len(steps)
				for j, s := range steps {
					if s.Err == "eof" {
						cut = min(len(steps), j+3)
						break
					}
					if s.Fd {
						nfd.Add(1)
					}
				}
				steps = steps[:cut]
				nsteps.Add(int64(len(steps)))
				nbytes.Add(int64(len(input)))
				out.put(decCase{ID: i + 1, Prop: prop, In: ints(input), AI: ai, AD: ad, Sched: sc.norm(), Steps: tuples(steps)})
			}
		}(w)
	}
	wg.Wait()
	summary(map[string]any{"cases": n, "steps": nsteps.Load(), "bytes": nbytes.Load(), "faults_delivered": nfd.Load()})
	return nil
}

func init() {
	commands["replay-dec"] = replayDec
	commands["drive-dec"] = driveDec
}

// driveDecDeep: documents nested around the depth limit, read by tokens, as one value,
// skipped, and with the depth split between tokens and a value.
func driveDecDeep(out *sink, stride int) error {
	id, seq := 0, 0
	emit := func(doc []byte, ops []string, kind string) {
		seq++
		if (seq-1)%stride != 0 {
			return
		}
		id++
		sc := decSched{Kind: kind}
		steps := decRun(sc.env(doc), false, false, ops)
		out.put(decCase{ID: id, Prop: "C20", In: ints(doc), AI: false, AD: false, Sched: sc.norm(), Steps: tuples(steps)})
	}
	rep := func(op string, n int) []string {
		o := make([]string, n)
		for i := range o {
			o[i] = op
		}
		return o
	}
	arr := func(i int) bool { return false }
	obj := func(i int) bool { return true }
	for _, d := range []int{10000, 10001} {
		for pi, pat := range []func(int) bool{arr, obj} {
			doc := nested(d, pat, "")
			per := 1
			if pi == 1 {
				per = 2 // "{" and the name per level
			}
			emit(doc, []string{"val", "tok"}, "buffer")
			emit(doc, []string{"skip", "tok"}, "chunks")
			emit(doc, append(rep("tok", per*d+4), "ptr"), "buffer")
			for _, k := range []int{1, 5000, 9999} { // k levels by tokens, the rest as one value
				emit(doc, append(rep("tok", per*k), "val", "tok", "skip"), "chunks")
			}
		}
	}
	summary(map[string]any{"cases": id})
	return nil
}
