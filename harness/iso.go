package main

import (
	"bytes"
	"crypto/sha256"
	"encoding/hex"
	"errors"
	"fmt"
	"math"
	"math/rand/v2"
	"os"
	"os/exec"
	"strconv"
	"strings"
	"sync"

	jsonv2 "github.com/go-json-experiment/json"
	"github.com/go-json-experiment/json/jsontext"
)

// ------------------------------------------------------------------ call descriptors (C18)

type isoDesc struct {
	name string
	run  func() (result []byte, keep func() bool) // keep re-checks data handed back by the call
}

type listNode struct {
	V    float64
	Next *listNode
}

func makeList(n int, tail float64) *listNode {
	head := &listNode{V: 0}
	cur := head
	for i := 1; i < n; i++ {
		cur.Next = &listNode{V: float64(i)}
		cur = cur.Next
	}
	cur.V = tail
	return head
}

type tailMarker struct{ K int }

type tailNode struct {
	V    int
	Next *tailNode
	T    *tailMarker
}

var isoListTail = func() *tailNode {
	head := &tailNode{}
	cur := head
	for i := 1; i < 1100; i++ {
		cur.Next = &tailNode{V: i}
		cur = cur.Next
	}
	cur.T = &tailMarker{K: 7}
	return head
}()

type failingField struct {
	A int
	B string
	C chan int
}

type panicMarshaler struct{}

func (panicMarshaler) MarshalJSON() ([]byte, error) { panic("user code panics") }

type bigDoc struct {
	Items []string
	M     map[string]int
}

var (
	isoBig = func() bigDoc { // ~1 MiB
		b := bigDoc{M: map[string]int{"only": 1}}
		for i := 0; i < 40000; i++ {
			b.Items = append(b.Items, "item-"+strconv.Itoa(i)+"-<é>-"+strings.Repeat("x", i%17))
		}
		return b
	}()
	isoBigText  = func() []byte { b, _ := jsonv2.Marshal(isoBig); return b }()
	isoListBad  = makeList(1100, math.NaN())
	isoListGood = makeList(1100, 1)
	isoCyclic   = func() *listNode {
		l := makeList(1100, 1)
		t := l
		for t.Next != nil {
			t = t.Next
		}
		t.Next = l
		return l
	}()
	isoWide    = wideObject(newRng(7, 7), 70, true, -1, false)
	isoWideDup = wideObject(newRng(7, 7), 70, true, 0, true)
)

func render(b []byte, err error) []byte {
	h := sha256.Sum256(b)
	e := "nil"
	if err != nil {
		// the library deliberately varies the modal verb of its messages between processes
		e = strings.ReplaceAll(err.Error(), "unable to", "cannot")
	}
	return []byte(fmt.Sprintf("len=%d sha=%s err=%s", len(b), hex.EncodeToString(h[:8]), e))
}

func keepBytes(b []byte) func() bool {
	snap := bytes.Clone(b)
	return func() bool { return bytes.Equal(b, snap) }
}

func isoDescriptors() []isoDesc {
	type small struct {
		A int
		B []string
		C map[string]float64
		D *small
	}
	sv := small{A: 1, B: []string{"x", "<y>"}, C: map[string]float64{"k": 1.5}, D: &small{A: 2}}
	mk := func(name string, f func() ([]byte, error)) isoDesc {
		return isoDesc{name, func() ([]byte, func() bool) {
			b, err := f()
			return render(b, err), keepBytes(b)
		}}
	}
	ds := []isoDesc{
		mk("marshal-small", func() ([]byte, error) { return jsonv2.Marshal(sv) }),
		mk("marshal-deterministic", func() ([]byte, error) {
			return jsonv2.Marshal(map[string]int{"b": 1, "a": 2, "c": 3, "aa": 4}, jsonv2.Deterministic(true))
		}),
		mk("marshal-big", func() ([]byte, error) { return jsonv2.Marshal(isoBig) }),
		mk("marshal-multiline-escape", func() ([]byte, error) {
			return jsonv2.Marshal(sv, jsontext.Multiline(true), jsontext.EscapeForHTML(true), jsonv2.StringifyNumbers(true))
		}),
		mk("marshal-fails-late", func() ([]byte, error) {
			return jsonv2.Marshal(failingField{A: 1, B: strings.Repeat("q", 3000), C: make(chan int)})
		}),
		mk("marshal-user-panic", func() (b []byte, err error) {
			defer func() {
				if r := recover(); r != nil {
					err = fmt.Errorf("recovered: %v", r)
				}
			}()
			return jsonv2.Marshal([]any{1, map[string]any{"k": panicMarshaler{}}})
		}),
		// user code panics far below the depth where cycle detection starts; another call then
		// marshals the very same pointers
		mk("marshal-deep-user-panic", func() (b []byte, err error) {
			defer func() {
				if r := recover(); r != nil {
					err = fmt.Errorf("recovered: %v", r)
				}
			}()
			return jsonv2.Marshal(isoListTail, jsonv2.WithMarshalers(jsonv2.MarshalToFunc(func(e *jsontext.Encoder, t *tailMarker) error { panic("user code panics deep") })))
		}),
		mk("marshal-deep-same-pointers", func() ([]byte, error) { return jsonv2.Marshal(isoListTail) }),
		mk("marshal-deep-nan", func() ([]byte, error) { return jsonv2.Marshal(isoListBad) }),
		mk("marshal-deep-good", func() ([]byte, error) { return jsonv2.Marshal(isoListGood) }),
		mk("marshal-cyclic", func() ([]byte, error) { return jsonv2.Marshal(isoCyclic) }),
		mk("marshalwrite-ok", func() ([]byte, error) {
			w := &scriptedWriter{}
			err := jsonv2.MarshalWrite(w, sv)
			return w.got.Bytes(), err
		}),
		// how much a failing writer received depends on flush boundaries, hence on the size of the
		// recycled buffer: only the error and "a prefix of the fault-free output" are the call's result
		mk("marshalwrite-failing-writer", func() ([]byte, error) {
			w := &scriptedWriter{outcomes: []int{-1, 10}}
			err := jsonv2.MarshalWrite(w, isoBig.Items[:3000])
			full, _ := jsonv2.Marshal(isoBig.Items[:3000])
			return []byte(fmt.Sprint("prefix=", bytes.HasPrefix(full, w.got.Bytes()))), err
		}),
		mk("marshalwrite-fails-late", func() ([]byte, error) {
			w := &scriptedWriter{}
			err := jsonv2.MarshalWrite(w, failingField{A: 1, B: strings.Repeat("w", 5000), C: make(chan int)})
			return w.got.Bytes(), err
		}),
		mk("marshalwrite-buffer", func() ([]byte, error) {
			var buf bytes.Buffer
			err := jsonv2.MarshalWrite(&buf, sv, jsontext.SpaceAfterComma(true))
			return buf.Bytes(), err
		}),
		mk("format-canonicalize", func() ([]byte, error) {
			v := jsontext.Value(` {"b": [1.0, 2e0], "a": "A"} `)
			err := v.Canonicalize()
			return v, err
		}),
		mk("format-indent-invalid", func() ([]byte, error) {
			v := jsontext.Value(`{"a":[1,2,}`)
			err := v.Indent()
			return v, err
		}),
		// the output outgrows the capacity of the value passed in: what is handed back must be
		// the caller's own memory, whatever a later call does with recycled buffers
		mk("format-indent-grows", func() ([]byte, error) {
			v := jsontext.Value(`{"a":[1,2,{"b":null}],"c":"d<e>"}`)
			err := v.Indent()
			return v, err
		}),
		mk("format-escape-grows-wide", func() ([]byte, error) {
			v := jsontext.Value(bytes.Clone(isoWide))
			v = v[:len(v):len(v)]
			err := v.Format(jsontext.Multiline(true), jsontext.EscapeForHTML(true), jsontext.SpaceAfterComma(true))
			return v, err
		}),
		mk("format-compact-into-spare-capacity", func() ([]byte, error) {
			v := append(make(jsontext.Value, 0, 256), ` [ 1 , {"k" : "<v>"} ] `...)
			err := v.Compact()
			return v, err
		}),
		mk("appendformat", func() ([]byte, error) { return jsontext.AppendFormat([]byte("pre"), isoWide, jsontext.Multiline(true)) }),
		mk("isvalid-wide-dup", func() ([]byte, error) {
			return []byte(fmt.Sprint(jsontext.Value(isoWideDup).IsValid(), jsontext.Value(isoWide).IsValid())), nil
		}),
	}
	un := func(name string, text []byte, mkTarget func() any, opts ...jsonv2.Options) isoDesc {
		return isoDesc{name, func() ([]byte, func() bool) {
			in := bytes.Clone(text)
			tgt := mkTarget()
			err := jsonv2.Unmarshal(in, tgt, opts...)
			out, _ := jsonv2.Marshal(tgt, jsonv2.Deterministic(true))
			// the caller overwrites the buffer it passed; the decoded value must not change
			for i := range in {
				in[i] = '#'
			}
			errText := fmt.Sprint(err)
			return render(out, err), func() bool {
				again, _ := jsonv2.Marshal(tgt, jsonv2.Deterministic(true))
				// the error handed back is a value of the call too: it must not change with the
				// caller's buffer or with later calls
				return bytes.Equal(again, out) && fmt.Sprint(err) == errText
			}
		}}
	}
	ds = append(ds,
		un("unmarshal-small", []byte(`{"A":5,"B":["p","q"],"C":{"z":2.5},"D":{"A":6}}`), func() any { return new(small) }),
		un("unmarshal-any", []byte(`{"k":[1,"two",{"three":null}],"s":"abcdefgh-interned-abcdefgh","t":"abcdefgh-interned-abcdefgh"}`), func() any { return new(any) }),
		un("unmarshal-big", isoBigText, func() any { return new(bigDoc) }),
		un("unmarshal-raw", []byte(`{"r":{"x":[1,2,3]},"s":"str"}`), func() any { return new(map[string]jsontext.Value) }),
		un("unmarshal-syntax-error", []byte(`{"A":5,"B":["p","q",}`), func() any { return new(small) }),
		un("unmarshal-duplicate", []byte(`{"A":5,"A":6}`), func() any { return new(small) }),
		un("unmarshal-unknown-rejected", []byte(`{"A":5,"Z":[1,2,{"y":1}]}`), func() any { return new(small) }, jsonv2.RejectUnknownMembers(true)),
		un("unmarshal-wide-any", isoWide, func() any { return new(any) }),
		un("unmarshal-wide-dup", isoWideDup, func() any { return new(map[string]any) }),
		un("unmarshal-wide-funcs", isoWide, func() any { return new(any) },
			jsonv2.WithUnmarshalers(jsonv2.UnmarshalFromFunc(func(d *jsontext.Decoder, x *any) error { return errors.ErrUnsupported }))),
		un("unmarshal-type-error", []byte(`{"A":"not a number","B":[1]}`), func() any { return new(small) }),
	)
	ds = append(ds, isoDesc{"unmarshalread-type-error", func() ([]byte, func() bool) {
		var v struct {
			Pad string
			N   int8
		}
		err := jsonv2.UnmarshalRead(&scriptedReader{data: []byte(`{"Pad":"` + strings.Repeat("p", 200) + `","N":3000000}`), chunks: []int{64}}, &v)
		errText := fmt.Sprint(err)
		return render(nil, err), func() bool { return fmt.Sprint(err) == errText }
	}})
	ds = append(ds, isoDesc{"unmarshalread-chunked", func() ([]byte, func() bool) {
		var v any
		err := jsonv2.UnmarshalRead(&scriptedReader{data: isoWide, chunks: []int{7, 64, 1, 300}}, &v)
		out, _ := jsonv2.Marshal(v, jsonv2.Deterministic(true))
		return render(out, err), func() bool { return true }
	}})
	return ds
}

// iso-child desc=<index>: runs one descriptor alone and prints its result
func isoChild(args map[string]string) error {
	ds := isoDescriptors()
	i := argInt(args, "desc", 0)
	res, _ := ds[i].run()
	fmt.Println("RESULT " + string(res))
	return nil
}

type isoCase struct {
	ID    int     `json:"id"`
	Prop  string  `json:"prop"`
	Mode  string  `json:"mode"`
	Seed  uint64  `json:"seed"`
	Ref   [][]any `json:"ref"`
	Calls [][]any `json:"calls"`
	Still [][]any `json:"still"`
	Races int     `json:"races"`
	Panic string  `json:"panic"`
}

var poolLog struct {
	mu  sync.Mutex
	seq int
	out *sink
}

func installPoolHook(out *sink) {
	poolLog.out = out
	jsontext.VerifPoolHook = func(event, kind string, obj uintptr, residue [7]int) {
		poolLog.mu.Lock()
		poolLog.seq++
		poolLog.out.put(map[string]any{"seq": poolLog.seq, "ev": event, "kind": kind, "obj": fmt.Sprintf("%x", obj), "residue": residue[:]})
		poolLog.mu.Unlock()
	}
}

func isoRefs() ([][]any, error) {
	ds := isoDescriptors()
	refs := make([][]any, len(ds))
	var wg sync.WaitGroup
	var firstErr error
	sem := make(chan struct{}, 8)
	for i := range ds {
		wg.Add(1)
		go func(i int) {
			defer wg.Done()
			sem <- struct{}{}
			defer func() { <-sem }()
			out, err := exec.Command(os.Args[0], "iso-child", "desc="+strconv.Itoa(i)).CombinedOutput()
			for _, line := range strings.Split(string(out), "\n") {
				if rest, ok := strings.CutPrefix(line, "RESULT "); ok {
					refs[i] = []any{ds[i].name, rest}
					return
				}
			}
			firstErr = fmt.Errorf("descriptor %s gave no result in isolation: %v %s", ds[i].name, err, truncate(string(out), 300))
		}(i)
	}
	wg.Wait()
	return refs, firstErr
}

func isoHistory(r *rand.Rand, n int, conc bool) (calls [][]any, still [][]any, panicked string) {
	ds := isoDescriptors()
	type kept struct {
		name string
		keep func() bool
	}
	var mu sync.Mutex
	var keeps []kept
	runOne := func(i int) {
		defer func() {
			if rec := recover(); rec != nil {
				mu.Lock()
				panicked = fmt.Sprint(rec)
				mu.Unlock()
			}
		}()
		res, keep := ds[i].run()
		mu.Lock()
		calls = append(calls, []any{ds[i].name, string(res)})
		keeps = append(keeps, kept{ds[i].name, keep})
		mu.Unlock()
	}
	order := make([]int, n)
	for i := range order {
		order[i] = r.IntN(len(ds))
	}
	if !conc {
		for _, i := range order {
			runOne(i)
		}
	} else {
		var wg sync.WaitGroup
		ch := make(chan int, n)
		for _, i := range order {
			ch <- i
		}
		close(ch)
		for g := 0; g < 16; g++ {
			wg.Add(1)
			go func() {
				defer wg.Done()
				for i := range ch {
					runOne(i)
				}
			}()
		}
		wg.Wait()
	}
	for _, k := range keeps {
		still = append(still, []any{k.name, k.keep()})
	}
	return calls, still, panicked
}

// iso-conc-child seed=N n=N: a concurrent history in this (race-instrumented) process; prints the record
func isoConcChild(args map[string]string) error {
	r := newRng(uint64(argInt(args, "seed", 1)), 31)
	if p := args["poolout"]; p != "" {
		ps, err := newSink(p)
		if err != nil {
			return err
		}
		defer ps.close()
		installPoolHook(ps)
	}
	calls, still, p := isoHistory(r, argInt(args, "n", 200), true)
	b, _ := jsonv2.Marshal(map[string]any{"calls": calls, "still": still, "panic": p})
	fmt.Println("HISTORY " + string(b))
	return nil
}

// drive-iso seed=N n=N histories=N out=<ndjson> poolout=<ndjson> racebin=<race-built harness>
func driveIso(args map[string]string) error {
	out, err := newSink(args["out"])
	if err != nil {
		return err
	}
	defer out.close()
	refs, err := isoRefs()
	if err != nil {
		return err
	}
	seed := uint64(argInt(args, "seed", 1))
	nh, n := argInt(args, "histories", 6), argInt(args, "n", 150)
	if p := args["poolout"]; p != "" {
		ps, err := newSink(p)
		if err != nil {
			return err
		}
		defer ps.close()
		installPoolHook(ps)
	}
	id := 0
	for h := 0; h < nh; h++ {
		id++
		calls, still, p := isoHistory(newRng(seed, uint64(40+h)), n, false)
		out.put(isoCase{ID: id, Prop: "C18", Mode: "sequential", Seed: seed, Ref: refs, Calls: calls, Still: still, Panic: p})
	}
	jsontext.VerifPoolHook = nil
	races := 0
	if rb := args["racebin"]; rb != "" {
		for h := 0; h < max(1, nh/2); h++ {
			id++
			cmd := exec.Command(rb, "iso-conc-child", "seed="+strconv.Itoa(int(seed)+h), "n="+strconv.Itoa(n), "poolout="+args["poolout"]+".conc"+strconv.Itoa(h))
			cmd.Env = append(os.Environ(), "GORACE=halt_on_error=0 exitcode=0")
			var stderr bytes.Buffer
			cmd.Stderr = &stderr
			stdout, err := cmd.Output()
			rc := strings.Count(stderr.String(), "WARNING: DATA RACE")
			races += rc
			var hist struct {
				Calls [][]any `json:"calls"`
				Still [][]any `json:"still"`
				Panic string  `json:"panic"`
			}
			found := false
			for _, line := range strings.Split(string(stdout), "\n") {
				if rest, ok := strings.CutPrefix(line, "HISTORY "); ok {
					found = jsonv2.Unmarshal([]byte(rest), &hist) == nil
				}
			}
			if !found {
				return fmt.Errorf("concurrent child failed: %v %s", err, truncate(stderr.String(), 2000))
			}
			out.put(isoCase{ID: id, Prop: "C18", Mode: "concurrent", Seed: seed, Ref: refs, Calls: hist.Calls, Still: hist.Still, Races: rc, Panic: hist.Panic})
		}
	}
	summary(map[string]any{"cases": id, "descriptors": len(refs), "races": races})
	return nil
}

func init() {
	commands["drive-iso"] = driveIso
	commands["iso-child"] = isoChild
	commands["iso-conc-child"] = isoConcChild
}
