package main

import (
	"bytes"
	"fmt"
	"reflect"
	"runtime"
	"strconv"
	"strings"
	"sync/atomic"

	jsonv2 "github.com/go-json-experiment/json"
	"github.com/go-json-experiment/json/jsontext"
)

// field of Fields.tla
type sfield struct {
	Go        string   `json:"go"`
	Name      []int    `json:"name"`
	HasName   bool     `json:"hasName"`
	Embed     bool     `json:"embed"`
	Ptr       bool     `json:"ptr"`
	Sub       []sfield `json:"sub"`
	Casing    int      `json:"casing"`
	OmitZero  bool     `json:"omitzero"`
	OmitEmpty bool     `json:"omitempty"`
	Str       bool     `json:"str"`
	Kind      string   `json:"kind"`
}

func buildStruct(fs []sfield) reflect.Type { return buildStructE(fs, false) }

// buildStructE: with goEmbed the embedded structs are Go-embedded fields (Anonymous) instead of
// fields carrying the `embed` option; the documentation promises the same resolution for both
func buildStructE(fs []sfield, goEmbed bool) reflect.Type {
	out := make([]reflect.StructField, len(fs))
	for i, f := range fs {
		sf := reflect.StructField{Name: f.Go}
		if f.Embed {
			sf.Type = buildStructE(f.Sub, goEmbed)
			if f.Ptr {
				sf.Type = reflect.PointerTo(sf.Type)
			}
			if goEmbed {
				sf.Anonymous = true
			} else {
				sf.Tag = `json:",embed"`
			}
		} else {
			switch f.Kind {
			case "zeroer":
				sf.Type = reflect.TypeOf(zeroer(0))
			case "str":
				sf.Type = reflect.TypeOf("")
			case "slice":
				sf.Type = reflect.TypeOf([]int(nil))
			default:
				sf.Type = reflect.TypeOf(0)
			}
			var parts []string
			name := ""
			if f.HasName {
				name = cpsToString(f.Name)
			}
			parts = append(parts, name)
			switch f.Casing {
			case 1:
				parts = append(parts, "case:ignore")
			case 2:
				parts = append(parts, "case:strict")
			}
			if f.OmitZero {
				parts = append(parts, "omitzero")
			}
			if f.OmitEmpty {
				parts = append(parts, "omitempty")
			}
			if f.Str {
				parts = append(parts, "string")
			}
			if len(parts) > 1 || name != "" {
				sf.Tag = reflect.StructTag(`json:` + strconv.Quote(strings.Join(parts, ",")))
			}
		}
		out[i] = sf
	}
	return reflect.StructOf(out)
}

// zeroer reports itself zero exactly when it is -1 (so the method disagrees with the Go zero value)
type zeroer int

func (z zeroer) IsZero() bool { return z == -1 }

func pathCode(path []int) int {
	n := 0
	for _, p := range path {
		n = n*10 + p
	}
	return n
}

// fieldAt follows a 1-based index path, allocating embedded pointers when alloc is set.
func fieldAt(v reflect.Value, path []int, alloc bool) (reflect.Value, bool) {
	for _, p := range path {
		if v.Kind() == reflect.Pointer {
			if v.IsNil() {
				if !alloc {
					return reflect.Value{}, false
				}
				v.Set(reflect.New(v.Type().Elem()))
			}
			v = v.Elem()
		}
		v = v.Field(p - 1)
	}
	return v, true
}

func allLeafPaths(fs []sfield, prefix []int, fn func(path []int, f sfield)) {
	for i, f := range fs {
		p := append(append([]int{}, prefix...), i+1)
		if f.Embed {
			allLeafPaths(f.Sub, p, fn)
		} else {
			fn(p, f)
		}
	}
}

func setLeaf(v reflect.Value, kind, class string, code int) {
	switch kind {
	case "zeroer":
		switch class {
		case "full":
			v.SetInt(int64(code))
		case "empty":
			v.SetInt(-1)
		}
	case "str":
		if class == "full" {
			v.SetString("s" + strconv.Itoa(code))
		}
	case "slice":
		switch class {
		case "full":
			v.Set(reflect.ValueOf([]int{code}))
		case "empty":
			v.Set(reflect.ValueOf([]int{}))
		}
	default:
		if class == "full" {
			v.SetInt(int64(code))
		}
	}
}

func leafText(kind string, str bool, class string, code int) string {
	switch kind {
	case "zeroer":
		switch class {
		case "full":
			return strconv.Itoa(code)
		case "empty":
			return "-1"
		}
		return "0"
	case "str":
		if class == "full" {
			return `"s` + strconv.Itoa(code) + `"`
		}
		return `""`
	case "slice":
		if class == "full" {
			return "[" + strconv.Itoa(code) + "]"
		}
		return "[]"
	}
	n := "0"
	if class == "full" {
		n = strconv.Itoa(code)
	}
	if str {
		return `"` + n + `"`
	}
	return n
}

type orderEntry struct {
	name                 string
	path                 []int
	str                  bool
	kind                 string
	viaptr               bool
	oz, oe, ozOpt, oeOpt bool
}

// replay-fld cases=<TLC out> out=<mismatches>
func replayFld(args map[string]string) error {
	out, err := newMismatchSink(argStr(args, "out", "/dev/null"))
	if err != nil {
		return err
	}
	defer out.close()
	var cases, evals, skipped, goEmbedded atomic.Int64
	err = parallelLines(args["cases"], runtime.NumCPU(), func(line []byte) {
		var rec []jsontext.Value
		if err := jsonv2.Unmarshal(line, &rec); err != nil || len(rec) != 3 {
			return
		}
		var S []sfield
		var orderRaw, probesRaw [][]any
		if err := jsonv2.Unmarshal(rec[0], &S); err != nil {
			panic(err)
		}
		jsonv2.Unmarshal(rec[1], &orderRaw)
		jsonv2.Unmarshal(rec[2], &probesRaw)
		cases.Add(1)
		var raw any
		jsonv2.Unmarshal(line, &raw)
		// a property of the type graph, reported with every mismatch: the same struct type is
		// embedded twice at one depth and itself embeds structs (known finding K6 is about those)
		diamond := sharedEmbeddedAtOneDepth(S)
		bad := func(what string, got, want any) {
			out.put(map[string]any{"prop": "C15", "family": "fld", "case": raw, "what": what, "got": got, "want": want, "diamond": diamond})
		}
		for _, goEmbed := range []bool{false, true} {
			badV := func(what string, got, want any) {
				if goEmbed {
					what = "Go-embedded: " + what
				}
				bad(what, got, want)
			}
			func() {
				var T reflect.Type
				func() {
					defer func() {
						if r := recover(); r != nil {
							T = nil
						}
					}()
					T = buildStructE(S, goEmbed)
				}()
				if T == nil {
					if !goEmbed {
						skipped.Add(1)
					}
					return
				}
				if goEmbed {
					goEmbedded.Add(1)
				}
				defer func() {
					if r := recover(); r != nil {
						out.put(map[string]any{"prop": "C20", "family": "fld", "case": raw, "what": "panic", "detail": fmt.Sprint(r)})
					}
				}()
				var order []orderEntry
				for _, o := range orderRaw {
					order = append(order, orderEntry{name: cpsToString(toInts(o[0])), path: toInts(o[1]), str: o[2].(bool), kind: o[3].(string), viaptr: o[4].(bool),
						oz: o[5].(bool), oe: o[6].(bool), ozOpt: o[7].(bool), oeOpt: o[8].(bool)})
				}
				// --- Marshal: members and their order for each value class
				for _, class := range []string{"full", "zero", "empty", "nilptr"} {
					for _, ozOption := range []bool{false, true} {
						v := reflect.New(T).Elem()
						vclass := class
						if class == "nilptr" {
							vclass = "full"
						}
						allLeafPaths(S, nil, func(path []int, f sfield) {
							leaf, ok := fieldAt(v, path, class != "nilptr")
							if ok {
								setLeaf(leaf, f.Kind, vclass, pathCode(path))
							}
						})
						var want []string
						for _, e := range order {
							omitted := false
							switch class {
							case "zero":
								omitted = e.oz
								if ozOption {
									omitted = e.ozOpt
								}
							case "empty":
								omitted = e.oe
								if ozOption {
									omitted = e.oeOpt
								}
							case "nilptr":
								omitted = e.viaptr
							}
							if !omitted {
								q, _ := jsontext.AppendQuote(nil, e.name)
								want = append(want, string(q)+":"+leafText(e.kind, e.str, vclass, pathCode(e.path)))
							}
						}
						wantText := "{" + strings.Join(want, ",") + "}"
						var opts []jsonv2.Options
						if ozOption {
							opts = append(opts, jsonv2.OmitZeroStructFields(true))
						}
						got, err := jsonv2.Marshal(v.Interface(), opts...)
						evals.Add(1)
						if err != nil {
							badV("marshal-error "+class, err.Error(), wantText)
						} else if string(got) != wantText {
							badV(fmt.Sprintf("marshal %s omitzero-option=%v", class, ozOption), string(got), wantText)
						}
					}
				}
				// --- Unmarshal: which field a name is stored into
				kindAt := map[int][2]any{}
				allLeafPaths(S, nil, func(path []int, f sfield) { kindAt[pathCode(path)] = [2]any{f.Kind, f.Str} })
				for _, p := range probesRaw {
					name := cpsToString(toInts(p[0]))
					for oi, insensitive := range []bool{false, true} {
						res := p[1+oi].([]any)
						kind := res[0].(string)
						valText, wantCode := "7", 0
						if kind == "field" {
							wantCode = pathCode(toInts(res[1]))
							k := kindAt[wantCode]
							valText = leafText(k[0].(string), k[1].(bool), "full", 7)
						}
						q, _ := jsontext.AppendQuote(nil, name)
						text := "{" + string(q) + ":" + valText + "}"
						for _, reject := range []bool{false, true} {
							opts := []jsonv2.Options{jsonv2.MatchCaseInsensitiveNames(insensitive), jsonv2.RejectUnknownMembers(reject)}
							v := reflect.New(T)
							err := jsonv2.Unmarshal([]byte(text), v.Interface(), opts...)
							evals.Add(1)
							wantErr := kind == "ambiguous" || (kind == "unknown" && reject)
							if (err != nil) != wantErr {
								badV(fmt.Sprintf("unmarshal %q insensitive=%v reject=%v error", name, insensitive, reject), err != nil, res)
								continue
							}
							if err != nil {
								continue
							}
							// exactly the predicted leaf is set
							var setCodes []int
							allLeafPaths(S, nil, func(path []int, f sfield) {
								leaf, ok := fieldAt(v.Elem(), path, false)
								if ok && !leaf.IsZero() {
									setCodes = append(setCodes, pathCode(path))
								}
							})
							var wantCodes []int
							if kind == "field" {
								wantCodes = []int{wantCode}
							}
							if !reflect.DeepEqual(setCodes, wantCodes) {
								badV(fmt.Sprintf("unmarshal %q insensitive=%v stored-into", name, insensitive), setCodes, wantCodes)
							}
						}
					}
				}
			}()
		}
		_ = bytes.Equal
	})
	if err != nil {
		return err
	}
	summary(map[string]any{"cases": cases.Load(), "evaluations": evals.Load(), "skipped_types": skipped.Load(), "go_embedded_variants": goEmbedded.Load(), "mismatches": out.n})
	return nil
}

func init() { commands["replay-fld"] = replayFld }

// sharedEmbeddedAtOneDepth: two embedded structs at the same depth have the same Go type (same
// fields, tags and nesting: reflect.StructOf then yields one type) and that type embeds structs
func sharedEmbeddedAtOneDepth(S []sfield) bool {
	type at struct {
		depth int
		typ   reflect.Type
	}
	seen := map[at]int{}
	found := false
	var walk func(fs []sfield, depth int)
	walk = func(fs []sfield, depth int) {
		for _, f := range fs {
			if !f.Embed {
				continue
			}
			hasChild := false
			for _, g := range f.Sub {
				if g.Embed {
					hasChild = true
				}
			}
			func() {
				defer func() { recover() }()
				k := at{depth, buildStructE(f.Sub, false)}
				seen[k]++
				if seen[k] > 1 && hasChild {
					found = true
				}
			}()
			walk(f.Sub, depth+1)
		}
	}
	walk(S, 1)
	return found
}
