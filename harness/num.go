package main

import (
	"bytes"
	"errors"
	"fmt"
	"math"
	"math/big"
	"math/rand/v2"
	"reflect"
	"runtime"
	"strconv"
	"strings"
	"sync/atomic"

	jsonv2 "github.com/go-json-experiment/json"
	"github.com/go-json-experiment/json/jsontext"
)

var intTypes = []reflect.Type{
	reflect.TypeOf(int8(0)), reflect.TypeOf(int16(0)), reflect.TypeOf(int32(0)), reflect.TypeOf(int64(0)),
	reflect.TypeOf(uint8(0)), reflect.TypeOf(uint16(0)), reflect.TypeOf(uint32(0)), reflect.TypeOf(uint64(0)),
}

func magDigits(s string) (neg bool, mag []int) {
	if strings.HasPrefix(s, "-") {
		neg, s = true, s[1:]
	}
	for _, c := range s {
		mag = append(mag, int(c-'0'))
	}
	return neg, mag
}

func numErrClass(err error) string {
	switch {
	case err == nil:
		return "nil"
	case errors.Is(err, strconv.ErrSyntax):
		return "syntax"
	case errors.Is(err, strconv.ErrRange):
		return "range"
	}
	return "other"
}

// replay-num cases=<TLC out> out=<mismatches>: [lit, accepts[8], [neg,mag,err] Int, [neg,mag,err] Uint, truncDecidable]
func replayNum(args map[string]string) error {
	out, err := newMismatchSink(argStr(args, "out", "/dev/null"))
	if err != nil {
		return err
	}
	defer out.close()
	var cases, evals atomic.Int64
	err = parallelLines(args["cases"], runtime.NumCPU(), func(line []byte) {
		var rec []any
		if err := jsonv2.Unmarshal(line, &rec); err != nil || len(rec) != 5 {
			return
		}
		lit := string(bytesOf(toInts(rec[0])))
		acc := rec[1].([]any)
		decidable := rec[4].(bool)
		cases.Add(1)
		bad := func(what string, got, want any) {
			out.put(map[string]any{"prop": "C10", "family": "num", "case": rec, "lit": lit, "what": what, "got": got, "want": want})
		}
		defer func() {
			if r := recover(); r != nil {
				out.put(map[string]any{"prop": "C20", "family": "num", "case": rec, "lit": lit, "what": "panic", "detail": fmt.Sprint(r)})
			}
		}()
		for i, t := range intTypes {
			want := acc[i].(bool)
			check := func(route string, input string, target reflect.Value, get func() reflect.Value, opts ...jsonv2.Options) {
				evals.Add(1)
				err := jsonv2.Unmarshal([]byte(input), target.Interface(), opts...)
				if (err == nil) != want {
					bad(route+" "+t.String()+" accept", err == nil, want)
					return
				}
				if err == nil {
					v := get()
					var s string
					if v.CanInt() {
						s = strconv.FormatInt(v.Int(), 10)
					} else {
						s = strconv.FormatUint(v.Uint(), 10)
					}
					if wantS := strings.TrimPrefix(lit, "-"); (lit == "-0" && s != "0") || (lit != "-0" && s != lit) {
						bad(route+" "+t.String()+" value", s, wantS)
					}
				}
			}
			p := reflect.New(t)
			check("plain", lit, p, func() reflect.Value { return p.Elem() })
			q := reflect.New(t)
			check("quoted", `"`+lit+`"`, q, func() reflect.Value { return q.Elem() }, jsonv2.StringifyNumbers(true))
			m := reflect.New(reflect.MapOf(t, reflect.TypeOf(0)))
			check("mapkey", `{"`+lit+`":0}`, m, func() reflect.Value {
				ks := m.Elem().MapKeys()
				if len(ks) != 1 {
					return reflect.Zero(t)
				}
				return ks[0]
			})
		}
		// Token accessors on the number as read from JSON text
		d := jsontext.NewDecoder(bytes.NewReader([]byte(lit)))
		tok, err := d.ReadToken()
		if err != nil {
			bad("ReadToken", err.Error(), nil)
			return
		}
		evals.Add(2)
		wi := rec[2].([]any)
		iv, ierr := tok.Int()
		ineg, imag := magDigits(strconv.FormatInt(iv, 10))
		if numErrClass(ierr) != wi[2].(string) {
			bad("Token.Int error", numErrClass(ierr), wi[2])
		} else if (decidable || wi[2].(string) != "syntax") && (ineg != wi[0].(bool) || !sameInts(imag, toInts(wi[1]))) {
			bad("Token.Int value", iv, wi)
		}
		wu := rec[3].([]any)
		uv, uerr := tok.Uint()
		_, umag := magDigits(strconv.FormatUint(uv, 10))
		if numErrClass(uerr) != wu[2].(string) {
			bad("Token.Uint error", numErrClass(uerr), wu[2])
		} else if (decidable || wu[2].(string) != "syntax") && !sameInts(umag, toInts(wu[1])) {
			bad("Token.Uint value", uv, wu)
		}
	})
	if err != nil {
		return err
	}
	summary(map[string]any{"cases": cases.Load(), "evaluations": evals.Load(), "mismatches": out.n})
	return nil
}

// ------------------------------------------------------------------ floats (trace validation)

type numCase struct {
	ID     int     `json:"id"`
	Prop   string  `json:"prop"`
	Kind   string  `json:"kind"` // "fmt" float -> text, "parse" text -> float
	Bits   int     `json:"bits"`
	F      string  `json:"f"`     // fmt: the float's bit pattern in hex (for replay)
	Outs   [][]int `json:"outs"`  // fmt: texts produced by every formatting path
	Proj   []any   `json:"proj"`  // fmt: [neg, digits, n] shortest digits
	RT     bool    `json:"rt"`    // fmt: text parses back to the identical bits (all paths)
	Short  bool    `json:"short"` // fmt: no shorter decimal lies in the rounding interval (math/big)
	Lit    []int   `json:"lit"`   // parse: the literal
	Round  bool    `json:"round"` // parse: result is the correctly rounded value (math/big), on all routes
	Ovf    bool    `json:"ovf"`   // parse: |literal| rounds beyond the largest finite value (math/big)
	Err    bool    `json:"err"`   // parse: the library returned an error
	TokE   string  `json:"toke"`  // parse: error class of Token.Float / Float32
	Tok    string  `json:"tok"`   // typed: constructor ("float", "float32", "int", "uint")
	Acc    string  `json:"acc"`   // typed: accessor ("int", "uint", "float32", "float64")
	GotMag []int   `json:"gotmag"`
	GotNeg bool    `json:"gotneg"`
	Panic  string  `json:"panic"`
}

func fmtPaths(f float64, bits int) [][]byte {
	var outs [][]byte
	outs = append(outs, jsontext.AppendFloat(nil, f, bits))
	var v any = f
	tok := jsontext.Float(f)
	if bits == 32 {
		v = float32(f)
		tok = jsontext.Float32(float32(f))
	}
	b, err := jsonv2.Marshal(v)
	if err != nil {
		b = []byte("error:" + err.Error())
	}
	outs = append(outs, b)
	var buf bytes.Buffer
	e := jsontext.NewEncoder(&buf)
	e.WriteToken(tok)
	outs = append(outs, bytes.TrimSuffix(buf.Bytes(), []byte("\n")))
	b, _ = jsonv2.Marshal(map[string]any{"k": v})
	outs = append(outs, bytes.TrimSuffix(bytes.TrimPrefix(b, []byte(`{"k":`)), []byte("}")))
	return outs
}

// isShortest reports (with exact rational arithmetic) that no decimal with fewer significant
// digits than digits lies strictly inside the rounding interval of f.
func isShortest(f float64, bits int, ndigits int) bool {
	if ndigits <= 1 {
		return true
	}
	// the candidates with k = ndigits-1 digits nearest to f: round f down and up to k digits
	s := strconv.FormatFloat(math.Abs(f), 'e', 40, 64)
	mant, exp, _ := strings.Cut(s, "e")
	e, _ := strconv.Atoi(exp)
	all := strings.Replace(mant, ".", "", 1)
	k := ndigits - 1
	lo := new(big.Int)
	lo.SetString(all[:k], 10)
	hi := new(big.Int).Add(lo, big.NewInt(1))
	for _, c := range []*big.Int{lo, hi} {
		cand := fmt.Sprintf("%se%d", c.String(), e-(k-1))
		var back float64
		if bits == 32 {
			x, _ := strconv.ParseFloat(cand, 32)
			back = float64(float32(x))
		} else {
			back, _ = strconv.ParseFloat(cand, 64)
		}
		if back == math.Abs(f) {
			return false
		}
	}
	return true
}

// correctlyRounded: got is the float (of the given width) nearest to the exact decimal lit,
// ties to even; ovf: the exact value rounds beyond the largest finite float.
func correctlyRounded(lit string, bits int, got float64) (ok bool, ovf bool) {
	exact, okp := new(big.Rat).SetString(lit)
	if !okp {
		// huge exponents: decide by magnitude of the exponent
		f, _, err := big.ParseFloat(lit, 10, 4000, big.ToNearestEven)
		if err != nil {
			return false, false
		}
		if f.Sign() == 0 {
			return got == 0, false
		}
		if f.MantExp(nil) > 2000 {
			return math.IsInf(got, 0), true
		}
		return got == 0 || math.Abs(got) <= math.SmallestNonzeroFloat64, false
	}
	maxF := new(big.Rat).SetFloat64(math.MaxFloat64)
	ulpHalf := new(big.Rat).SetFloat64(math.Ldexp(1, 970)) // half ulp at MaxFloat64
	if bits == 32 {
		maxF = new(big.Rat).SetFloat64(math.MaxFloat32)
		ulpHalf = new(big.Rat).SetFloat64(math.Ldexp(1, 103))
	}
	abs := new(big.Rat).Abs(exact)
	limit := new(big.Rat).Add(maxF, ulpHalf)
	if abs.Cmp(limit) >= 0 {
		return math.IsInf(got, 0), true
	}
	if math.IsInf(got, 0) || math.IsNaN(got) {
		return false, false
	}
	// neighbours of got
	var lo, hi float64
	if bits == 32 {
		g := float32(got)
		lo, hi = float64(math.Nextafter32(g, float32(math.Inf(-1)))), float64(math.Nextafter32(g, float32(math.Inf(1))))
	} else {
		lo, hi = math.Nextafter(got, math.Inf(-1)), math.Nextafter(got, math.Inf(1))
	}
	dist := func(x float64) *big.Rat {
		if math.IsInf(x, 0) {
			// the would-be next value beyond the largest finite one
			r := new(big.Rat).Add(maxF, new(big.Rat).Add(ulpHalf, ulpHalf))
			if x < 0 {
				r.Neg(r)
			}
			return new(big.Rat).Abs(new(big.Rat).Sub(exact, r))
		}
		return new(big.Rat).Abs(new(big.Rat).Sub(exact, new(big.Rat).SetFloat64(x)))
	}
	dg, dl, dh := dist(got), dist(lo), dist(hi)
	if dg.Cmp(dl) > 0 || dg.Cmp(dh) > 0 {
		return false, false
	}
	even := func(x float64) bool {
		if bits == 32 {
			return math.Float32bits(float32(x))&1 == 0
		}
		return math.Float64bits(x)&1 == 0
	}
	if (dg.Cmp(dl) == 0 || dg.Cmp(dh) == 0) && !even(got) {
		return false, false
	}
	return true, false
}

func numExec(c *numCase) {
	defer func() {
		if r := recover(); r != nil {
			c.Panic = fmt.Sprint(r)
		}
		// the trace reader on the TLC side has no JSON null
		if c.Outs == nil {
			c.Outs = [][]int{}
		}
		if c.Proj == nil {
			c.Proj = []any{}
		}
		if c.Lit == nil {
			c.Lit = []int{}
		}
		if c.GotMag == nil {
			c.GotMag = []int{}
		}
	}()
	if c.Kind == "fmt" {
		u, _ := strconv.ParseUint(c.F, 16, 64)
		var f float64
		if c.Bits == 32 {
			f = float64(math.Float32frombits(uint32(u)))
		} else {
			f = math.Float64frombits(u)
		}
		c.Outs = nil
		c.RT = true
		for _, o := range fmtPaths(f, c.Bits) {
			c.Outs = append(c.Outs, ints(o))
			back, err := strconv.ParseFloat(string(o), c.Bits)
			if err != nil || math.Float64bits(back) != math.Float64bits(f) {
				c.RT = false
			}
			// and through the library itself
			if c.Bits == 32 {
				var g float32
				if jsonv2.Unmarshal(o, &g) != nil || math.Float32bits(g) != math.Float32bits(float32(f)) {
					c.RT = false
				}
			} else {
				var g float64
				if jsonv2.Unmarshal(o, &g) != nil || math.Float64bits(g) != math.Float64bits(f) {
					c.RT = false
				}
			}
		}
		// projection: shortest digits by strconv, with the width-specific algorithm
		s := strconv.FormatFloat(math.Abs(f), 'e', -1, c.Bits)
		p := floatDigitsOf(s, math.Signbit(f))
		c.Proj = p
		c.Short = isShortest(f, c.Bits, len(p[1].([]int)))
		return
	}
	if c.Kind == "typed" {
		numExecTyped(c)
		return
	}
	lit := string(bytesOf(c.Lit))
	c.Round, c.Err = true, false
	var got float64
	if c.Bits == 32 {
		var g float32
		err := jsonv2.Unmarshal([]byte(lit), &g)
		c.Err = err != nil
		got = float64(g)
		var q float32
		err2 := jsonv2.Unmarshal([]byte(`"`+lit+`"`), &q, jsonv2.StringifyNumbers(true))
		if (err2 != nil) != c.Err || (err == nil && math.Float32bits(q) != math.Float32bits(g)) {
			c.Round = false
		}
	} else {
		var g float64
		err := jsonv2.Unmarshal([]byte(lit), &g)
		c.Err = err != nil
		got = g
		var a any
		err2 := jsonv2.Unmarshal([]byte(lit), &a)
		if (err2 != nil) != c.Err || (err == nil && math.Float64bits(a.(float64)) != math.Float64bits(g)) {
			c.Round = false
		}
		var q float64
		err3 := jsonv2.Unmarshal([]byte(`"`+lit+`"`), &q, jsonv2.StringifyNumbers(true))
		if (err3 != nil) != c.Err || (err == nil && math.Float64bits(q) != math.Float64bits(g)) {
			c.Round = false
		}
	}
	d := jsontext.NewDecoder(bytes.NewReader([]byte(lit)))
	tok, err := d.ReadToken()
	if err != nil {
		c.Panic = "ReadToken: " + err.Error()
		return
	}
	var tf float64
	var terr error
	if c.Bits == 32 {
		var t32 float32
		t32, terr = tok.Float32()
		tf = float64(t32)
	} else {
		tf, terr = tok.Float()
	}
	c.TokE = numErrClass(terr)
	okr, ovf := correctlyRounded(lit, c.Bits, tf)
	c.Ovf = ovf
	if !okr {
		c.Round = false
	}
	if !c.Err { // Unmarshal succeeded: its value must be the token's value
		if math.Float64bits(got) != math.Float64bits(tf) {
			c.Round = false
		}
	}
}

func floatDigitsOf(s string, neg bool) []any {
	mant, exp, _ := strings.Cut(s, "e")
	e, _ := strconv.Atoi(exp)
	digits := []int{}
	for _, ch := range mant {
		if ch != '.' {
			digits = append(digits, int(ch-'0'))
		}
	}
	for len(digits) > 1 && digits[len(digits)-1] == 0 {
		digits = digits[:len(digits)-1]
	}
	if len(digits) == 1 && digits[0] == 0 {
		return []any{neg, []int{}, 0}
	}
	return []any{neg, digits, e + 1}
}

// drive-num seed=N n=N out=<ndjson> [redo=<records>]
func driveNum(args map[string]string) error {
	out, err := newSink(args["out"])
	if err != nil {
		return err
	}
	defer out.close()
	if redo := args["redo"]; redo != "" {
		err := tlcLines(redo, func(line []byte) {
			var c numCase
			if err := jsonv2.Unmarshal(line, &c); err != nil {
				panic(err)
			}
			numExec(&c)
			out.put(c)
		})
		summary(map[string]any{"cases": out.n})
		return err
	}
	seed, n := uint64(argInt(args, "seed", 1)), argInt(args, "n", 1000)
	r := newRng(seed, 1300)
	id := 0
	emitF := func(f float64, bits int) {
		if math.IsInf(f, 0) || math.IsNaN(f) || (bits == 32 && math.IsInf(float64(float32(f)), 0)) {
			return // the property is about finite values
		}
		id++
		u := math.Float64bits(f)
		if bits == 32 {
			u = uint64(math.Float32bits(float32(f)))
		}
		c := numCase{ID: id, Prop: "C10", Kind: "fmt", Bits: bits, F: strconv.FormatUint(u, 16), Lit: []int{}, Proj: []any{}}
		numExec(&c)
		out.put(c)
	}
	emitL := func(lit string, bits int) {
		id++
		c := numCase{ID: id, Prop: "C10", Kind: "parse", Bits: bits, Lit: ints([]byte(lit)), Outs: [][]int{}, Proj: []any{}}
		numExec(&c)
		out.put(c)
	}
	// neighbours of the layout switches and special values
	for _, base := range []float64{1e-6, 1e21, 1e-7, 1e20, 1, 0.1, 123456789, 5e-324, math.MaxFloat64, math.MaxFloat32, math.SmallestNonzeroFloat32, 1 << 53, 1e15, 1e16, 1e17} {
		x := base
		for k := 0; k < 3; k++ {
			emitF(x, 64)
			emitF(-x, 64)
			emitF(float64(float32(x)), 32)
			x = math.Nextafter(x, 0)
		}
		x = base
		for k := 0; k < 3; k++ {
			x = math.Nextafter(x, math.Inf(1))
			if !math.IsInf(x, 0) {
				emitF(x, 64)
			}
		}
	}
	emitF(0, 64)
	emitF(math.Copysign(0, -1), 64)
	emitF(math.Copysign(0, -1), 32)
	for i := 0; i < n; i++ {
		switch i % 4 {
		case 0: // stratified float64: random exponent, mantissa pattern
			exp := uint64(r.IntN(2046) + 1)
			man := r.Uint64() & (1<<52 - 1)
			switch r.IntN(4) {
			case 0:
				man = 0
			case 1:
				man = 1<<52 - 1
			case 2:
				man &= ^uint64(0) << uint(r.IntN(52))
			}
			emitF(math.Float64frombits(uint64(r.IntN(2))<<63|exp<<52|man), 64)
		case 1: // float32 bit patterns (finite)
			u := r.Uint32()
			if u&0x7f800000 == 0x7f800000 {
				u &^= 0x00800000
			}
			emitF(float64(math.Float32frombits(u)), 32)
		case 2: // literals
			var sb strings.Builder
			c := &genCfg{bigNums: true}
			genNumber(r, c, &sb)
			emitL(sb.String(), []int{32, 64}[r.IntN(2)])
		default: // literals at rounding boundaries: a float's neighbourhood midpoint +- tiny
			f := math.Float64frombits(r.Uint64()&^(0x7ff<<52) | uint64(r.IntN(2046)+1)<<52)
			bits := 64
			if r.IntN(2) == 0 {
				bits = 32
				f = float64(math.Float32frombits(r.Uint32()&^0x7f800000 | uint32(r.IntN(254)+1)<<23))
			}
			a := new(big.Float).SetPrec(200).SetFloat64(f)
			var nb float64
			if bits == 32 {
				nb = float64(math.Nextafter32(float32(f), float32(math.Inf(1))))
			} else {
				nb = math.Nextafter(f, math.Inf(1))
			}
			if math.IsInf(nb, 0) {
				continue
			}
			mid := new(big.Float).SetPrec(200).Add(a, new(big.Float).SetPrec(200).SetFloat64(nb))
			mid.Quo(mid, big.NewFloat(2))
			lit := mid.Text('e', 45)
			switch r.IntN(3) {
			case 0:
				lit = mid.Text('e', 60)
			case 1: // just above the midpoint
				m, e, _ := strings.Cut(lit, "e")
				lit = m + "1e" + e
			}
			emitL(strings.Replace(lit, "e+", "e", 1), bits)
		}
	}
	// tokens constructed from Go numbers, read back through every accessor
	emitT := func(tokk string, bits uint64, acc string) {
		if (tokk == "float" && bits&(0x7ff<<52) == 0x7ff<<52) || (tokk == "float32" && bits&0x7f800000 == 0x7f800000) {
			return // finite values only
		}
		id++
		c := numCase{ID: id, Prop: "C10", Kind: "typed", Tok: tokk, Acc: acc, F: strconv.FormatUint(bits, 16), Lit: []int{}, Outs: [][]int{}, Proj: []any{}}
		numExec(&c)
		out.put(c)
	}
	accs := []string{"int", "uint", "float64", "float32"}
	specialF := []float64{0, math.Copysign(0, -1), 0.5, -0.5, 1, -1, 1.5, 9007199254740992, 9223372036854775807, 9223372036854775808, -9223372036854775808, -9223372036854777856,
		18446744073709551615, 18446744073709551616, 1e30, -1e30, math.MaxFloat32, 3.4028235e38, 3.4028235677973366e38, math.Nextafter(3.4028235677973366e38, 0), 3.4028236e38, math.MaxFloat64, 1e-320}
	for _, f := range specialF {
		for _, a := range accs {
			emitT("float", math.Float64bits(f), a)
			emitT("float32", uint64(math.Float32bits(float32(f))), a)
		}
	}
	for _, v := range []int64{0, 1, -1, math.MaxInt64, math.MinInt64, 1 << 53, -(1 << 53) - 1} {
		for _, a := range accs {
			emitT("int", uint64(v), a)
		}
	}
	for _, v := range []uint64{0, 1, math.MaxInt64, math.MaxInt64 + 1, math.MaxUint64, 1<<53 + 1} {
		for _, a := range accs {
			emitT("uint", v, a)
		}
	}
	for i := 0; i < n/10; i++ {
		a := accs[r.IntN(4)]
		switch r.IntN(4) {
		case 0:
			emitT("float", r.Uint64()&^(0x7ff<<52)|uint64(r.IntN(2046)+1)<<52, a)
		case 1: // floats around the float32 overflow threshold and the int64/uint64 bounds
			base := []float64{math.MaxFloat32, 9223372036854775808, 18446744073709551616, 1 << 53}[r.IntN(4)]
			x := base
			for k := r.IntN(40) - 20; k != 0; {
				if k > 0 {
					x = math.Nextafter(x, math.Inf(1))
					k--
				} else {
					x = math.Nextafter(x, 0)
					k++
				}
			}
			if r.IntN(2) == 0 {
				x = -x
			}
			emitT("float", math.Float64bits(x), a)
		case 2:
			emitT("int", r.Uint64()>>uint(r.IntN(64)), a)
		default:
			emitT("uint", r.Uint64()>>uint(r.IntN(64)), a)
		}
	}
	// plain integer literals at float32 rounding midpoints above 2^53 (no exponent, no fraction)
	for i := 0; i < n/20+20; i++ {
		f := math.Float32frombits(uint32(0x5a800000) + uint32(r.IntN(0x04800000))) // 2^54 .. 2^63
		nb := math.Nextafter32(f, float32(math.Inf(1)))
		lo, _ := new(big.Float).SetFloat64(float64(f)).Int(nil)
		hi, _ := new(big.Float).SetFloat64(float64(nb)).Int(nil)
		mid := new(big.Int).Rsh(new(big.Int).Add(lo, hi), 1)
		for _, d := range []int64{-1, 0, 1, 2} {
			m := new(big.Int).Add(mid, big.NewInt(d))
			if m.IsUint64() {
				emitL(m.String(), 32)
			}
		}
	}
	// overflow threshold of both widths
	for _, s := range []string{"1.7976931348623157e308", "1.7976931348623158e308", "1.797693134862315807e308", "1.797693134862315808e308", "1.8e308", "1e309", "-1e400",
		"3.4028235e38", "3.4028235677973366e38", "3.40282356779733661e38", "3.4028236e38", "1e39", "4e-324", "2.4703282292062327e-324", "2.4703282292062328e-324", "1e-400", "0e999"} {
		emitL(s, 64)
		emitL(s, 32)
	}
	summary(map[string]any{"cases": id})
	return nil
}

func init() {
	commands["replay-num"] = replayNum
	commands["drive-num"] = driveNum
}

var _ = rand.Int

// exactDecimal is the exact decimal expansion of a finite float64.
func exactDecimal(f float64) string {
	if f == 0 {
		if math.Signbit(f) {
			return "-0"
		}
		return "0"
	}
	r := new(big.Rat).SetFloat64(f)
	if r.IsInt() {
		return r.Num().String()
	}
	return r.FloatString(1100)
}

func trimDecimal(s string) string {
	if strings.Contains(s, ".") {
		s = strings.TrimRight(s, "0")
		s = strings.TrimSuffix(s, ".")
	}
	return s
}

func numExecTyped(c *numCase) {
	u, _ := strconv.ParseUint(c.F, 16, 64)
	var tok jsontext.Token
	var exact string
	switch c.Tok {
	case "float":
		f := math.Float64frombits(u)
		tok, exact = jsontext.Float(f), trimDecimal(exactDecimal(f))
	case "float32":
		f := math.Float32frombits(uint32(u))
		tok, exact = jsontext.Float32(f), trimDecimal(exactDecimal(float64(f)))
	case "int":
		tok, exact = jsontext.Int(int64(u)), strconv.FormatInt(int64(u), 10)
	case "uint":
		tok, exact = jsontext.Uint(u), strconv.FormatUint(u, 10)
	}
	c.Lit = ints([]byte(exact))
	c.Round, c.GotMag = true, []int{}
	switch c.Acc {
	case "int":
		v, err := tok.Int()
		c.TokE = numErrClass(err)
		c.GotNeg, c.GotMag = magDigits(strconv.FormatInt(v, 10))
	case "uint":
		v, err := tok.Uint()
		c.TokE = numErrClass(err)
		_, c.GotMag = magDigits(strconv.FormatUint(v, 10))
	case "float64":
		v, err := tok.Float()
		c.TokE = numErrClass(err)
		c.Round, c.Ovf = correctlyRounded(exact, 64, v)
	case "float32":
		v, err := tok.Float32()
		c.TokE = numErrClass(err)
		if c.Tok == "float" && err != nil {
			// documented: the float64 value is returned along with the range error
			c.Round, c.Ovf = true, true
			_, c.Ovf = correctlyRounded(exact, 32, float64(float32(math.Float64frombits(u))))
		} else {
			c.Round, c.Ovf = correctlyRounded(exact, 32, float64(v))
		}
	}
}
