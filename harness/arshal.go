package main

import (
	"bytes"
	"errors"
	"fmt"
	"io"
	"math"
	"math/big"
	"math/rand/v2"
	"reflect"
	"regexp"
	"runtime"
	"sort"
	"strconv"
	"strings"
	"sync"
	"sync/atomic"
	"time"

	jsonv2 "github.com/go-json-experiment/json"
	"github.com/go-json-experiment/json/jsontext"
	jsonv1 "github.com/go-json-experiment/json/v1"
)

// ------------------------------------------------------------------ adversarial user code

// Behaviours of user-supplied marshal code: the bytes a MarshalJSON / MarshalText / AppendText
// returns, or the calls a MarshalJSONTo makes on the encoder it is given.
var userBytes = [][]byte{
	[]byte(`1`), []byte(`"x"`), []byte(`{"a":1}`), []byte(``), []byte(`1 2`), []byte(`{`), []byte(`{"a":1,"a":2}`),
	[]byte("\"\xff\""), []byte(`[1,]`), []byte(" [ 1 , {\"b\" : null} ] "), []byte(`nul`), []byte(`"< >"`), []byte(`-0.0e0`), []byte(`"\ud800"`), []byte("tru\x00"),
}

type uMarshaler struct{ ID int }

func (u uMarshaler) MarshalJSON() ([]byte, error) {
	if u.ID < 0 {
		return []byte(`"e"`), errors.New("user error")
	}
	if u.ID >= 100 {
		return wideByID(u.ID), nil
	}
	return userBytes[u.ID%len(userBytes)], nil
}

// wideByID is an object of 60..89 members (half of the IDs: long names) that repeats one of its
// members at the end, the repeated index running over all members with the ID (a few IDs: none)
func wideByID(id int) []byte {
	n := 60 + id%30
	dup := (id / 2) % (n + 3)
	if dup >= n {
		dup = -1
	}
	if id%4 == 0 { // at or next to the member where the name set changes its representation
		dup = -2 - (id/4)%3
	}
	return wideObject(newRng(uint64(id), 77), n, id%2 == 1, dup, id%3 == 0)
}

type uText struct{ ID int }

var userTexts = [][]byte{[]byte("plain"), []byte(""), []byte("q\"uote\\"), []byte("<&> "), []byte("\xff\xfe"), []byte("a\x00b"), []byte("k1"), []byte("k1")}

func (u uText) MarshalText() ([]byte, error) {
	if u.ID < 0 {
		return []byte("e"), errors.New("user error")
	}
	return userTexts[u.ID%len(userTexts)], nil
}

type uAppender struct{ ID int }

func (u uAppender) AppendText(b []byte) ([]byte, error) {
	if u.ID < 0 {
		return append(b, "junk"...), errors.New("user error")
	}
	text := userTexts[u.ID%len(userTexts)]
	switch u.ID % 9 { // what comes back need not be the slice that went in
	case 5:
		return append([]byte(nil), text...), nil // a fresh slice holding only the text
	case 6:
		return nil, nil
	case 7:
		return b[:0], nil
	case 8:
		if len(b) > 0 {
			return b[:len(b)-1], nil
		}
	}
	return append(b, text...), nil
}

type uMarshalerTo struct{ ID int }

func (u uMarshalerTo) MarshalJSONTo(e *jsontext.Encoder) error {
	if u.ID >= 100 { // a wide object with a repeated name, token by token; errors are not looked at
		d := jsontext.NewDecoder(bytes.NewReader(wideByID(u.ID)), jsontext.AllowDuplicateNames(true))
		for {
			tok, err := d.ReadToken()
			if err != nil {
				break
			}
			e.WriteToken(tok)
		}
		for e.StackDepth() > 0 { // whatever was refused: close what is open
			if e.WriteToken(jsontext.EndObject) != nil && e.WriteToken(jsontext.EndArray) != nil {
				if e.WriteToken(jsontext.Null) != nil {
					break
				}
			}
		}
		return nil
	}
	switch u.ID % 18 {
	case 16, 17: // declines (ErrUnsupported) after having opened a container of its own and filled it
		// with as many elements as the caller's container holds already: depth is off by one, the
		// count of values is the one it came in with
		_, n := e.StackIndex(e.StackDepth())
		if u.ID%18 == 16 {
			e.WriteToken(jsontext.BeginArray)
			for i := int64(0); i < n; i++ {
				e.WriteToken(jsontext.Int(i))
			}
		} else {
			e.WriteToken(jsontext.BeginObject)
			for i := int64(0); i < n/2; i++ {
				e.WriteToken(jsontext.String(strconv.FormatInt(i, 10)))
				e.WriteToken(jsontext.Null)
			}
			if n%2 == 1 {
				e.WriteToken(jsontext.String("odd"))
			}
		}
		return errors.ErrUnsupported
	case 12: // leaves at the depth it came in at - but in another container of the same kind
		e.WriteToken(jsontext.Int(1))
		if e.WriteToken(jsontext.EndArray) != nil {
			e.WriteToken(jsontext.EndObject)
			e.WriteToken(jsontext.BeginObject)
			e.WriteToken(jsontext.String("a"))
			return e.WriteToken(jsontext.Int(2))
		}
		e.WriteToken(jsontext.BeginArray)
		return e.WriteToken(jsontext.Int(2))
	case 13: // the same through one raw value and tokens
		e.WriteValue(jsontext.Value(`"v"`))
		e.WriteToken(jsontext.EndObject)
		e.WriteToken(jsontext.BeginObject)
		e.WriteToken(jsontext.String("k"))
		return e.WriteToken(jsontext.Null)
	case 14, 15:
		return e.WriteToken(jsontext.String("plain"))
	case 0:
		return e.WriteToken(jsontext.Int(1))
	case 1: // nothing
		return nil
	case 2: // two values
		e.WriteToken(jsontext.Int(1))
		return e.WriteToken(jsontext.Int(2))
	case 3: // object left open
		e.WriteToken(jsontext.BeginObject)
		return e.WriteToken(jsontext.String("a"))
	case 4:
		e.WriteToken(jsontext.BeginObject)
		e.WriteToken(jsontext.String("a"))
		e.WriteToken(jsontext.Null)
		return e.WriteToken(jsontext.EndObject)
	case 5: // unsupported after having written
		e.WriteToken(jsontext.Int(1))
		return errors.ErrUnsupported
	case 6: // unsupported, untouched
		return errors.ErrUnsupported
	case 7: // swallows an error of its own making
		e.WriteToken(jsontext.EndArray)
		return e.WriteValue(jsontext.Value(`{"k":[1,2]}`))
	case 8:
		return e.WriteValue(jsontext.Value(`[1,`))
	case 9:
		e.WriteToken(jsontext.BeginArray)
		jsonv2.MarshalEncode(e, map[string]int{"z": 1})
		jsonv2.MarshalEncode(e, make(chan int)) // fails; error swallowed
		return e.WriteToken(jsontext.EndArray)
	case 10: // a nested marshal fails half way through an object; the user code finishes it by hand
		jsonv2.MarshalEncode(e, struct {
			A int
			B chan int
		}{A: 1})
		e.WriteToken(jsontext.Null)
		e.WriteToken(jsontext.String("A"))
		e.WriteToken(jsontext.Int(2))
		return e.WriteToken(jsontext.EndObject)
	default: // the same with a map whose second value cannot be marshaled
		jsonv2.MarshalEncode(e, map[string]any{"a": 1, "b": make(chan int)}, jsonv2.Deterministic(true))
		e.WriteToken(jsontext.Null)
		e.WriteToken(jsontext.String("a"))
		e.WriteToken(jsontext.Int(2))
		return e.WriteToken(jsontext.EndObject)
	}
}

var catalogTypes = map[string]reflect.Type{
	"cat:marshaler":   reflect.TypeOf(uMarshaler{}),
	"cat:text":        reflect.TypeOf(uText{}),
	"cat:appender":    reflect.TypeOf(uAppender{}),
	"cat:marshalerto": reflect.TypeOf(uMarshalerTo{}),
}

func init() {
	prev := buildTypeHook
	buildTypeHook = func(t *tdesc) reflect.Type {
		if ct, ok := catalogTypes[t.K]; ok {
			return ct
		}
		return prev(t)
	}
}

// ------------------------------------------------------------------ option sets

type arshalOpts struct {
	Name string `json:"name"`
	AI   bool   `json:"ai"`
	AD   bool   `json:"ad"`
}

func (o arshalOpts) options(r *rand.Rand) []jsonv2.Options {
	var out []jsonv2.Options
	if o.AI {
		out = append(out, jsontext.AllowInvalidUTF8(true))
	}
	if o.AD {
		out = append(out, jsontext.AllowDuplicateNames(true))
	}
	switch o.Name {
	case "default", "ai", "ad":
	case "stringify":
		out = append(out, jsonv2.StringifyNumbers(true))
	case "deterministic":
		out = append(out, jsonv2.Deterministic(true))
	case "v1":
		out = append(out, jsonv1.DefaultOptionsV1())
	case "nilasnull":
		out = append(out, jsonv2.FormatNilSliceAsNull(true), jsonv2.FormatNilMapAsNull(true))
	case "omitzero":
		out = append(out, jsonv2.OmitZeroStructFields(true))
	case "legacy-omitempty":
		out = append(out, jsonv1.OmitEmptyWithLegacySemantics(true))
	case "legacy-bytes":
		out = append(out, jsonv1.FormatByteArrayAsArray(true), jsonv1.FormatBytesWithLegacySemantics(true))
	case "nano":
		out = append(out, jsonv1.FormatDurationAsNano(true))
	case "bytearray":
		out = append(out, jsonv1.FormatByteArrayAsArray(true))
	case "loose":
		out = append(out, jsonv1.ParseBytesWithLooseRFC4648(true), jsonv1.ParseTimeWithLooseRFC3339(true), jsonv1.UnmarshalArrayFromAnyLength(true))
	case "escape":
		out = append(out, jsontext.EscapeForHTML(true), jsontext.EscapeForJS(true))
	case "multiline":
		out = append(out, jsontext.Multiline(true))
	case "v2": // every option present, with its default value
		out = append(out, jsonv2.DefaultOptionsV2())
	case "v1v2": // the v1 defaults cancelled again
		out = append(out, jsonv1.DefaultOptionsV1(), jsonv2.DefaultOptionsV2())
	case "allfalse": // options given explicitly as false are not the same as options that are set
		out = append(out, jsonv2.StringifyNumbers(false), jsonv2.Deterministic(false), jsonv2.FormatNilSliceAsNull(false), jsonv2.FormatNilMapAsNull(false),
			jsonv2.OmitZeroStructFields(false), jsonv2.MatchCaseInsensitiveNames(false), jsonv2.RejectUnknownMembers(false),
			jsonv1.FormatByteArrayAsArray(false), jsonv1.FormatBytesWithLegacySemantics(false), jsonv1.FormatDurationAsNano(false), jsonv1.OmitEmptyWithLegacySemantics(false),
			jsonv1.MergeWithLegacySemantics(false), jsonv1.StringifyWithLegacySemantics(false), jsonv1.UnmarshalArrayFromAnyLength(false), jsonv1.CallMethodsWithLegacySemantics(false),
			jsonv1.ParseBytesWithLooseRFC4648(false), jsonv1.ParseTimeWithLooseRFC3339(false), jsonv1.ReportErrorsWithLegacySemantics(false),
			jsontext.EscapeForHTML(false), jsontext.EscapeForJS(false), jsontext.PreserveRawStrings(false), jsontext.CanonicalizeRawInts(false), jsontext.CanonicalizeRawFloats(false),
			jsontext.ReorderRawObjects(false), jsontext.SpaceAfterColon(false), jsontext.SpaceAfterComma(false), jsontext.Multiline(false))
	}
	return out
}

var symmetricOptSets = []arshalOpts{{Name: "default"}, {Name: "stringify"}, {Name: "deterministic"}, {Name: "v1", AI: true, AD: true}, {Name: "nilasnull"},
	{Name: "legacy-bytes"}, {Name: "nano"}, {Name: "escape"}, {Name: "multiline"}, {Name: "omitzero"}, {Name: "bytearray"}, {Name: "loose"}, {Name: "legacy-omitempty"}, {Name: "v2"}, {Name: "v1v2"}, {Name: "allfalse"}}

// ------------------------------------------------------------------ records

type arshalCase struct {
	ID    int        `json:"id"`
	Prop  string     `json:"prop"`
	Kind  string     `json:"kind"`
	Opts  arshalOpts `json:"opts"`
	Type  string     `json:"type"`  // Go type, for the reader
	Seed  []uint64   `json:"seed"`  // regenerates the case
	Outs  [][]any    `json:"outs"`  // [route, ok, bytes]
	Flags []bool     `json:"flags"` // kind specific facts computed by the projection
	Panic string     `json:"panic"`
	Texts [][]int    `json:"texts"`
	Tree  any        `json:"tree"`
	Proj  [][]any    `json:"proj"`
	Omit  bool       `json:"omit"`
	Note  string     `json:"note"`    // first error text, for the reader only
	Swap  bool       `json:"swap"`    // the value holds user code that swaps its caller's container (known finding K7)
	ZoneS bool       `json:"zonesec"` // the value holds a time whose zone offset is not a whole number of minutes (K8)
}

func (c *arshalCase) norm() {
	if c.Outs == nil {
		c.Outs = [][]any{}
	}
	if c.Flags == nil {
		c.Flags = []bool{}
	}
	if c.Texts == nil {
		c.Texts = [][]int{}
	}
	if c.Proj == nil {
		c.Proj = [][]any{}
	}
	if c.Seed == nil {
		c.Seed = []uint64{}
	}
	if c.Tree == nil {
		c.Tree = []any{}
	}
}

func okBytes(route string, b []byte, err error) []any {
	if b == nil {
		b = []byte{}
	}
	return []any{route, err == nil, ints(b)}
}

// the three marshal routes
func marshalRoutes(v any, opts []jsonv2.Options) [][]any {
	var outs [][]any
	b, err := jsonv2.Marshal(v, opts...)
	outs = append(outs, okBytes("marshal", b, err))
	var buf bytes.Buffer
	err = jsonv2.MarshalWrite(&buf, v, opts...)
	outs = append(outs, okBytes("write", buf.Bytes(), err))
	sw := &scriptedWriter{}
	err = jsonv2.MarshalWrite(sw, v, opts...)
	outs = append(outs, okBytes("write-plain", sw.got.Bytes(), err))
	var buf2 bytes.Buffer
	e := jsontext.NewEncoder(&buf2, toCoder(optsCoderOnly(opts))...)
	err = jsonv2.MarshalEncode(e, v, optsArshalOnly(opts)...)
	outs = append(outs, okBytes("encode", buf2.Bytes(), err))
	return outs
}

func optsCoderOnly(o []jsonv2.Options) []jsonv2.Options  { return o }
func optsArshalOnly(o []jsonv2.Options) []jsonv2.Options { return nil }

// ------------------------------------------------------------------ C02: Marshal output is valid JSON

func c02Type(r *rand.Rand) *tdesc {
	if r.IntN(10) == 0 { // times printed with their zone abbreviation by a named layout
		lay := []string{"RFC822", "RFC850", "RFC1123", "UnixDate", "'2006-01-02 MST'", "RFC3339"}[r.IntN(6)]
		return &tdesc{K: "struct", Fields: []fdesc{{Go: "T", T: &tdesc{K: "time"}, Tag: `json:",format:` + lay + `"`},
			{Go: "M", T: &tdesc{K: "map", Key: &tdesc{K: "string"}, Elem: &tdesc{K: "time"}}}}}
	}
	c := &typeCfg{maxDepth: 1 + r.IntN(4), maxFields: 1 + r.IntN(6), tags: true, anys: true, rawValues: true, times: r.IntN(3) == 0, floats: true, formats: r.IntN(3) == 0,
		mapKeys: []string{"string", "int", "uint8", "bool", "float64", "cat:text", "cat:appender", "any", "ptr:slice", "ptr:string", "ptr:struct", "array:int", "struct"}}
	t := genTypeDesc(r, c, 0)
	sprinkleCatalog(r, t)
	return t
}

// sprinkleCatalog replaces some leaves by types with user-supplied marshal code
func sprinkleCatalog(r *rand.Rand, t *tdesc) {
	cats := []string{"cat:marshaler", "cat:text", "cat:appender", "cat:marshalerto"}
	var walk func(t *tdesc)
	walk = func(t *tdesc) {
		if t == nil {
			return
		}
		switch t.K {
		case "slice", "array", "ptr", "map":
			walk(t.Elem)
		case "struct":
			for i := range t.Fields {
				walk(t.Fields[i].T)
			}
		default:
			if r.IntN(5) == 0 {
				t.K = cats[r.IntN(len(cats))]
			}
		}
	}
	walk(t)
}

func fillCatalogIDs(r *rand.Rand, v reflect.Value, depth int) {
	if depth > 12 {
		return
	}
	switch v.Kind() {
	case reflect.Struct:
		if _, ok := v.Type().FieldByName("ID"); ok && v.NumField() == 1 && strings.HasPrefix(v.Type().Name(), "u") {
			id := r.IntN(40)
			if r.IntN(25) == 0 {
				id = -1
			} else if r.IntN(10) == 0 {
				id = 100 + r.IntN(400)
			}
			v.Field(0).SetInt(int64(id))
			return
		}
		for i := 0; i < v.NumField(); i++ {
			fillCatalogIDs(r, v.Field(i), depth+1)
		}
	case reflect.Slice, reflect.Array:
		for i := 0; i < v.Len(); i++ {
			fillCatalogIDs(r, v.Index(i), depth+1)
		}
	case reflect.Pointer, reflect.Interface:
		if !v.IsNil() && v.Kind() == reflect.Pointer {
			fillCatalogIDs(r, v.Elem(), depth+1)
		}
	case reflect.Map:
		for _, k := range v.MapKeys() {
			e := reflect.New(v.Type().Elem()).Elem()
			if !v.MapIndex(k).IsValid() {
				continue // NaN keys cannot be looked up
			}
			e.Set(v.MapIndex(k))
			fillCatalogIDs(r, e, depth+1)
			v.SetMapIndex(k, e)
		}
	}
}

func c02Exec(c *arshalCase) {
	defer func() {
		if r := recover(); r != nil {
			c.Panic = fmt.Sprint(r)
		}
		c.norm()
	}()
	r := rand.New(rand.NewPCG(c.Seed[0], c.Seed[1]))
	t := buildType(c02Type(r))
	c.Type = truncate(t.String(), 300)
	v := genGoValue(r, &valCfg{invalidUTF8: true, nonFinite: true, nils: true, weirdZones: true}, t, 0)
	fillCatalogIDs(r, v, 0)
	c.Swap = holdsSwapper(v, 0)
	opts := append(c.Opts.options(r), jsonv2.ExperimentalSupportFormatTag(true))
	if r.IntN(4) == 0 { // caller-supplied functions with arbitrary output
		id := r.IntN(len(userBytes))
		opts = append(opts, jsonv2.WithMarshalers(jsonv2.JoinMarshalers(
			jsonv2.MarshalFunc(func(x int32) ([]byte, error) { return userBytes[id], nil }),
			jsonv2.MarshalToFunc(func(e *jsontext.Encoder, x bool) error {
				if id%3 == 0 {
					e.WriteToken(jsontext.Bool(x))
					return e.WriteToken(jsontext.Bool(x))
				}
				return errors.ErrUnsupported
			}))))
	}
	c.Outs = marshalRoutes(v.Interface(), opts)
}

func truncate(s string, n int) string {
	if len(s) > n {
		return s[:n] + "..."
	}
	return s
}

// ------------------------------------------------------------------ C04: round trip

func equalNorm(a, b reflect.Value) bool {
	if a.Type() != b.Type() {
		return false
	}
	if a.Type() == timeType {
		return timeEqual(a, b)
	}
	switch a.Kind() {
	case reflect.Float32, reflect.Float64:
		if a.Kind() == reflect.Float32 {
			return math.Float32bits(float32(a.Float())) == math.Float32bits(float32(b.Float()))
		}
		return math.Float64bits(a.Float()) == math.Float64bits(b.Float())
	case reflect.Slice:
		if a.Type() == rawType {
			return sameRaw(a.Bytes(), b.Bytes())
		}
		if a.Len() != b.Len() { // nil and empty identified
			return false
		}
		for i := 0; i < a.Len(); i++ {
			if !equalNorm(a.Index(i), b.Index(i)) {
				return false
			}
		}
		return true
	case reflect.Array:
		for i := 0; i < a.Len(); i++ {
			if !equalNorm(a.Index(i), b.Index(i)) {
				return false
			}
		}
		return true
	case reflect.Map:
		if a.Len() != b.Len() {
			return false
		}
		for _, k := range a.MapKeys() {
			bv := b.MapIndex(k)
			if !bv.IsValid() || !equalNorm(a.MapIndex(k), bv) {
				return false
			}
		}
		return true
	case reflect.Pointer:
		if a.IsNil() || b.IsNil() {
			// a pointer to something that marshals as null comes back as a nil pointer
			return nullish(a) && nullish(b)
		}
		return equalNorm(a.Elem(), b.Elem())
	case reflect.Interface:
		if a.IsNil() || b.IsNil() {
			return a.IsNil() == b.IsNil()
		}
		return equalNorm(a.Elem(), b.Elem())
	case reflect.Struct:
		for i := 0; i < a.NumField(); i++ {
			if !equalNorm(a.Field(i), b.Field(i)) {
				return false
			}
		}
		return true
	}
	return reflect.DeepEqual(a.Interface(), b.Interface())
}

func nullish(v reflect.Value) bool {
	for v.Kind() == reflect.Pointer {
		if v.IsNil() {
			return true
		}
		v = v.Elem()
	}
	return false
}

func timeEqual(a, b reflect.Value) bool {
	m := a.MethodByName("Equal")
	return m.Call([]reflect.Value{b})[0].Bool()
}

func sameRaw(a, b []byte) bool {
	if len(a) == 0 || len(b) == 0 { // a nil raw value marshals as null
		return (len(a) == 0 || string(a) == "null") && (len(b) == 0 || string(b) == "null")
	}
	x, y := jsontext.Value(bytes.Clone(a)), jsontext.Value(bytes.Clone(b))
	if x.Compact() != nil || y.Compact() != nil {
		return false
	}
	return bytes.Equal(x, y)
}

func descHas(t *tdesc, kinds ...string) bool {
	if t == nil {
		return false
	}
	for _, k := range kinds {
		if t.K == k {
			return true
		}
	}
	if descHas(t.Elem, kinds...) || descHas(t.Key, kinds...) {
		return true
	}
	for _, f := range t.Fields {
		if descHas(f.T, kinds...) {
			return true
		}
	}
	return false
}

func c04Type(r *rand.Rand) (*tdesc, bool) {
	c := &typeCfg{maxDepth: 1 + r.IntN(5), maxFields: 1 + r.IntN(8), tags: r.IntN(2) == 0, anys: true, rawValues: r.IntN(3) == 0, times: true, floats: true, formats: r.IntN(2) == 0,
		mapKeys: []string{"string", "int", "int8", "uint64", "string"}}
	t := genTypeDesc(r, c, 0)
	omit := false
	var walk func(t *tdesc)
	walk = func(t *tdesc) {
		if t == nil {
			return
		}
		walk(t.Elem)
		for _, f := range t.Fields {
			if strings.Contains(f.Tag, "omit") {
				omit = true
			}
			walk(f.T)
		}
	}
	walk(t)
	return t, omit
}

func c04Exec(c *arshalCase) {
	defer func() {
		if r := recover(); r != nil {
			c.Panic = fmt.Sprint(r)
		}
		c.norm()
	}()
	r := rand.New(rand.NewPCG(c.Seed[0], c.Seed[1]))
	td, omit := c04Type(r)
	if c.Seed[0]%16 == 0 { // instants where the count of milli/micro/nanoseconds passes a boundary
		td, omit = unixSweepType, false
	}
	t := buildType(td)
	c.Type = truncate(t.String(), 300)
	hasFormat := lossyFormat.MatchString(t.String())
	// unnamed numeric zones do not survive time layouts that print a zone abbreviation (a property
	// of package time), so they are used with the default RFC 3339 representation only
	// layouts with a two-digit year cannot tell centuries apart (package time again)
	twoDigitYear := strings.Contains(t.String(), "format:RFC822") || strings.Contains(t.String(), "format:RFC850")
	v := genGoValue(r, &valCfg{nils: true, numericZones: !hasFormat, nearYears: twoDigitYear}, t, 0)
	if td == unixSweepType {
		tm := unixBoundaryTime(r)
		for i := 0; i < v.NumField(); i++ {
			v.Field(i).Set(reflect.ValueOf(tm))
		}
	}
	c.ZoneS = holdsZoneSeconds(v, 0)
	opts := append(c.Opts.options(r), jsonv2.ExperimentalSupportFormatTag(true))
	c.Omit = omit || c.Opts.Name == "omitzero" || c.Opts.Name == "legacy-omitempty" || c.Opts.Name == "v1"
	out1, err1 := jsonv2.Marshal(v.Interface(), opts...)
	c.Outs = append(c.Outs, okBytes("out1", out1, err1))
	if err1 != nil {
		c.Note = truncate(err1.Error(), 200)
		return
	}
	p2 := reflect.New(t)
	err2 := jsonv2.Unmarshal(out1, p2.Interface(), opts...)
	c.Outs = append(c.Outs, okBytes("dec1", nil, err2))
	if err2 != nil {
		c.Note = truncate(err2.Error(), 200)
		return
	}
	// the same text through a streaming decoder whose buffer is refilled on the way
	p2r := reflect.New(t)
	err2r := jsonv2.UnmarshalRead(&scriptedReader{data: out1, chunks: []int{64, 7, 1, 300}}, p2r.Interface(), opts...)
	c.Outs = append(c.Outs, okBytes("dec1r", nil, err2r))
	streamSame := err2r == nil && equalNorm(p2.Elem(), p2r.Elem())
	out2, err3 := jsonv2.Marshal(p2.Elem().Interface(), opts...)
	c.Outs = append(c.Outs, okBytes("out2", out2, err3))
	p3 := reflect.New(t)
	err4 := jsonv2.Unmarshal(out2, p3.Interface(), opts...)
	out3, err5 := jsonv2.Marshal(p3.Elem().Interface(), opts...)
	if err4 != nil {
		err5 = err4
	}
	c.Outs = append(c.Outs, okBytes("out3", out3, err5))
	// Go equality of the decoded value with the original (nil and empty containers identified)
	// [decoded == original, equality is meaningful for this type and option set]
	meaningful := !c.Omit && !descHas(td, "any", "raw") && c.Opts.Name != "nilasnull" && !hasFormat
	c.Flags = []bool{equalNorm(v, p2.Elem()), meaningful, streamSame}
}

// formats that do not keep everything of the Go value (sub-seconds, centuries, zone offsets):
// Go equality after a round trip is not meaningful with them.  The unix*, *Nano, duration and
// binary formats are lossless.
var lossyFormat = regexp.MustCompile("format:(RFC3339[^N]|RFC822|RFC850|RFC1123|UnixDate|ANSIC|Kitchen|Stamp|DateTime|DateOnly|TimeOnly|'|nonfinite|emitnull|emitempty)")

var unixSweepType = &tdesc{K: "struct", Fields: []fdesc{
	{Go: "Sec", T: &tdesc{K: "time"}, Tag: `json:",format:unix"`},
	{Go: "Milli", T: &tdesc{K: "time"}, Tag: `json:",format:unixmilli"`},
	{Go: "Micro", T: &tdesc{K: "time"}, Tag: `json:",format:unixmicro"`},
	{Go: "Nano", T: &tdesc{K: "time"}, Tag: `json:",format:unixnano"`},
}}

// unixBoundaryTime: an instant whose count of units since the epoch (unit: second, milli-,
// micro- or nanosecond) is within a few units of 2^63, 2^64, 10^9 * units-per-second or 0, on
// either side of the epoch, with arbitrary digits below the unit
func unixBoundaryTime(r *rand.Rand) time.Time {
	unit := []int64{1, 1e3, 1e6, 1e9}[r.IntN(4)] // units per second
	pow := new(big.Int)
	switch r.IntN(5) {
	case 0:
		pow.Lsh(big.NewInt(1), 63)
	case 1, 2:
		pow.Lsh(big.NewInt(1), 64)
	case 3:
		pow.Mul(big.NewInt(1e9), big.NewInt(unit))
	default:
		pow.SetInt64(0)
	}
	pow.Add(pow, big.NewInt(int64(r.IntN(7)-3)))
	if r.IntN(4) == 0 { // anywhere inside the second that holds the boundary
		pow.Add(pow, big.NewInt(r.Int64N(unit)-unit/2))
	}
	if pow.Sign() < 0 {
		pow.Neg(pow)
	}
	sec, rem := new(big.Int).QuoRem(pow, big.NewInt(unit), new(big.Int))
	nsec := rem.Int64()*(1e9/unit) + r.Int64N(1e9/unit)
	s := sec.Int64()
	if !sec.IsInt64() || s > math.MaxInt64/4 { // time.Time counts seconds from the year 1 in an int64
		s = math.MaxInt64 / 4
	}
	if r.IntN(2) == 0 {
		s, nsec = -s, -nsec
	}
	return time.Unix(s, nsec).UTC()
}

// ------------------------------------------------------------------ C03: untyped targets

type namedIface interface{}

// projectAny turns the Go tree into the shape of JsonValue.tla (numbers as shortest digits)
func projectAny(v any) any {
	switch x := v.(type) {
	case nil:
		return map[string]any{"t": "null"}
	case bool:
		return map[string]any{"t": "bool", "b": x}
	case string:
		return map[string]any{"t": "str", "s": runesOf(x)}
	case float64:
		d := floatDigits(x)
		return map[string]any{"t": "num", "neg": d[0].(bool) && len(d[1].([]int)) > 0, "d": d[1], "n": d[2]}
	case []any:
		e := make([]any, len(x))
		for i := range x {
			e[i] = projectAny(x[i])
		}
		return map[string]any{"t": "arr", "e": e}
	case map[string]any:
		keys := make([]string, 0, len(x))
		for k := range x {
			keys = append(keys, k)
		}
		sort.Strings(keys)
		m := make([]any, 0, len(x))
		for _, k := range keys {
			m = append(m, []any{runesOf(k), projectAny(x[k])})
		}
		return map[string]any{"t": "obj", "m": m}
	}
	return map[string]any{"t": "other", "go": fmt.Sprintf("%T", v)}
}

var c03Routes = []string{"unmarshal", "read", "read1", "decode", "unmarshal-ad", "unmarshal-noop-funcs", "map", "slice", "named", "ptrany"}

func c03Run(route string, text []byte) (v any, err error) {
	noop := jsonv2.WithUnmarshalers(jsonv2.UnmarshalFromFunc(func(d *jsontext.Decoder, x *any) error { return errors.ErrUnsupported }))
	switch route {
	case "unmarshal":
		err = jsonv2.Unmarshal(text, &v)
	case "read":
		err = jsonv2.UnmarshalRead(bytes.NewReader(text), &v)
	case "read1":
		err = jsonv2.UnmarshalRead(&scriptedReader{data: text, chunks: []int{1, 0, 3}}, &v)
	case "decode":
		d := jsontext.NewDecoder(&scriptedReader{data: text, chunks: []int{5, 64, 1}})
		err = jsonv2.UnmarshalDecode(d, &v)
		if err == nil {
			if _, e2 := d.ReadToken(); e2 != io.EOF {
				err = fmt.Errorf("trailing data: %v", e2)
			}
		}
	case "unmarshal-ad":
		err = jsonv2.Unmarshal(text, &v, jsontext.AllowDuplicateNames(true))
	case "unmarshal-noop-funcs":
		err = jsonv2.Unmarshal(text, &v, noop)
	case "map":
		var m map[string]any
		err = jsonv2.Unmarshal(text, &m)
		if m != nil {
			v = m
		}
	case "slice":
		var s []any
		err = jsonv2.Unmarshal(text, &s)
		if s != nil {
			v = s
		}
	case "named":
		var n namedIface
		err = jsonv2.Unmarshal(text, &n)
		v = n
	case "ptrany":
		p := new(any)
		pp := &p
		err = jsonv2.Unmarshal(text, pp)
		if p != nil {
			v = *p
		}
	}
	return v, err
}

func c03Exec(c *arshalCase) {
	defer func() {
		if r := recover(); r != nil {
			c.Panic = fmt.Sprint(r)
		}
		c.norm()
	}()
	text := bytesOf(c.Texts[0])
	c.Proj = numProjOvf(text)
	route := c.Type
	v, err := c03Run(route, text)
	c.Outs = [][]any{{route, err == nil, []int{}}}
	if err == nil {
		c.Tree = projectAny(v)
	}
}

// ------------------------------------------------------------------ driver

// drive-arshal seed=N n=N mode=c02|c04|c03 out=<ndjson> [redo=<records>]
func driveArshal(args map[string]string) error {
	out, err := newSink(args["out"])
	if err != nil {
		return err
	}
	defer out.close()
	exec := func(c *arshalCase) {
		switch c.Kind {
		case "valid":
			c02Exec(c)
		case "roundtrip":
			c04Exec(c)
		case "untyped":
			c03Exec(c)
		case "sweep":
			c07SweepExec(c)
		case "semerr":
			if c.Seed[0]%3 == 0 {
				marshalPosExec(c)
			} else {
				semErrExec(c)
			}
		case "merge":
			c14Exec(c)
		case "ambig":
			c08Exec(c)
		}
	}
	if redo := args["redo"]; redo != "" {
		err := tlcLines(redo, func(line []byte) {
			var c arshalCase
			if err := jsonv2.Unmarshal(line, &c); err != nil {
				panic(err)
			}
			c.Outs, c.Flags, c.Tree, c.Proj, c.Panic = nil, nil, nil, nil, ""
			exec(&c)
			out.put(c)
		})
		summary(map[string]any{"cases": out.n})
		return err
	}
	seed, n, mode := uint64(argInt(args, "seed", 1)), argInt(args, "n", 1000), argStr(args, "mode", "c02")
	if mode == "c07sweep" {
		// pad lengths 0..maxpad in steps, phase shifted by the seed so that successive runs cover all lengths
		step, maxpad := argInt(args, "step", 3), argInt(args, "maxpad", 5200)
		id := 0
		runtime.LockOSThread() // one goroutine on one thread: the pooled encoder it puts back is the one it gets next
		for L := int(seed) % step; L <= maxpad; L += step {
			for vi, on := range []string{"default", "multiline", "deterministic"} {
				for rep := 0; rep < 3; rep++ {
					id++
					c := arshalCase{ID: id, Prop: argStr(args, "prop", "C07"), Kind: "sweep", Seed: []uint64{uint64(L), uint64((L/step)*7 + vi*3 + rep*5)}, Opts: arshalOpts{Name: on}}
					c07SweepExec(&c)
					out.put(c)
				}
			}
		}
		runtime.UnlockOSThread()
		summary(map[string]any{"cases": id, "succeeded": id})
		return nil
	}
	var wg sync.WaitGroup
	var nok atomic.Int64
	workers := runtime.NumCPU()
	for w := 0; w < workers; w++ {
		wg.Add(1)
		go func(w int) {
			defer wg.Done()
			r := newRng(seed, uint64(2100+w))
			for i := w; i < n; i += workers {
				c := arshalCase{ID: i + 1, Seed: []uint64{r.Uint64(), r.Uint64()}}
				switch mode {
				case "c02":
					c.Prop, c.Kind = "C02", "valid"
					sets := []arshalOpts{{Name: "default"}, {Name: "default"}, {Name: "ai", AI: true}, {Name: "ad", AD: true}, {Name: "v1", AI: true, AD: true},
						{Name: "deterministic"}, {Name: "stringify"}, {Name: "escape"}, {Name: "multiline"}, {Name: "legacy-omitempty"}}
					c.Opts = sets[r.IntN(len(sets))]
				case "c04":
					c.Prop, c.Kind = "C04", "roundtrip"
					c.Opts = symmetricOptSets[r.IntN(len(symmetricOptSets))]
				case "c03":
					c.Prop, c.Kind = "C03", "untyped"
					cfg := randCfg(r)
					cfg.invalidU8, cfg.dupNames = false, false
					cfg.bigNums = r.IntN(2) == 0
					text := genText(r, cfg)
					switch r.IntN(8) {
					case 0:
						text = wideObject(r, 1+r.IntN(80), r.IntN(2) == 0, -1, false)
					case 1: // strings sharing first and last 8 bytes (interning cache)
						a := "abcdefgh" + string(genRunes(r, &genCfg{maxStr: 5})) + "ABCDEFGH"
						b := "abcdefgh" + string(genRunes(r, &genCfg{maxStr: 5})) + "ABCDEFGH"
						text = []byte(fmt.Sprintf(`{%q:[%q,%q],%q:{%q:%q}}`, a, b, a, b, a, b))
					case 2:
						text = mutate(r, text)
					case 4: // few long names (> 1 KiB) then a sibling object reusing one of them
						w := wideObject(r, 2+r.IntN(62), true, -1, false)
						var first string
						fmt.Sscanf(string(w[1:]), "%q", &first)
						text = []byte(fmt.Sprintf(`[%s,{%q:1,"z":{%q:2}},%s]`, w, first, first, w))
					case 3: // integers with 16..19 digits
						text = []byte(fmt.Sprintf(`[%d,%d,-%d]`, r.Uint64()>>uint(r.IntN(8)), 9007199254740992+uint64(r.IntN(1000)), r.Uint64()>>1))
					}
					c.Texts = [][]int{ints(text)}
					c.Type = c03Routes[r.IntN(len(c03Routes))]
				case "c16sem":
					c.Prop, c.Kind = "C16", "semerr"
				case "c14":
					c.Prop, c.Kind = "C14", "merge"
				case "c08":
					c.Prop, c.Kind = "C08", "ambig"
				}
				exec(&c)
				for _, o := range c.Outs {
					if o[1].(bool) {
						nok.Add(1)
						break
					}
				}
				out.put(c)
			}
		}(w)
	}
	wg.Wait()
	summary(map[string]any{"cases": n, "succeeded": nok.Load()})
	return nil
}

func init() { commands["drive-arshal"] = driveArshal }

// numProjOvf is numProj plus, per number, whether the literal overflows float64.
func numProjOvf(src []byte) [][]any {
	out := [][]any{}
	d := jsontext.NewDecoder(bytes.NewReader(src), jsontext.AllowDuplicateNames(true), jsontext.AllowInvalidUTF8(true))
	for {
		tok, err := d.ReadToken()
		if err != nil {
			return out
		}
		if tok.Kind() != '0' {
			continue
		}
		lit := tok.String()
		off := int(d.InputOffset()) - len(lit)
		f, perr := strconvParse(lit)
		out = append(out, append(append([]any{off}, floatDigits(f)...), perr))
	}
}

func strconvParse(lit string) (float64, bool) {
	f, err := strconv.ParseFloat(lit, 64)
	if err != nil {
		return 0, true
	}
	return f, false
}

// ------------------------------------------------------------------ C14: merge

func mergeAny(a, b any) any {
	am, ok1 := a.(map[string]any)
	bm, ok2 := b.(map[string]any)
	if !ok1 || !ok2 {
		return b
	}
	out := map[string]any{}
	for k, v := range am {
		out[k] = v
	}
	for k, v := range bm {
		if old, ok := out[k]; ok {
			out[k] = mergeAny(old, v)
		} else {
			out[k] = v
		}
	}
	return out
}

// nestedObjects writes objects nested up to depth levels whose member names come from a tiny
// pool, so that two such texts overlap at every level
func nestedObjects(r *rand.Rand, depth int, sb *strings.Builder) {
	if depth == 0 || r.IntN(5) == 0 {
		sb.WriteString([]string{"1", "2", `"s"`, "null", "[1,2]", "true"}[r.IntN(6)])
		return
	}
	sb.WriteByte('{')
	first := true
	for _, k := range []string{"k0", "k1", "k2"} {
		if r.IntN(3) == 0 {
			continue
		}
		if !first {
			sb.WriteByte(',')
		}
		first = false
		sb.WriteString(`"` + k + `":`)
		nestedObjects(r, depth-1, sb)
	}
	sb.WriteByte('}')
}

func c14Type(r *rand.Rand) *tdesc {
	c := &typeCfg{maxDepth: 1 + r.IntN(4), maxFields: 1 + r.IntN(5), tags: r.IntN(2) == 0, anys: true, floats: true, mergeable: true, mapKeys: []string{"string"}, plainNames: true}
	t := genTypeDesc(r, c, 0)
	if t.K != "struct" && t.K != "map" && t.K != "ptr" && r.IntN(3) != 0 { // mostly object-shaped roots
		t = &tdesc{K: "struct", Fields: []fdesc{{Go: "A", T: t}, {Go: "B", T: genTypeDesc(r, c, 1)}, {Go: "C", T: &tdesc{K: "map", Key: &tdesc{K: "string"}, Elem: genTypeDesc(r, c, 2)}}}}
	}
	return t
}

func c14Exec(c *arshalCase) {
	defer func() {
		if r := recover(); r != nil {
			c.Panic = fmt.Sprint(r)
		}
		c.norm()
	}()
	r := rand.New(rand.NewPCG(c.Seed[0], c.Seed[1]))
	td := c14Type(r)
	deepAny := r.IntN(4) == 0
	if deepAny { // objects nested several levels below untyped and map-typed destinations
		td = &tdesc{K: "struct", Fields: []fdesc{{Go: "X", T: &tdesc{K: "any"}}, {Go: "M", T: &tdesc{K: "map", Key: &tdesc{K: "string"}, Elem: &tdesc{K: "any"}}},
			{Go: "P", T: &tdesc{K: "ptr", Elem: &tdesc{K: "any"}}}}}
	}
	t := buildType(td)
	c.Type = truncate(t.String(), 300)
	k := 2 + r.IntN(3)
	var texts [][]byte
	for i := 0; i < k; i++ {
		var sb strings.Builder
		genJSONFor(r, td, &sb, 0)
		if deepAny {
			sb.Reset()
			sb.WriteString(`{"X":`)
			nestedObjects(r, 4, &sb)
			sb.WriteString(`,"M":`)
			nestedObjects(r, 4, &sb)
			if r.IntN(2) == 0 {
				sb.WriteString(`,"P":`)
				nestedObjects(r, 3, &sb)
			}
			sb.WriteString(`}`)
		}
		tx := []byte(sb.String())
		if i > 0 && r.IntN(2) == 0 { // a variation of the previous text: deep overlaps of nested objects
			var prev any
			if jsonv2.Unmarshal(texts[i-1], &prev) == nil {
				if b, err := jsonv2.Marshal(perturb(r, prev, 0), jsonv2.Deterministic(true)); err == nil {
					tx = b
				}
			}
		}
		texts = append(texts, tx)
	}
	// JSON-level merge computed by the driver; the specification re-derives it
	var acc any
	for i, tx := range texts {
		var v any
		if err := jsonv2.Unmarshal(tx, &v); err != nil {
			c.Note = "generator produced invalid text: " + err.Error()
			return
		}
		if i == 0 {
			acc = v
		} else {
			acc = mergeAny(acc, v)
		}
	}
	merged, err := jsonv2.Marshal(acc, jsonv2.Deterministic(true))
	if err != nil {
		c.Note = err.Error()
		return
	}
	c.Texts = nil
	for _, tx := range texts {
		c.Texts = append(c.Texts, ints(tx))
	}
	c.Texts = append(c.Texts, ints(merged))
	// the same law under options that only spell out the defaults
	var o14 []jsonv2.Options
	switch c.Seed[1] % 4 {
	case 1:
		o14 = []jsonv2.Options{jsonv2.DefaultOptionsV2()}
	case 2:
		o14 = arshalOpts{Name: "allfalse"}.options(nil)
	}
	chain := reflect.New(t)
	chainOK := true
	for i, tx := range texts {
		err := jsonv2.Unmarshal(tx, chain.Interface(), o14...)
		c.Outs = append(c.Outs, okBytes(fmt.Sprintf("chain%d", i+1), nil, err))
		if err != nil {
			chainOK = false
			c.Note = truncate(err.Error(), 200)
			break
		}
	}
	single := reflect.New(t)
	errS := jsonv2.Unmarshal(merged, single.Interface(), o14...)
	c.Outs = append(c.Outs, okBytes("single", nil, errS))
	c.Flags = []bool{chainOK, errS == nil, chainOK && errS == nil && equalNorm(chain.Elem(), single.Elem())}
	if chainOK && errS == nil && !c.Flags[2] {
		a, _ := jsonv2.Marshal(chain.Elem().Interface(), jsonv2.Deterministic(true))
		b, _ := jsonv2.Marshal(single.Elem().Interface(), jsonv2.Deterministic(true))
		c.Note = truncate("chain="+string(a)+" single="+string(b), 600)
	}
}

// ------------------------------------------------------------------ C08: ambiguous input

// objectSpans finds the objects of a text: [start of '{', position of its '}'] plus the raw
// spans of each member (name literal, value) so that one can be repeated.
type memberSpan struct{ nameS, nameE, valS, valE int }

func objectMembers(text []byte) (objs [][]memberSpan, closers []int) {
	d := jsontext.NewDecoder(bytes.NewReader(text), jsontext.AllowDuplicateNames(true), jsontext.AllowInvalidUTF8(true))
	type frame struct {
		obj     bool
		members []memberSpan
		cur     memberSpan
		n       int
	}
	var stack []frame
	valueDone := func(s, e int) {
		if len(stack) == 0 {
			return
		}
		f := &stack[len(stack)-1]
		if !f.obj {
			return
		}
		if f.n%2 == 0 {
			f.cur = memberSpan{nameS: s, nameE: e}
		} else {
			f.cur.valS, f.cur.valE = s, e
			f.members = append(f.members, f.cur)
		}
		f.n++
	}
	var starts []int
	for {
		k := d.PeekKind()
		tok, err := d.ReadToken()
		if err != nil {
			return objs, closers
		}
		end := int(d.InputOffset())
		switch k {
		case '{', '[':
			stack = append(stack, frame{obj: k == '{'})
			starts = append(starts, end-1)
		case '}', ']':
			f := stack[len(stack)-1]
			stack = stack[:len(stack)-1]
			st := starts[len(starts)-1]
			starts = starts[:len(starts)-1]
			if f.obj {
				objs = append(objs, f.members)
				closers = append(closers, end-1)
			}
			valueDone(st, end)
		default:
			n := len(tok.String())
			if k == '"' { // find the literal's extent: scan back from end for the opening quote is unsafe; re-scan
				n = literalLen(text, end)
			}
			valueDone(end-n, end)
		}
	}
}

// literalLen returns the length of the string literal that ends at end.
func literalLen(text []byte, end int) int {
	// walk forward from every quote position is quadratic; texts are small
	for s := end - 2; s >= 0; s-- {
		if text[s] != '"' {
			continue
		}
		v := jsontext.Value(text[s:end])
		if v.IsValid(jsontext.AllowInvalidUTF8(true)) && v.Kind() == '"' {
			bs := 0
			for p := s - 1; p >= 0 && text[p] == '\\'; p-- {
				bs++
			}
			if bs%2 == 0 {
				return end - s
			}
		}
	}
	return 1
}

func c08Type(r *rand.Rand) *tdesc {
	c := &typeCfg{maxDepth: 1 + r.IntN(3), maxFields: 1 + r.IntN(5), tags: r.IntN(2) == 0, anys: true, rawValues: true, floats: true, mapKeys: []string{"string", "int"}, plainNames: true}
	t := genTypeDesc(r, c, 0)
	if r.IntN(2) == 0 {
		t = &tdesc{K: "struct", Fields: []fdesc{{Go: "A", T: t}, {Go: "B", T: &tdesc{K: "any"}}, {Go: "C", T: &tdesc{K: "map", Key: &tdesc{K: "string"}, Elem: genTypeDesc(r, c, 2)}}, {Go: "D", T: &tdesc{K: "raw"}}}}
	}
	return t
}

func renderResult(p reflect.Value, err error) []any {
	if err != nil {
		return []any{false, []int{}}
	}
	b, e2 := jsonv2.Marshal(p.Elem().Interface(), jsonv2.Deterministic(true), jsontext.AllowInvalidUTF8(true), jsontext.AllowDuplicateNames(true))
	if e2 != nil {
		b = []byte("unrenderable")
	}
	return []any{true, ints(b)}
}

func c08Exec(c *arshalCase) {
	defer func() {
		if r := recover(); r != nil {
			c.Panic = fmt.Sprint(r)
		}
		c.norm()
	}()
	r := rand.New(rand.NewPCG(c.Seed[0], c.Seed[1]))
	td := c08Type(r)
	t := buildType(td)
	c.Type = truncate(t.String(), 300)
	var sb strings.Builder
	genJSONFor(r, td, &sb, 0)
	clean := []byte(sb.String())
	text := clean
	mode := []string{"dup", "dup", "dup-escaped", "badutf8", "clean", "wide", "widestruct"}[r.IntN(7)]
	prefill := r.IntN(3) == 0 && c.Seed[0]%2 == 0
	if mode == "wide" {
		// more than 64 members (the name set switches to a map) with the first or last name repeated,
		// at a position held by a raw value, an untyped value, a map, or skipped as unknown
		n := 60 + r.IntN(20)
		w := wideObject(r, n, r.IntN(2) == 0, []int{0, n - 1, r.IntN(n), -2, -3, -4}[r.IntN(6)], r.IntN(2) == 0)
		td = &tdesc{K: "struct", Fields: []fdesc{{Go: "D", T: &tdesc{K: "raw"}}, {Go: "X", T: &tdesc{K: "any"}},
			{Go: "M", T: &tdesc{K: "map", Key: &tdesc{K: "string"}, Elem: &tdesc{K: "int"}}}, {Go: "K", T: &tdesc{K: "int"}}}}
		t = buildType(td)
		c.Type = t.String()
		text = []byte(fmt.Sprintf(`{%q:%s,"K":1}`, []string{"D", "X", "M", "zz_unknown"}[r.IntN(4)], w))
		clean = []byte(`{"K":2,"M":{"pre":1}}`)
	}
	if mode == "widestruct" {
		// a struct of 100..220 fields (the set of fields seen grows past 64 and 128 entries): a few
		// members from anywhere in it, then one of them again
		n := 100 + r.IntN(120)
		td = &tdesc{K: "struct"}
		for i := 0; i < n; i++ {
			td.Fields = append(td.Fields, fdesc{Go: fmt.Sprintf("F%03d", i), T: &tdesc{K: "int"}})
		}
		t = buildType(td)
		c.Type = fmt.Sprintf("struct of %d int fields", n)
		k := 2 + r.IntN(4)
		var picks []int
		for len(picks) < k {
			picks = append(picks, []int{r.IntN(n), r.IntN(min(n, 64)), 64 + r.IntN(min(n-64, 64)), n - 1 - r.IntN(min(n, 30))}[r.IntN(4)])
		}
		var sb strings.Builder
		sb.WriteByte('{')
		seen := map[int]bool{}
		for i, p := range picks {
			if seen[p] {
				continue
			}
			seen[p] = true
			if i > 0 {
				sb.WriteByte(',')
			}
			fmt.Fprintf(&sb, `"F%03d":%d`, p, i)
		}
		clean = []byte(sb.String() + "}")
		if r.IntN(5) == 0 {
			text = clean
		} else {
			fmt.Fprintf(&sb, `,"F%03d":9}`, picks[r.IntN(len(picks))])
			text = []byte(sb.String())
		}
	}
	switch mode {
	case "dup", "dup-escaped":
		objs, closers := objectMembers(clean)
		var cand []int
		for i, ms := range objs {
			if len(ms) > 0 {
				cand = append(cand, i)
			}
		}
		if len(cand) == 0 {
			mode = "clean"
			break
		}
		oi := cand[r.IntN(len(cand))]
		m := objs[oi][r.IntN(len(objs[oi]))]
		name := clean[m.nameS:m.nameE]
		if mode == "dup-escaped" {
			var tok string
			jsonv2.Unmarshal(name, &tok)
			var nb strings.Builder
			genStringLit(r, &genCfg{escapes: true}, []rune(tok), &nb)
			if nb.String() == string(name) && len(tok) > 0 {
				nb.Reset()
				fmt.Fprintf(&nb, `"\u%04x%s"`, []rune(tok)[0], string([]rune(tok)[1:]))
				if []rune(tok)[0] > 0xffff {
					nb.Reset()
					nb.Write(name)
				}
			}
			name = []byte(nb.String())
		}
		ins := append(append(append([]byte(","), name...), ':'), clean[m.valS:m.valE]...)
		text = append(append(append([]byte{}, clean[:closers[oi]]...), ins...), clean[closers[oi]:]...)
	case "badutf8":
		// damage one string literal of the text
		var pos []int
		in := false
		for i, b := range clean {
			if b == '"' && (i == 0 || clean[i-1] != '\\') {
				in = !in
				if in {
					pos = append(pos, i+1)
				}
			}
		}
		if len(pos) == 0 {
			mode = "clean"
			break
		}
		p := pos[r.IntN(len(pos))]
		bad := [][]byte{{0xff}, {0xc0, 0x80}, {0xed, 0xa0, 0x80}, {0xe2, 0x82}}[r.IntN(4)]
		text = append(append(append([]byte{}, clean[:p]...), bad...), clean[p:]...)
	}
	c.Note = mode
	c.Texts = [][]int{ints(text)}
	for i, o := range [][]jsonv2.Options{{}, {jsontext.AllowDuplicateNames(true)}, {jsontext.AllowInvalidUTF8(true)}, {jsontext.AllowDuplicateNames(true), jsontext.AllowInvalidUTF8(true)}} {
		p := reflect.New(t)
		if prefill { // the destination already holds data (maps track duplicates differently then)
			if jsonv2.Unmarshal(clean, p.Interface(), jsontext.AllowDuplicateNames(true), jsontext.AllowInvalidUTF8(true)) != nil {
				p = reflect.New(t)
			}
		}
		err := jsonv2.Unmarshal(text, p.Interface(), o...)
		res := renderResult(p, err)
		c.Outs = append(c.Outs, []any{[]string{"default", "ad", "ai", "ad+ai"}[i], res[0], res[1]})
	}
}

// perturb keeps the shape of a JSON value but drops, changes and adds members of objects at
// every depth (arrays and scalars are kept or replaced wholesale)
func perturb(r *rand.Rand, v any, depth int) any {
	switch x := v.(type) {
	case map[string]any:
		out := map[string]any{}
		for k, e := range x {
			switch r.IntN(5) {
			case 0: // dropped
			case 1:
				out[k] = e
			default:
				out[k] = perturb(r, e, depth+1)
			}
		}
		if r.IntN(2) == 0 {
			out["k"+strconv.Itoa(r.IntN(4))] = map[string]any{"n" + strconv.Itoa(r.IntN(3)): float64(r.IntN(9))}
		}
		return out
	case []any:
		return x
	case float64:
		if r.IntN(2) == 0 {
			return x + 1
		}
	}
	return v
}

// ------------------------------------------------------------------ C07: flush thresholds vs retracted members

// nullM marshals as null by its own method: omitempty learns that only after the fact
type nullM struct{}

func (nullM) MarshalJSON() ([]byte, error) { return []byte("null"), nil }

type sweepT struct {
	Pad  string
	UN   nullM           `json:",omitempty"`
	NN   **int           `json:",omitempty"`
	P    *[]int          `json:",omitempty"`
	Q    *[0]int         `json:",omitempty"`
	I    any             `json:",omitempty"`
	M    *map[string]int `json:",omitempty"`
	S    *string         `json:",omitempty"`
	N    *int            `json:",omitempty"`
	E    struct{}        `json:",omitempty"`
	IN   any             `json:",omitempty"`
	FM   map[float64]int // keys that are written, taken back and sorted under Deterministic
	Keep []int           `json:",omitempty"`
	Tail int
}

var xRun = regexp.MustCompile(`x{9,}`)

// squeeze shortens the padding run so that traces stay small; the result is still the same
// JSON text up to the content of that one string
func squeeze(b []byte) []byte {
	return xRun.ReplaceAllFunc(b, func(m []byte) []byte { return []byte("x" + strconv.Itoa(len(m))) })
}

func c07SweepExec(c *arshalCase) {
	defer func() {
		if r := recover(); r != nil {
			c.Panic = fmt.Sprint(r)
		}
		c.norm()
	}()
	L := int(c.Seed[0])
	variant := int(c.Seed[1])
	empty, emptyStr, emptyMap := []int{}, "", map[string]int{}
	v := sweepT{Pad: strings.Repeat("x", L), P: &empty, Q: &[0]int{}, I: []int{}, M: &emptyMap, S: &emptyStr, Tail: 7,
		NN: new(*int), IN: (*int)(nil), // null behind a non-nil pointer / inside a non-nil interface
		FM: map[float64]int{1.5: 1, -2.25: 2, 1e21: 3}}
	switch variant % 4 {
	case 1:
		v.I = map[string]any{}
		v.Keep = []int{1}
	case 2:
		v.I = ""
		v.P = nil
	case 3:
		v.I = []any{}
		v.S = nil
		v.M = nil
	}
	c.Type = fmt.Sprintf("sweepT pad=%d variant=%d", L, variant)
	opts := c.Opts.options(nil)
	// Each case brings the recycled streaming encoder into a known state first, so that it gives
	// the same result when re-executed alone: a warm-up write sizes the pooled buffer (its flush
	// threshold is 75% of the capacity), optionally ending in a failed write.
	// two collections empty the sync.Pools: the streaming encoder this case gets is a new one
	runtime.GC()
	runtime.GC()
	warm := []int{0, L / 2, L, 2 * L, 64, 4096}[variant%6]
	if variant%12 >= 6 {
		jsonv2.MarshalWrite(&scriptedWriter{outcomes: []int{3}}, []string{strings.Repeat("stale", 8+warm/5)})
	} else if warm > 0 {
		jsonv2.MarshalWrite(&scriptedWriter{}, strings.Repeat("w", warm))
	}
	outs := marshalRoutes(v, opts)
	for _, o := range outs {
		o[2] = ints(squeeze(bytesOf(o[2].([]int))))
	}
	c.Outs = outs
}

// ------------------------------------------------------------------ C16: position of a SemanticError

// semErrExec builds a text that fits a random type except for one value that cannot be converted
// (a number replaced by `true`, or any value destined for a chan field), with random whitespace
// (also \r) in front of it, and records where Unmarshal says the error is.
func semErrExec(c *arshalCase) {
	defer func() {
		if r := recover(); r != nil {
			c.Panic = fmt.Sprint(r)
		}
		c.norm()
	}()
	r := rand.New(rand.NewPCG(c.Seed[0], c.Seed[1]))
	cfg := &typeCfg{maxDepth: 1 + r.IntN(4), maxFields: 1 + r.IntN(5), tags: r.IntN(2) == 0, floats: true, mapKeys: []string{"string"}, plainNames: r.IntN(2) == 0}
	td := genTypeDesc(r, cfg, 0)
	useChan := r.IntN(3) == 0
	if useChan || td.K != "struct" {
		td = &tdesc{K: "struct", Fields: []fdesc{{Go: "A", T: td}, {Go: "Ch", T: &tdesc{K: "chan"}}, {Go: "Z", T: &tdesc{K: "int"}}}}
		if !useChan {
			td.Fields[1].T = &tdesc{K: "string"}
		}
	}
	t := buildType(td)
	c.Type = truncate(t.String(), 300)
	var sb strings.Builder
	genJSONFor(r, td, &sb, 0)
	text := []byte(sb.String())
	// candidate tokens: numbers (to be replaced by true); for chan fields the value after "Ch"
	d := jsontext.NewDecoder(bytes.NewReader(text))
	type cand struct{ s, e int }
	var cands []cand
	prevName := ""
	depth := 0
	for {
		k := d.PeekKind()
		tok, err := d.ReadToken()
		if err != nil {
			break
		}
		end := int(d.InputOffset())
		isName := false
		if kk, n := d.StackIndex(d.StackDepth()); kk == '{' && n%2 == 1 && k == '"' {
			isName = true
			prevName = tok.String()
		}
		switch k {
		case '{', '[':
			depth++
		case '}', ']':
			depth--
		case '0':
			lit := tok.String()
			if strings.Contains(string(d.StackPointer()), "zz_unknown") {
				break
			}
			if useChan {
				if prevName == "Ch" && depth == 1 {
					cands = append(cands, cand{end - len(lit), end})
				}
			} else {
				cands = append(cands, cand{end - len(lit), end})
			}
		}
		if !isName && k != '{' && k != '[' {
			prevName = ""
		}
	}
	{
		ft := t
		if useChan {
			td2 := *td
			td2.Fields = append([]fdesc{}, td.Fields...)
			td2.Fields[1].T = &tdesc{K: "int"}
			ft = buildType(&td2)
		}
		if err := jsonv2.Unmarshal(text, reflect.New(ft).Interface()); err != nil {
			c.Note = "text does not fit"
			return
		}
	}
	if len(cands) == 0 {
		c.Note = "no candidate"
		return
	}
	cd := cands[r.IntN(len(cands))]
	ws := []string{"", " ", "\r\n", "\t \r", "\n\n "}[r.IntN(5)]
	repl := "true"
	if useChan {
		repl = string(text[cd.s:cd.e])
	}
	out := append(append(append([]byte{}, text[:cd.s]...), []byte(ws+repl)...), text[cd.e:]...)
	off := cd.s + len(ws)
	c.Texts = [][]int{ints(out)}
	p := reflect.New(t)
	err := jsonv2.Unmarshal(out, p.Interface())
	var se *jsonv2.SemanticError
	eoff, eptr := int64(-1), [][]int{}
	kind := "nil"
	switch {
	case errors.As(err, &se):
		kind, eoff, eptr = "semantic", se.ByteOffset, pointerTokens(se.JSONPointer)
	case err != nil:
		kind = "other"
		c.Note = truncate(err.Error(), 200)
	}
	// the same text from a reader, cut inside the delimiter / white space run before the value,
	// right before the value, in single bytes, in small pieces: the same final error (C05)
	streams := [][]any{}
	for _, chunks := range [][]int{{max(off-1, 1), 1 << 20}, {max(off-2, 1), 1 << 20}, {max(off-len(ws)-1, 1), 1, 1 << 20}, {max(off, 1), 1 << 20}, {1}, {3}, {7, 0, 2}} {
		ps := reflect.New(t)
		errS := jsonv2.UnmarshalRead(&scriptedReader{data: out, chunks: chunks}, ps.Interface())
		var ses *jsonv2.SemanticError
		k2, o2, p2 := "nil", int64(-1), [][]int{}
		switch {
		case errors.As(errS, &ses):
			k2, o2, p2 = "semantic", ses.ByteOffset, pointerTokens(ses.JSONPointer)
		case errS != nil:
			k2 = "other"
		}
		streams = append(streams, []any{k2, o2, p2})
	}
	c.Tree = map[string]any{"off": off, "kind": kind, "eoff": eoff, "eptr": eptr, "streams": streams}
}

// c16Leaf is a value whose marshal function looks at the Encoder's position
type c16Leaf int64

// marshalPosExec: positions on the way out.  Values of a marker type are placed at random depths
// of a generated type (struct fields, elements, map values, behind pointers); a MarshalToFunc for
// the marker writes a number that occurs nowhere else and notes Encoder.StackPointer right after.
// The record is the one of semErrExec: the complete output, the offset of one marker's number in
// it, and the pointer that was seen there - Decoder.tla computes the pointer of that token.
func marshalPosExec(c *arshalCase) {
	defer func() {
		if r := recover(); r != nil {
			c.Panic = fmt.Sprint(r)
		}
		c.norm()
	}()
	r := rand.New(rand.NewPCG(c.Seed[0], c.Seed[1]))
	cfg := &typeCfg{maxDepth: 1 + r.IntN(3), maxFields: 1 + r.IntN(4), tags: r.IntN(2) == 0, mapKeys: []string{"string"}, plainNames: r.IntN(2) == 0}
	var wrap func(depth int) *tdesc
	wrap = func(depth int) *tdesc {
		if depth == 0 {
			return &tdesc{K: "leaf16"}
		}
		in := wrap(depth - 1)
		switch r.IntN(5) {
		case 0:
			return &tdesc{K: "slice", Elem: in}
		case 1:
			return &tdesc{K: "map", Key: &tdesc{K: "string"}, Elem: in}
		case 2:
			return &tdesc{K: "ptr", Elem: in}
		}
		// a struct with the marker's branch somewhere between other fields
		t := &tdesc{K: "struct"}
		for i, n := 0, r.IntN(4); i < n; i++ {
			t.Fields = append(t.Fields, fdesc{Go: fmt.Sprintf("P%d", i), T: genTypeDesc(r, cfg, 2)})
		}
		f := fdesc{Go: "M", T: in}
		if r.IntN(3) == 0 {
			f.Tag = `json:"m~/\u00e9,omitempty"`
		}
		t.Fields = append(t.Fields, f)
		for i, n := 0, r.IntN(3); i < n; i++ {
			t.Fields = append(t.Fields, fdesc{Go: fmt.Sprintf("Q%d", i), T: genTypeDesc(r, cfg, 2)})
		}
		return t
	}
	td := wrap(1 + r.IntN(4))
	t := buildType(td)
	c.Type = truncate(t.String(), 300)
	v := genGoValue(r, &valCfg{}, t, 0)
	sets := []string{"default", "multiline", "multiline", "deterministic", "escape", "nilasnull", "omitzero"}
	c.Opts = arshalOpts{Name: sets[r.IntN(len(sets))]}
	opts := c.Opts.options(r)
	if r.IntN(4) == 0 {
		opts = append(opts, jsontext.SpaceAfterColon(true), jsontext.SpaceAfterComma(true))
	}
	type seen struct {
		lit string
		ptr [][]int
	}
	var calls []seen
	opts = append(opts, jsonv2.WithMarshalers(jsonv2.MarshalToFunc(func(e *jsontext.Encoder, x c16Leaf) error {
		lit := strconv.Itoa(777000000 + len(calls))
		if err := e.WriteToken(jsontext.Int(int64(777000000 + len(calls)))); err != nil {
			return err
		}
		calls = append(calls, seen{lit, pointerTokens(e.StackPointer())})
		return nil
	})))
	var out []byte
	var err error
	if r.IntN(2) == 0 {
		out, err = jsonv2.Marshal(v.Interface(), opts...)
	} else {
		var bb bytes.Buffer
		err = jsonv2.MarshalWrite(&bb, v.Interface(), opts...)
		out = bb.Bytes()
	}
	if err != nil || len(calls) == 0 {
		c.Note = "no marker written: " + fmt.Sprint(err)
		return
	}
	k := calls[r.IntN(len(calls))]
	off := bytes.Index(out, []byte(k.lit))
	if off < 0 || bytes.Count(out, []byte(k.lit)) != 1 {
		c.Note = "marker not unique in the output"
		return
	}
	c.Texts = [][]int{ints(out)}
	c.Tree = map[string]any{"off": off, "kind": "semantic", "eoff": off, "eptr": k.ptr, "streams": [][]any{}}
}

// holdsSwapper: some uMarshalerTo in the value closes its caller's container and opens another
func holdsSwapper(v reflect.Value, depth int) bool {
	if depth > 14 || !v.IsValid() {
		return false
	}
	if v.Type() == reflect.TypeOf(uMarshalerTo{}) {
		id := int(v.Field(0).Int())
		return id >= 0 && id < 100 && (id%18 == 12 || id%18 == 13)
	}
	switch v.Kind() {
	case reflect.Struct:
		for i := 0; i < v.NumField(); i++ {
			if holdsSwapper(v.Field(i), depth+1) {
				return true
			}
		}
	case reflect.Slice, reflect.Array:
		for i := 0; i < v.Len(); i++ {
			if holdsSwapper(v.Index(i), depth+1) {
				return true
			}
		}
	case reflect.Pointer, reflect.Interface:
		if !v.IsNil() {
			return holdsSwapper(v.Elem(), depth+1)
		}
	case reflect.Map:
		for it := v.MapRange(); it.Next(); {
			if holdsSwapper(it.Key(), depth+1) || holdsSwapper(it.Value(), depth+1) {
				return true
			}
		}
	}
	return false
}

func holdsZoneSeconds(v reflect.Value, depth int) bool {
	if depth > 14 || !v.IsValid() {
		return false
	}
	if v.Type() == timeType {
		_, off := v.Interface().(time.Time).Zone()
		return off%60 != 0
	}
	switch v.Kind() {
	case reflect.Struct:
		for i := 0; i < v.NumField(); i++ {
			if holdsZoneSeconds(v.Field(i), depth+1) {
				return true
			}
		}
	case reflect.Slice, reflect.Array:
		for i := 0; i < v.Len(); i++ {
			if holdsZoneSeconds(v.Index(i), depth+1) {
				return true
			}
		}
	case reflect.Pointer, reflect.Interface:
		if !v.IsNil() {
			return holdsZoneSeconds(v.Elem(), depth+1)
		}
	case reflect.Map:
		for it := v.MapRange(); it.Next(); {
			if holdsZoneSeconds(it.Value(), depth+1) {
				return true
			}
		}
	}
	return false
}
