package main

import (
	"fmt"
	"math"
	"math/rand/v2"
	"strconv"
	"strings"
	"unicode/utf8"
)

// Text generators shared by the drivers.  They only produce inputs; nothing
// here decides a property.

type genCfg struct {
	maxDepth   int
	maxWidth   int
	maxStr     int
	ws         bool // random insignificant whitespace
	escapes    bool // random escape spellings in strings
	bigNums    bool // numbers with many digits / exponents
	unicode    bool // non-ASCII characters
	invalidU8  bool // ill-formed UTF-8 inside strings
	dupNames   bool // occasionally duplicate a member name
	simpleNums bool // only integers that survive float64 exactly
	plainKeys  bool // member names k0, k1, ...
}

func newRng(seed uint64, stream uint64) *rand.Rand {
	return rand.New(rand.NewPCG(seed, stream*0x9e3779b97f4a7c15+1))
}

var wsBytes = []byte{' ', '\t', '\n', '\r'}

func genWS(r *rand.Rand, c *genCfg, sb *strings.Builder) {
	if !c.ws {
		return
	}
	for r.IntN(4) == 0 {
		sb.WriteByte(wsBytes[r.IntN(4)])
	}
}

var interestingRunes = []rune{0, 1, 0x1f, ' ', '"', '\\', '/', '<', '>', '&', 0x7f, 0x80, 0xe9, 0x7ff, 0x800, 0x2028, 0x2029,
	0xd7ff, 0xe000, 0xfffd, 0xfffe, 0xffff, 0x10000, 0x1f600, 0x10ffff, 'a', 'b', 'A', '_', '-', '~', '0', '1',
	// neighbours: same UTF-16 lead surrogate, adjacent blocks, just above the surrogates, short-escape controls
	0x1f601, 0x1f5ff, 0x10001, 0x103ff, 0x10400, 0xe001, 0xfb00, 0x08, 0x0c, 0x0a, 0x0d, 0x09, 0x0b}

func genRune(r *rand.Rand, c *genCfg) rune {
	switch k := r.IntN(10); {
	case k < 5 || !c.unicode:
		return rune(' ' + r.IntN(95))
	case k < 8:
		return interestingRunes[r.IntN(len(interestingRunes))]
	default:
		for {
			x := rune(r.IntN(0x110000))
			if x < 0xd800 || x > 0xdfff {
				return x
			}
		}
	}
}

// genRunes returns the code points of a random string.
func genRunes(r *rand.Rand, c *genCfg) []rune {
	n := 0
	switch r.IntN(8) {
	case 0:
		n = 0
	case 1:
		n = 1 + r.IntN(c.maxStr+1)
	default:
		n = r.IntN(8)
	}
	rs := make([]rune, n)
	for i := range rs {
		rs[i] = genRune(r, c)
	}
	return rs
}

const hexLower = "0123456789abcdef"
const hexUpper = "0123456789ABCDEF"

func writeU(r *rand.Rand, sb *strings.Builder, u uint16) {
	hx := hexLower
	if r.IntN(2) == 0 {
		hx = hexUpper
	}
	sb.WriteString(`\u`)
	sb.WriteByte(hx[u>>12&15])
	sb.WriteByte(hx[u>>8&15])
	sb.WriteByte(hx[u>>4&15])
	sb.WriteByte(hx[u&15])
}

// genStringLit spells the code points as a JSON string literal.
func genStringLit(r *rand.Rand, c *genCfg, rs []rune, sb *strings.Builder) {
	sb.WriteByte('"')
	for _, x := range rs {
		esc := c.escapes && r.IntN(4) == 0
		switch {
		case x == '"' || x == '\\':
			if esc && r.IntN(2) == 0 {
				writeU(r, sb, uint16(x))
			} else {
				sb.WriteByte('\\')
				sb.WriteRune(x)
			}
		case x < ' ':
			short := map[rune]byte{'\b': 'b', '\f': 'f', '\n': 'n', '\r': 'r', '\t': 't'}
			if s, ok := short[x]; ok && r.IntN(2) == 0 {
				sb.WriteByte('\\')
				sb.WriteByte(s)
			} else {
				writeU(r, sb, uint16(x))
			}
		case esc && x == '/':
			sb.WriteString(`\/`)
		case esc && x < 0x10000:
			writeU(r, sb, uint16(x))
		case esc:
			x -= 0x10000
			writeU(r, sb, uint16(0xd800+(x>>10)))
			writeU(r, sb, uint16(0xdc00+(x&0x3ff)))
		default:
			sb.WriteRune(x)
		}
		if c.invalidU8 && r.IntN(12) == 0 {
			bad := [][]byte{{0xff}, {0x80}, {0xc0, 0x80}, {0xe2, 0x82}, {0xed, 0xa0, 0x80}, {0xf4, 0x90, 0x80, 0x80}, {0xc2}, {0xf0, 0x9f}}
			sb.Write(bad[r.IntN(len(bad))])
		}
	}
	sb.WriteByte('"')
}

func genNumber(r *rand.Rand, c *genCfg, sb *strings.Builder) {
	if c.simpleNums {
		sb.WriteString(strconv.FormatInt(int64(r.IntN(2000001))-1000000, 10))
		return
	}
	switch r.IntN(8) {
	case 0:
		sb.WriteString(strconv.FormatInt(int64(r.Uint64()), 10))
	case 1:
		sb.WriteString(strconv.FormatFloat(math.Float64frombits(r.Uint64()&^(0x7ff<<52)|uint64(r.IntN(2046)+1)<<52), 'g', -1, 64))
	case 2:
		if r.IntN(2) == 0 {
			sb.WriteByte('-')
		}
		sb.WriteByte('0')
	case 4:
		// integers around the limits of the integer types and of exact float64 integers, either
		// sign: where conversions take a different route
		if r.IntN(2) == 0 {
			sb.WriteByte('-')
		}
		switch r.IntN(3) {
		case 0: // a magnitude in [2^63, 2^64)
			sb.WriteString(strconv.FormatUint(r.Uint64()|1<<63, 10))
		case 1: // 2^64 - 3 .. 2^64 + 6
			if d := r.IntN(10); d < 3 {
				sb.WriteString(strconv.FormatUint(math.MaxUint64-uint64(2-d), 10))
			} else {
				sb.WriteString("1844674407370955161" + strconv.Itoa(d+3))
			}
		default:
			sb.WriteString(strconv.FormatUint([]uint64{1 << 63, 1 << 53, 1 << 31, 1 << 32, 1 << 24}[r.IntN(5)]+uint64(r.IntN(5))-2, 10))
		}
	case 3:
		if c.bigNums {
			if r.IntN(2) == 0 {
				sb.WriteByte('-')
			}
			sb.WriteByte(byte('1' + r.IntN(9)))
			for i, n := 0, r.IntN(40); i < n; i++ {
				sb.WriteByte(byte('0' + r.IntN(10)))
			}
			if r.IntN(2) == 0 {
				sb.WriteByte('.')
				for i, n := 0, 1+r.IntN(30); i < n; i++ {
					sb.WriteByte(byte('0' + r.IntN(10)))
				}
			}
			if r.IntN(2) == 0 {
				sb.WriteByte("eE"[r.IntN(2)])
				if k := r.IntN(3); k < 2 {
					sb.WriteByte("+-"[k])
				}
				sb.WriteString(strconv.Itoa(r.IntN(400)))
			}
			return
		}
		fallthrough
	default:
		sb.WriteString(strconv.Itoa(r.IntN(2000) - 1000))
		if r.IntN(3) == 0 {
			sb.WriteByte('.')
			sb.WriteString(strconv.Itoa(r.IntN(1000)))
		}
		if r.IntN(4) == 0 {
			sb.WriteByte("eE"[r.IntN(2)])
			if k := r.IntN(3); k < 2 {
				sb.WriteByte("+-"[k])
			}
			sb.WriteString(strconv.Itoa(r.IntN(30)))
		}
	}
}

func genValue(r *rand.Rand, c *genCfg, depth int, sb *strings.Builder) {
	k := r.IntN(10)
	if depth >= c.maxDepth && k >= 6 {
		k = r.IntN(6)
	}
	switch k {
	case 0:
		sb.WriteString("null")
	case 1:
		sb.WriteString([]string{"true", "false"}[r.IntN(2)])
	case 2, 3:
		genStringLit(r, c, genRunes(r, c), sb)
	case 4, 5:
		genNumber(r, c, sb)
	case 6, 7:
		sb.WriteByte('[')
		n := r.IntN(c.maxWidth + 1)
		for i := 0; i < n; i++ {
			if i > 0 {
				sb.WriteByte(',')
			}
			genWS(r, c, sb)
			genValue(r, c, depth+1, sb)
			genWS(r, c, sb)
		}
		if n == 0 {
			genWS(r, c, sb)
		}
		sb.WriteByte(']')
	default:
		sb.WriteByte('{')
		n := r.IntN(c.maxWidth + 1)
		seen := map[string]bool{}
		var names [][]rune
		for i := 0; i < n; i++ {
			var name []rune
			if c.dupNames && len(names) > 0 && r.IntN(6) == 0 {
				name = names[r.IntN(len(names))]
			} else {
				for try := 0; ; try++ {
					name = genRunes(r, c)
					if c.plainKeys {
						name = []rune("k" + strconv.Itoa(i))
					}
					if try > 3 {
						name = append(name, []rune(strconv.Itoa(i))...)
					}
					if !seen[string(name)] {
						break
					}
				}
			}
			seen[string(name)] = true
			names = append(names, name)
			if i > 0 {
				sb.WriteByte(',')
			}
			genWS(r, c, sb)
			genStringLit(r, c, name, sb)
			genWS(r, c, sb)
			sb.WriteByte(':')
			genWS(r, c, sb)
			genValue(r, c, depth+1, sb)
			genWS(r, c, sb)
		}
		if n == 0 {
			genWS(r, c, sb)
		}
		sb.WriteByte('}')
	}
}

func genText(r *rand.Rand, c *genCfg) []byte {
	var sb strings.Builder
	genWS(r, c, &sb)
	genValue(r, c, 0, &sb)
	genWS(r, c, &sb)
	return []byte(sb.String())
}

func randCfg(r *rand.Rand) *genCfg {
	return &genCfg{
		maxDepth: 1 + r.IntN(6), maxWidth: 1 + r.IntN(6), maxStr: 1 + r.IntN(40),
		ws: r.IntN(2) == 0, escapes: r.IntN(2) == 0, bigNums: r.IntN(3) == 0,
		unicode: r.IntN(3) > 0, invalidU8: r.IntN(5) == 0, dupNames: r.IntN(5) == 0,
	}
}

var mutBytes = []byte(`{}[],:"\/ 01-+.eEtrufalsn` + "\x00\x1f\x7f\x80\xbf\xc0\xc2\xe0\xed\xf0\xf4\xff\n\t")

// mutate applies 1..3 byte-level edits.
func mutate(r *rand.Rand, b []byte) []byte {
	b = append([]byte(nil), b...)
	for i, n := 0, 1+r.IntN(3); i < n; i++ {
		if len(b) == 0 {
			b = append(b, mutBytes[r.IntN(len(mutBytes))])
			continue
		}
		p := r.IntN(len(b))
		switch r.IntN(6) {
		case 0:
			b[p] = mutBytes[r.IntN(len(mutBytes))]
		case 1:
			b = append(b[:p], append([]byte{mutBytes[r.IntN(len(mutBytes))]}, b[p:]...)...)
		case 2:
			b = append(b[:p], b[p+1:]...)
		case 3:
			b = b[:p]
		case 4: // duplicate a span
			q := p + r.IntN(len(b)-p+1)
			b = append(b[:q], append(append([]byte(nil), b[p:q]...), b[q:]...)...)
		case 5: // swap two bytes
			q := r.IntN(len(b))
			b[p], b[q] = b[q], b[p]
		}
	}
	return b
}

// wideObject builds an object with n members whose names total well over 1 KiB
// when long is set (the decoder switches from linear name search to a map),
// optionally repeating member dupOf at the end under a different spelling.
func wideObject(r *rand.Rand, n int, long bool, dupOf int, respell bool) []byte {
	var sb strings.Builder
	sb.WriteByte('{')
	names := make([]string, n)
	for i := range names {
		names[i] = fmt.Sprintf("k%d", i)
		if long {
			names[i] += strings.Repeat("x", 10+r.IntN(30))
		}
	}
	// dupOf -2, -3, -4: the member at which the coders change how they remember names (more
	// than 64 names or more than 1 KiB of names), the one before it, the one after it
	if dupOf <= -2 && dupOf >= -4 {
		sw, total := 65, 0
		for i, nm := range names {
			total += len(nm)
			if total > 1024 {
				if i < sw {
					sw = i
				}
				break
			}
		}
		dupOf = sw + map[int]int{-2: 0, -3: -1, -4: 1}[dupOf]
		if dupOf >= n {
			dupOf = n - 1
		}
	}
	put := func(i int, name string, alt bool) {
		if i > 0 {
			sb.WriteByte(',')
		}
		if alt { // same name, escaped spelling of its first character
			fmt.Fprintf(&sb, `"\u%04x%s":%d`, name[0], name[1:], i)
		} else {
			fmt.Fprintf(&sb, `"%s":%d`, name, i)
		}
	}
	for i, nm := range names {
		put(i, nm, false)
	}
	if dupOf >= 0 && dupOf < n {
		put(n, names[dupOf], respell)
	}
	sb.WriteByte('}')
	return []byte(sb.String())
}

// nested builds a text nested exactly depth deep; pattern chooses object (true) or
// array (false) per level.  With leaf == "" the innermost container is empty,
// otherwise leaf is the single element / member value of the innermost container.
func nested(depth int, pattern func(i int) bool, leaf string) []byte {
	var sb strings.Builder
	closers := make([]byte, 0, depth)
	for i := 0; i < depth; i++ {
		last := i == depth-1
		if pattern(i) {
			if last && leaf == "" {
				sb.WriteByte('{')
			} else {
				sb.WriteString(`{"a":`)
			}
			closers = append(closers, '}')
		} else {
			sb.WriteByte('[')
			closers = append(closers, ']')
		}
	}
	sb.WriteString(leaf)
	for i := len(closers) - 1; i >= 0; i-- {
		sb.WriteByte(closers[i])
	}
	return []byte(sb.String())
}

var _ = utf8.RuneError

// sortTorture is an object (inside arrays) whose member names are hard to order: code points
// that share a UTF-16 lead surrogate, that order differently in UTF-8 and UTF-16, prefixes
func sortTorture(r *rand.Rand) []byte {
	pool := []string{"\U0001F600", "\U0001F601", "\U0001F5FF", "\uFFFF", "\uE000", "\U00010000", "\U00010001", "\uD7FF",
		"a\U0001F601", "a\U0001F600", "", "a", "a\U0001F600b", "\U0001F600\U0001F601", "\U0001F600\U0001F600", "\uFB00", "\U0010FFFF", "\U0010FFFE"}
	r.Shuffle(len(pool), func(i, j int) { pool[i], pool[j] = pool[j], pool[i] })
	n := 2 + r.IntN(len(pool)-1)
	var sb strings.Builder
	sb.WriteString("[{")
	for i := 0; i < n; i++ {
		if i > 0 {
			sb.WriteByte(',')
		}
		genStringLit(r, &genCfg{escapes: r.IntN(2) == 0}, []rune(pool[i]), &sb)
		fmt.Fprintf(&sb, ":%d", i)
	}
	sb.WriteString("}]")
	return []byte(sb.String())
}

// singleEscapes: strings whose only escape is one \u00XX of a character that has a shorter
// spelling (or needs none): values and names, upper and lower case hex digits
func singleEscapes() [][]byte {
	var out [][]byte
	cps := []int{0x22, 0x2f, 0x5c, 0x7f, 0x3c, 0x3e, 0x26, 0x41, 0xe9, 0x2028, 0x2029}
	for c := 0; c < 0x20; c++ {
		cps = append(cps, c)
	}
	for _, c := range cps {
		for _, f := range []string{"%04x", "%04X"} {
			e := "\\u" + fmt.Sprintf(f, c)
			out = append(out, []byte(`["x`+e+`y"]`), []byte(`{"k`+e+`q":1,"k":2}`))
		}
	}
	return out
}

// reusedNames: an object with few but long names (more than 1 KiB together), then sibling
// objects that use one of those names again
func reusedNames(r *rand.Rand) []byte {
	w := wideObject(r, 2+r.IntN(62), true, -1, false)
	var first string
	fmt.Sscanf(string(w[1:]), "%q", &first)
	return []byte(fmt.Sprintf(`[%s,{%q:1,"z":{%q:2}},%s]`, w, first, first, w))
}
