package main

import (
	"encoding/base32"
	"encoding/base64"
	"encoding/hex"
	"fmt"
	"math"
	"math/rand/v2"
	"reflect"
	"strconv"
	"strings"
	"time"

	"github.com/go-json-experiment/json/jsontext"
)

// Random Go types (built with reflect), random values of them, and random JSON texts that
// fit them.  Generators only produce inputs; nothing here decides a property.

type tdesc struct {
	K      string  `json:"k"` // bool int8..int64 uint8..uint64 float32 float64 string bytes slice array map ptr any struct raw time duration
	Elem   *tdesc  `json:"elem,omitempty"`
	Key    *tdesc  `json:"key,omitempty"`
	N      int     `json:"n,omitempty"`
	Fields []fdesc `json:"fields,omitempty"`
}

type fdesc struct {
	Go       string `json:"go"`
	Tag      string `json:"tag"`
	T        *tdesc `json:"t"`
	Embedded bool   `json:"embedded,omitempty"`
}

type typeCfg struct {
	maxDepth   int
	maxFields  int
	tags       bool // omitzero/omitempty/string/name tags
	embed      bool // embedded structs and fallbacks
	anys       bool
	rawValues  bool
	times      bool
	floats     bool
	mapKeys    []string // allowed map key kinds
	mergeable  bool     // only types for which JSON-level merge is defined (C14)
	plainNames bool
	formats    bool // `format:` tag options (needs ExperimentalSupportFormatTag)
}

var formatsFor = map[string][]string{
	"time":     {"RFC3339", "RFC3339Nano", "RFC822", "RFC850", "RFC1123", "UnixDate", "unix", "unixmilli", "unixmicro", "unixnano", "DateTime", "'2006-01-02T15:04:05 MST'"},
	"duration": {"units", "sec", "milli", "micro", "nano", "iso8601"},
	"bytes":    {"base64", "base64url", "base32", "base32hex", "base16", "hex", "array"},
	"float64":  {"nonfinite"},
	"float32":  {"nonfinite"},
	"slice":    {"emitnull", "emitempty"},
	"map":      {"emitnull", "emitempty"},
}

var scalarKinds = []string{"bool", "int8", "int16", "int32", "int64", "int", "uint8", "uint16", "uint32", "uint64", "uint", "string", "float64", "float32", "bytes"}

func genTypeDesc(r *rand.Rand, c *typeCfg, depth int) *tdesc {
	leaf := func() *tdesc {
		ks := scalarKinds
		k := ks[r.IntN(len(ks))]
		if !c.floats && strings.HasPrefix(k, "float") {
			k = "int32"
		}
		if c.mergeable && k == "bytes" {
			k = "string"
		}
		switch {
		case c.times && r.IntN(12) == 0:
			return &tdesc{K: []string{"time", "duration"}[r.IntN(2)]}
		case c.rawValues && r.IntN(14) == 0:
			return &tdesc{K: "raw"}
		case c.anys && r.IntN(8) == 0:
			return &tdesc{K: "any"}
		}
		return &tdesc{K: k}
	}
	if depth >= c.maxDepth {
		return leaf()
	}
	switch r.IntN(10) {
	case 0, 1:
		return leaf()
	case 2:
		return &tdesc{K: "slice", Elem: genTypeDesc(r, c, depth+1)}
	case 3:
		return &tdesc{K: "array", N: r.IntN(4), Elem: genTypeDesc(r, c, depth+1)}
	case 4:
		keys := c.mapKeys
		if len(keys) == 0 {
			keys = []string{"string"}
		}
		return &tdesc{K: "map", Key: keyDesc(keys[r.IntN(len(keys))]), Elem: genTypeDesc(r, c, depth+1)}
	case 5:
		return &tdesc{K: "ptr", Elem: genTypeDesc(r, c, depth+1)}
	default:
		n := 1 + r.IntN(c.maxFields)
		if r.IntN(25) == 0 {
			n = 60 + r.IntN(80) // beyond the 64-field fast paths
		}
		t := &tdesc{K: "struct"}
		used := map[string]bool{}
		for i := 0; i < n; i++ {
			f := fdesc{Go: fmt.Sprintf("F%d", i), T: genTypeDesc(r, c, depth+1)}
			if n > 20 {
				f.T = &tdesc{K: []string{"int", "string", "bool"}[r.IntN(3)]}
			}
			name := f.Go
			var opts []string
			if c.tags {
				if r.IntN(3) == 0 {
					name = genFieldName(r, c)
				}
				if r.IntN(5) == 0 {
					opts = append(opts, "omitzero")
				}
				if r.IntN(5) == 0 {
					opts = append(opts, "omitempty")
				}
				if r.IntN(8) == 0 && isNumericKind(f.T.K) {
					opts = append(opts, "string")
				}
			}
			if c.formats {
				if fs, ok := formatsFor[f.T.K]; ok && (r.IntN(2) == 0 || f.T.K == "duration") {
					opts = append(opts, "format:"+fs[r.IntN(len(fs))])
				}
			}
			if used[name] {
				name = name + strconv.Itoa(i)
			}
			used[name] = true
			if name != f.Go || len(opts) > 0 {
				tn := name
				if name == f.Go {
					tn = ""
				}
				f.Tag = `json:` + strconv.Quote(strings.Join(append([]string{tn}, opts...), ","))
			}
			t.Fields = append(t.Fields, f)
		}
		return t
	}
}

// keyDesc expands the shorthand for composite (but comparable) map key types
func keyDesc(k string) *tdesc {
	switch k {
	case "ptr:slice":
		return &tdesc{K: "ptr", Elem: &tdesc{K: "slice", Elem: &tdesc{K: "int"}}}
	case "ptr:string":
		return &tdesc{K: "ptr", Elem: &tdesc{K: "string"}}
	case "ptr:struct":
		return &tdesc{K: "ptr", Elem: &tdesc{K: "struct", Fields: []fdesc{{Go: "A", T: &tdesc{K: "int"}}}}}
	case "array:int":
		return &tdesc{K: "array", N: 2, Elem: &tdesc{K: "int"}}
	case "struct":
		return &tdesc{K: "struct", Fields: []fdesc{{Go: "A", T: &tdesc{K: "int"}}}}
	}
	return &tdesc{K: k}
}

func isNumericKind(k string) bool {
	return strings.HasPrefix(k, "int") || strings.HasPrefix(k, "uint") || strings.HasPrefix(k, "float")
}

func genFieldName(r *rand.Rand, c *typeCfg) string {
	if c.plainNames {
		return []string{"alpha", "Beta", "g_1", "x"}[r.IntN(4)] + strconv.Itoa(r.IntN(50))
	}
	switch r.IntN(5) {
	case 0:
		return "n" + strconv.Itoa(r.IntN(1000))
	case 1:
		return []string{"a b", "q\"uote", "back\\slash", "<html>&", "é", " line", "tab\t", "emoji😀", "sl/ash", "til~de"}[r.IntN(10)] + strconv.Itoa(r.IntN(100))
	default:
		cfg := &genCfg{maxStr: 6, unicode: true}
		for {
			s := string(genRunes(r, cfg)) + strconv.Itoa(r.IntN(1000))
			if _, ok := tagName(s); ok {
				return s
			}
		}
	}
}

var (
	rawType      = reflect.TypeOf(jsontext.Value(nil))
	timeType     = reflect.TypeOf(time.Time{})
	durationType = reflect.TypeOf(time.Duration(0))
	anyType      = reflect.TypeOf((*any)(nil)).Elem()
)

// buildTypeHook lets other files add kinds (types with user-supplied methods)
var buildTypeHook = func(t *tdesc) reflect.Type { panic("buildType " + t.K) }

func buildType(t *tdesc) reflect.Type {
	switch t.K {
	case "bool":
		return reflect.TypeOf(false)
	case "int8":
		return reflect.TypeOf(int8(0))
	case "int16":
		return reflect.TypeOf(int16(0))
	case "int32":
		return reflect.TypeOf(int32(0))
	case "int64":
		return reflect.TypeOf(int64(0))
	case "int":
		return reflect.TypeOf(int(0))
	case "uint8":
		return reflect.TypeOf(uint8(0))
	case "uint16":
		return reflect.TypeOf(uint16(0))
	case "uint32":
		return reflect.TypeOf(uint32(0))
	case "uint64":
		return reflect.TypeOf(uint64(0))
	case "uint":
		return reflect.TypeOf(uint(0))
	case "float32":
		return reflect.TypeOf(float32(0))
	case "float64":
		return reflect.TypeOf(float64(0))
	case "string":
		return reflect.TypeOf("")
	case "bytes":
		return reflect.TypeOf([]byte(nil))
	case "raw":
		return rawType
	case "time":
		return timeType
	case "duration":
		return durationType
	case "any":
		return anyType
	case "chan":
		return reflect.TypeOf(make(chan int))
	case "leaf16":
		return reflect.TypeOf(c16Leaf(0))
	case "slice":
		return reflect.SliceOf(buildType(t.Elem))
	case "array":
		return reflect.ArrayOf(t.N, buildType(t.Elem))
	case "map":
		return reflect.MapOf(buildType(t.Key), buildType(t.Elem))
	case "ptr":
		return reflect.PointerTo(buildType(t.Elem))
	case "struct":
		fs := make([]reflect.StructField, len(t.Fields))
		for i, f := range t.Fields {
			fs[i] = reflect.StructField{Name: f.Go, Type: buildType(f.T), Tag: reflect.StructTag(f.Tag), Anonymous: f.Embedded}
		}
		return reflect.StructOf(fs)
	}
	return buildTypeHook(t)
}

func sign(h int) int {
	if h < 0 {
		return -1
	}
	return 1
}

type valCfg struct {
	numericZones bool
	weirdZones   bool
	invalidUTF8  bool
	nonFinite    bool
	nils         bool
	nearYears    bool // only years a two-digit-year layout (RFC 822, RFC 850) can print and read back
}

func genGoValue(r *rand.Rand, vc *valCfg, t reflect.Type, depth int) reflect.Value {
	v := reflect.New(t).Elem()
	switch t {
	case rawType:
		cfg := &genCfg{maxDepth: 2, maxWidth: 2, maxStr: 4, ws: true, escapes: true, unicode: true, simpleNums: true}
		if r.IntN(12) == 0 { // many members, one of them repeated
			v.SetBytes(wideByID(100 + r.IntN(400)))
		} else if r.IntN(6) != 0 {
			v.SetBytes(genText(r, cfg))
		}
		return v
	case timeType:
		// around the epoch, the ends of the four-digit years, and where the count of
		// nanoseconds since the epoch passes 2^63 and 2^64 (years 2262 / 1677 and 2554 / 1385)
		secs := []int64{0, 1, -1, 951782400, math.MaxInt32, 2000000000, -31535999, 3000000000, 253402300799, -62135596800, 1<<32 + 123,
			9223372036, 9223372037, -9223372036, -9223372037, 18446744073, 18446744074, -18446744073, -18446744074}[r.IntN(map[bool]int{true: 7, false: 19}[vc.nearYears])]
		tm := time.Unix(secs, int64(r.IntN(2))*int64(r.IntN(1e9))).UTC()
		if r.IntN(4) == 0 {
			tm = time.Unix(secs, []int64{0, 1, 709551615, 709551616, 854775807, 854775808, 999999999}[r.IntN(7)]).UTC()
		}
		if vc.numericZones && r.IntN(3) == 0 {
			h := []int{23, -23, 14, -12, 0, 1}[r.IntN(6)]
			// (offsets with seconds exist: every zone of the tz database before standard time)
			tm = tm.In(time.FixedZone("", h*3600+[]int{0, 1800, 3540, -1800, 1172, 30}[r.IntN(6)]*sign(h)))
		}
		if vc.weirdZones && r.IntN(3) == 0 {
			names := []string{"A\"B", "back\\slash", "nl\n", "\xff", "<Z>", "MST", ""}
			tm = tm.In(time.FixedZone(names[r.IntN(len(names))], (r.IntN(27)-13)*3600+r.IntN(2)*1800))
		}
		v.Set(reflect.ValueOf(tm))
		return v
	case durationType:
		ds := []int64{0, 1, -1, 999, 1e9, 3600e9, math.MaxInt64, math.MinInt64, 1500e6, -90061e9 - 7}
		v.SetInt(ds[r.IntN(len(ds))])
		return v
	}
	switch t.Kind() {
	case reflect.Bool:
		v.SetBool(r.IntN(2) == 0)
	case reflect.Int, reflect.Int8, reflect.Int16, reflect.Int32, reflect.Int64:
		bits := t.Bits()
		x := int64(r.Uint64()) >> uint(r.IntN(64))
		switch r.IntN(5) {
		case 0:
			x = 0
		case 1:
			x = math.MaxInt64
		case 2:
			x = math.MinInt64
		}
		v.SetInt(x >> uint(64-bits))
	case reflect.Uint, reflect.Uint8, reflect.Uint16, reflect.Uint32, reflect.Uint64:
		bits := t.Bits()
		x := r.Uint64() >> uint(r.IntN(64))
		switch r.IntN(5) {
		case 0:
			x = 0
		case 1:
			x = math.MaxUint64
		}
		v.SetUint(x >> uint(64-bits))
	case reflect.Float32, reflect.Float64:
		f := math.Float64frombits(r.Uint64()&^(0x7ff<<52) | uint64(r.IntN(2046)+1)<<52)
		switch r.IntN(6) {
		case 0:
			f = 0
		case 1:
			f = float64(r.IntN(100000)) / 8
		case 2:
			f = math.Copysign(0, -1)
		case 3:
			if vc.nonFinite {
				f = []float64{math.NaN(), math.Inf(1), math.Inf(-1)}[r.IntN(3)]
			}
		}
		if t.Kind() == reflect.Float32 && !math.IsNaN(f) && !math.IsInf(f, 0) && math.IsInf(float64(float32(f)), 0) {
			f = 1.5
		}
		v.SetFloat(f)
	case reflect.String:
		cfg := &genCfg{maxStr: 12, unicode: true}
		s := string(genRunes(r, cfg))
		if vc.invalidUTF8 && r.IntN(6) == 0 {
			s += "\xff"
		}
		v.SetString(s)
	case reflect.Slice:
		if vc.nils && r.IntN(4) == 0 {
			return v
		}
		n := r.IntN(4)
		if depth > 4 {
			n = r.IntN(2)
		}
		s := reflect.MakeSlice(t, n, n)
		for i := 0; i < n; i++ {
			s.Index(i).Set(genGoValue(r, vc, t.Elem(), depth+1))
		}
		v.Set(s)
	case reflect.Array:
		for i := 0; i < t.Len(); i++ {
			v.Index(i).Set(genGoValue(r, vc, t.Elem(), depth+1))
		}
	case reflect.Map:
		if vc.nils && r.IntN(4) == 0 {
			return v
		}
		m := reflect.MakeMap(t)
		for i, n := 0, r.IntN(4); i < n; i++ {
			k := genGoValue(r, vc, t.Key(), depth+1)
			if t.Key().Kind() == reflect.Interface { // only hashable dynamic values
				k = reflect.New(t.Key()).Elem()
				k.Set(reflect.ValueOf([]any{true, 1.5, "k", "k2", int8(3), math.NaN()}[r.IntN(6)]))
			}
			m.SetMapIndex(k, genGoValue(r, vc, t.Elem(), depth+1))
		}
		v.Set(m)
	case reflect.Pointer:
		if vc.nils && r.IntN(3) == 0 {
			return v
		}
		if t.Elem().Kind() == reflect.Slice && r.IntN(2) == 0 { // pointer to an empty (non-nil) slice
			p := reflect.New(t.Elem())
			p.Elem().Set(reflect.MakeSlice(t.Elem(), 0, 0))
			v.Set(p)
			return v
		}
		p := reflect.New(t.Elem())
		p.Elem().Set(genGoValue(r, vc, t.Elem(), depth+1))
		v.Set(p)
	case reflect.Interface:
		if vc.nils && r.IntN(4) == 0 {
			return v
		}
		var x any
		switch r.IntN(6) {
		case 0:
			x = true
		case 1:
			x = float64(r.IntN(1000)) / 4
		case 2:
			x = string(genRunes(r, &genCfg{maxStr: 5, unicode: true}))
		case 3:
			x = []any{float64(r.IntN(9)), "e"}
		case 4:
			x = map[string]any{"k" + strconv.Itoa(r.IntN(3)): float64(r.IntN(9))}
		default:
			x = nil
		}
		if x != nil {
			v.Set(reflect.ValueOf(x))
		}
	case reflect.Struct:
		for i := 0; i < t.NumField(); i++ {
			if r.IntN(5) != 0 {
				v.Field(i).Set(genGoValue(r, vc, t.Field(i).Type, depth+1))
			}
		}
	}
	return v
}

// genJSONFor writes a JSON text that fits the type (nulls, missing and extra members included).
func genJSONFor(r *rand.Rand, t *tdesc, sb *strings.Builder, depth int) {
	if r.IntN(12) == 0 {
		sb.WriteString("null")
		return
	}
	switch t.K {
	case "bool":
		sb.WriteString([]string{"true", "false"}[r.IntN(2)])
	case "string":
		genStringLit(r, &genCfg{escapes: true}, genRunes(r, &genCfg{maxStr: 6, unicode: true}), sb)
	case "bytes":
		// binary data in one of the encodings a `format` option can name (mostly Base 64, the
		// default), now and then damaged: excess or missing padding, a line break, the other case
		b := make([]byte, r.IntN(7))
		for i := range b {
			b[i] = byte(r.IntN(256))
		}
		var enc string
		switch k := r.IntN(12); {
		case k < 6:
			enc = base64.StdEncoding.EncodeToString(b)
		case k == 6:
			enc = base64.URLEncoding.EncodeToString(b)
		case k == 7:
			enc = base32.StdEncoding.EncodeToString(b)
		case k == 8:
			enc = base32.HexEncoding.EncodeToString(b)
		case k == 9:
			enc = hex.EncodeToString(b)
		case k == 10:
			enc = strings.ToUpper(hex.EncodeToString(b))
		default:
			sb.WriteByte('[')
			for i, x := range b {
				if i > 0 {
					sb.WriteByte(',')
				}
				sb.WriteString(strconv.Itoa(int(x) + 250*r.IntN(2)*r.IntN(2)*r.IntN(2)))
			}
			sb.WriteByte(']')
			return
		}
		switch r.IntN(14) {
		case 0:
			enc += "="
		case 1:
			enc = strings.TrimSuffix(enc, "=")
		case 2:
			enc += `\n`
		case 3:
			enc = strings.ToLower(enc)
		case 4:
			enc += enc
		}
		sb.WriteString(`"` + enc + `"`)
	case "float32", "float64":
		sb.WriteString([]string{"0", "1.5", "-2.25e2", "1e-3", "123456", "0", "1.5", "-2.25e2", "1e-3", "123456", `"NaN"`, `"-Infinity"`, `"Infinity"`, `"1.5"`}[r.IntN(14)])
	case "time":
		sb.WriteString([]string{`"2000-01-01T00:00:00Z"`, `"1999-12-31T23:59:59.5+01:00"`}[r.IntN(2)])
	case "duration":
		if r.IntN(2) == 0 { // ISO 8601: designators in either case, either separator, a sign, now and then out of order
			parts := []string{}
			for i, d := range []string{"H", "M", "S"} {
				if r.IntN(2) == 0 {
					n := strconv.Itoa(r.IntN(100))
					if i == 2 && r.IntN(2) == 0 {
						n += []string{".", ","}[r.IntN(2)] + strconv.Itoa(r.IntN(1000000))
					}
					if r.IntN(8) == 0 {
						d = strings.ToLower(d)
					}
					parts = append(parts, n+d)
				}
			}
			if r.IntN(12) == 0 && len(parts) > 1 {
				parts[0], parts[1] = parts[1], parts[0]
			}
			sb.WriteString(`"` + []string{"", "", "", "-", "+"}[r.IntN(5)] + "PT" + strings.Join(parts, "") + `"`)
			return
		}
		sb.WriteString([]string{`"1h2m3s"`, `"0s"`, `"-1.5ms"`}[r.IntN(3)])
	case "chan":
		sb.WriteString("1")
	case "raw":
		sb.Write(genText(r, &genCfg{maxDepth: 2, maxWidth: 2, maxStr: 3, simpleNums: true}))
	case "any":
		sb.Write(genText(r, &genCfg{maxDepth: 2, maxWidth: 3, maxStr: 3, simpleNums: true, plainKeys: true}))
	case "slice":
		sb.WriteByte('[')
		for i, n := 0, r.IntN(4); i < n; i++ {
			if i > 0 {
				sb.WriteByte(',')
			}
			genJSONFor(r, t.Elem, sb, depth+1)
		}
		sb.WriteByte(']')
	case "array":
		sb.WriteByte('[')
		for i := 0; i < t.N; i++ {
			if i > 0 {
				sb.WriteByte(',')
			}
			genJSONFor(r, t.Elem, sb, depth+1)
		}
		sb.WriteByte(']')
	case "map":
		sb.WriteByte('{')
		seen := map[string]bool{}
		for i, n := 0, r.IntN(4); i < n; i++ {
			k := "k" + strconv.Itoa(r.IntN(5))
			if t.Key.K != "string" {
				k = strconv.Itoa(r.IntN(5))
			}
			if seen[k] {
				continue
			}
			if len(seen) > 0 {
				sb.WriteByte(',')
			}
			seen[k] = true
			sb.WriteString(strconv.Quote(k))
			sb.WriteByte(':')
			genJSONFor(r, t.Elem, sb, depth+1)
		}
		sb.WriteByte('}')
	case "ptr":
		genJSONFor(r, t.Elem, sb, depth)
	case "struct":
		sb.WriteByte('{')
		first := true
		for _, f := range flatFields(t) {
			if r.IntN(3) == 0 {
				continue // missing member
			}
			if !first {
				sb.WriteByte(',')
			}
			first = false
			name := jsonNameOf(f)
			genStringLit(r, &genCfg{}, []rune(name), sb)
			sb.WriteByte(':')
			if strings.Contains(f.Tag, ",string") || strings.HasSuffix(f.Tag, `string"`) {
				sb.WriteString(`"` + strconv.Itoa(r.IntN(100)) + `"`)
			} else {
				genJSONFor(r, f.T, sb, depth+1)
			}
		}
		if r.IntN(4) == 0 { // an unknown member
			if !first {
				sb.WriteByte(',')
			}
			sb.WriteString(`"zz_unknown":[1,{"a":null}]`)
		}
		sb.WriteByte('}')
	case "cat:text", "cat:appender":
		sb.WriteString([]string{`"k1"`, `""`, `"plain"`}[r.IntN(3)])
	case "cat:marshaler", "cat:ptrmarshaler", "cat:marshalerto":
		sb.WriteString([]string{`1`, `"x"`, `{"a":[1]}`, `[true]`}[r.IntN(4)])
	default: // integers: values that fit every width
		if strings.HasPrefix(t.K, "uint") {
			sb.WriteString(strconv.Itoa(r.IntN(128)))
		} else {
			sb.WriteString(strconv.Itoa(r.IntN(256) - 128))
		}
	}
}

// flatFields lists the fields with those of embedded structs (no name in the tag) inlined.
func flatFields(t *tdesc) []fdesc {
	var out []fdesc
	for _, f := range t.Fields {
		ft := f.T
		if ft != nil && ft.K == "ptr" {
			ft = ft.Elem
		}
		if f.Embedded && ft != nil && ft.K == "struct" && jsonNameOf(f) == f.Go {
			out = append(out, flatFields(ft)...)
			continue
		}
		out = append(out, f)
	}
	return out
}

// jsonNameOf is the member name the field is marshaled under (tag name or Go name).
func jsonNameOf(f fdesc) string {
	if f.Tag == "" {
		return f.Go
	}
	tag, _ := strconv.Unquote(strings.TrimPrefix(f.Tag, "json:"))
	name, _, _ := strings.Cut(tag, ",")
	if name == "" {
		return f.Go
	}
	return name
}
