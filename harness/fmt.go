package main

import (
	"bytes"
	"fmt"
	"math"
	"math/rand/v2"
	"runtime"
	"slices"
	"strconv"
	"strings"
	"sync"
	"sync/atomic"

	jsonv2 "github.com/go-json-experiment/json"
	"github.com/go-json-experiment/json/jsontext"
)

// fmtG is the caller's option record of Format.tla!Effective: the fields named in Set are
// passed explicitly (in a fixed order), everything else is left to the entry point's preset.
type fmtG struct {
	fmtOpts
	Set []string `json:"set"`
}

func (g fmtG) options() []jsontext.Options {
	has := func(k string) bool { return slices.Contains(g.Set, k) }
	var o []jsontext.Options
	if has("ai") {
		o = append(o, jsontext.AllowInvalidUTF8(g.AI))
	}
	if has("ad") {
		o = append(o, jsontext.AllowDuplicateNames(g.AD))
	}
	if has("ml") {
		o = append(o, jsontext.Multiline(g.ML))
	}
	if has("indent") {
		o = append(o, jsontext.WithIndent(string(bytesOf(g.Indent))))
	}
	if has("prefix") {
		o = append(o, jsontext.WithIndentPrefix(string(bytesOf(g.Prefix))))
	}
	if has("sac") {
		o = append(o, jsontext.SpaceAfterColon(g.SAC == 1))
	}
	if has("sacm") {
		o = append(o, jsontext.SpaceAfterComma(g.SACM == 1))
	}
	if has("html") {
		o = append(o, jsontext.EscapeForHTML(g.HTML))
	}
	if has("js") {
		o = append(o, jsontext.EscapeForJS(g.JS))
	}
	if has("prs") {
		o = append(o, jsontext.PreserveRawStrings(g.PRS))
	}
	if has("cri") {
		o = append(o, jsontext.CanonicalizeRawInts(g.CRI))
	}
	if has("crf") {
		o = append(o, jsontext.CanonicalizeRawFloats(g.CRF))
	}
	if has("ror") {
		o = append(o, jsontext.ReorderRawObjects(g.ROR))
	}
	return o
}

// fmtApply runs one entry point of the Format family; it returns success, the resulting
// contents, and whether the contract around errors/aliasing was kept ("" = yes).
func fmtApply(entry string, g fmtG, src []byte) (ok bool, out []byte, broke string, panicked string) {
	defer func() {
		if r := recover(); r != nil {
			panicked = fmt.Sprint(r)
		}
	}()
	opts := g.options()
	if entry == "append" {
		dst := []byte("xy")
		res, err := jsontext.AppendFormat(dst, src, opts...)
		if !bytes.HasPrefix(res, []byte("xy")) {
			broke = "AppendFormat lost dst"
		}
		return err == nil, res[min(2, len(res)):], broke, ""
	}
	v := jsontext.Value(bytes.Clone(src))
	var err error
	switch entry {
	case "format":
		err = v.Format(opts...)
	case "compact":
		err = v.Compact(opts...)
	case "indent":
		err = v.Indent(opts...)
	case "canon":
		err = v.Canonicalize(opts...)
	default:
		panic("entry " + entry)
	}
	return err == nil, []byte(v), "", ""
}

// replay-fmt cases=<TLC out> out=<mismatches>: cases are [bytes, entry, G, ok, out].
func replayFmt(args map[string]string) error {
	out, err := newMismatchSink(argStr(args, "out", "/dev/null"))
	if err != nil {
		return err
	}
	defer out.close()
	var cases, evals, oks atomic.Int64
	err = parallelLines(args["cases"], runtime.NumCPU(), func(line []byte) {
		var rec []jsontext.Value
		if err := jsonv2.Unmarshal(line, &rec); err != nil || len(rec) != 5 {
			return
		}
		var src, want []int
		var entry string
		var g fmtG
		var wantOK bool
		for i, dst := range []any{&src, &entry, &g, &wantOK, &want} {
			if err := jsonv2.Unmarshal(rec[i], dst); err != nil {
				panic(fmt.Sprintf("bad fmt case %s: %v", line, err))
			}
		}
		cases.Add(1)
		if wantOK {
			oks.Add(1)
		}
		entries := []string{entry}
		if entry == "format" {
			entries = append(entries, "append")
		}
		for _, en := range entries {
			evals.Add(1)
			ok, got, broke, p := fmtApply(en, g, bytesOf(src))
			why := ""
			switch {
			case p != "":
				why = "panic"
			case ok != wantOK:
				why = "accept"
			case !bytes.Equal(got, bytesOf(want)):
				why = "bytes"
			case broke != "":
				why = broke
			}
			if why != "" {
				var raw any
				jsonv2.Unmarshal(line, &raw)
				prop := "C12"
				if entry == "canon" {
					prop = "C13"
				}
				if why == "panic" {
					prop = "C20"
				}
				out.put(map[string]any{"prop": prop, "family": "fmt", "case": raw, "entry": en, "why": why, "ok": ok,
					"src": fmt.Sprintf("%q", bytesOf(src)), "got": fmt.Sprintf("%q", got), "want": fmt.Sprintf("%q", bytesOf(want))})
			}
		}
	})
	if err != nil {
		return err
	}
	summary(map[string]any{"cases": cases.Load(), "evaluations": evals.Load(), "valid": oks.Load(), "mismatches": out.n})
	return nil
}

// ------------------------------------------------------------------ driver

// numProj is the trusted projection for number canonicalisation: for every number token of
// the text (by start offset) the shortest decimal digits of the float64 nearest to the
// literal, saturated at +-MaxFloat64: [offset, neg, digits, n] with value 0.d1..dk * 10^n.
func numProj(src []byte) [][]any {
	out := [][]any{}
	d := jsontext.NewDecoder(bytes.NewReader(src), jsontext.AllowDuplicateNames(true), jsontext.AllowInvalidUTF8(true))
	for {
		tok, err := d.ReadToken()
		if err != nil {
			return out
		}
		if tok.Kind() != '0' {
			continue
		}
		lit := tok.String()
		off := int(d.InputOffset()) - len(lit)
		f, _ := strconv.ParseFloat(lit, 64)
		if math.IsInf(f, 1) {
			f = math.MaxFloat64
		} else if math.IsInf(f, -1) {
			f = -math.MaxFloat64
		}
		out = append(out, append([]any{off}, floatDigits(f)...))
	}
}

// floatDigits returns [neg, digits, n] of the shortest decimal that round-trips f.
func floatDigits(f float64) []any {
	if f == 0 {
		return []any{math.Signbit(f), []int{}, 0}
	}
	s := strconv.FormatFloat(math.Abs(f), 'e', -1, 64) // d.ddddde±xx
	mant, exp, _ := strings.Cut(s, "e")
	e, _ := strconv.Atoi(exp)
	digits := []int{}
	for _, c := range mant {
		if c != '.' {
			digits = append(digits, int(c-'0'))
		}
	}
	for len(digits) > 1 && digits[len(digits)-1] == 0 {
		digits = digits[:len(digits)-1]
	}
	return []any{f < 0, digits, e + 1}
}

type fmtCase struct {
	ID    int     `json:"id"`
	Prop  string  `json:"prop"`
	Entry string  `json:"entry"`
	G     fmtG    `json:"g"`
	Src   []int   `json:"src"`
	Proj  [][]any `json:"proj"`
	OK    bool    `json:"ok"`
	Out   []int   `json:"out"`
	Panic string  `json:"panic"`
	Pair  []int   `json:"pair"`    // C13: a re-spelling of src (or empty)
	POut  []int   `json:"pairout"` // its canonical form
	POK   bool    `json:"pairok"`
}

func randG(r *rand.Rand, entry string) fmtG {
	f := randFmt(r)
	f.CRI, f.CRF, f.ROR = r.IntN(4) == 0, r.IntN(4) == 0, r.IntN(4) == 0
	g := fmtG{fmtOpts: f, Set: []string{}}
	add := func(k string, p int) {
		if r.IntN(p) == 0 {
			g.Set = append(g.Set, k)
		}
	}
	for _, k := range []string{"ai", "ad", "html", "js", "prs", "cri", "crf", "ror"} {
		add(k, 3)
	}
	if f.SAC >= 0 {
		g.Set = append(g.Set, "sac")
	}
	if f.SACM >= 0 {
		g.Set = append(g.Set, "sacm")
	}
	indentSet := !(len(f.Indent) == 1 && f.Indent[0] == -1)
	switch {
	case indentSet:
		g.Set = append(g.Set, "indent")
		if len(f.Prefix) > 0 {
			g.Set = append(g.Set, "prefix")
		}
		g.ML = true
	case f.ML:
		g.Set = append(g.Set, "ml")
	case r.IntN(6) == 0:
		g.Set = append(g.Set, "ml") // explicit Multiline(false), e.g. against Indent's preset
	}
	if !indentSet {
		g.Indent = []int{-1}
		g.Prefix = []int{}
	}
	if entry == "canon" && r.IntN(2) == 0 {
		g.Set = []string{}
	}
	return g
}

// respell rewrites a valid text without changing its I-JSON meaning: member permutation,
// whitespace, escape spelling and number spelling.
func respell(r *rand.Rand, src []byte) []byte {
	var v any
	d := jsontext.NewDecoder(bytes.NewReader(src))
	var sb strings.Builder
	cfg := &genCfg{ws: true, escapes: true}
	var rec func() bool
	rec = func() bool {
		genWS(r, cfg, &sb)
		switch d.PeekKind() {
		case '{':
			d.ReadToken()
			type member struct{ text string }
			var ms []member
			outer := sb
			for d.PeekKind() != '}' {
				sb = strings.Builder{}
				tok, err := d.ReadToken()
				if err != nil {
					return false
				}
				genWS(r, cfg, &sb)
				genStringLit(r, cfg, []rune(tok.String()), &sb)
				genWS(r, cfg, &sb)
				sb.WriteByte(':')
				if !rec() {
					return false
				}
				ms = append(ms, member{sb.String()})
			}
			d.ReadToken()
			r.Shuffle(len(ms), func(i, j int) { ms[i], ms[j] = ms[j], ms[i] })
			sb = outer
			sb.WriteByte('{')
			for i, m := range ms {
				if i > 0 {
					sb.WriteByte(',')
				}
				sb.WriteString(m.text)
			}
			genWS(r, cfg, &sb)
			sb.WriteByte('}')
		case '[':
			d.ReadToken()
			sb.WriteByte('[')
			for i := 0; d.PeekKind() != ']'; i++ {
				if d.PeekKind() == 0 {
					return false
				}
				if i > 0 {
					sb.WriteByte(',')
				}
				if !rec() {
					return false
				}
			}
			d.ReadToken()
			genWS(r, cfg, &sb)
			sb.WriteByte(']')
		case '"':
			tok, _ := d.ReadToken()
			genStringLit(r, cfg, []rune(tok.String()), &sb)
		case '0':
			tok, _ := d.ReadToken()
			sb.WriteString(respellNumber(r, tok.String()))
		case 0:
			return false
		default:
			tok, _ := d.ReadToken()
			sb.WriteString(tok.String())
		}
		genWS(r, cfg, &sb)
		return true
	}
	_ = v
	if !rec() {
		return nil
	}
	return []byte(sb.String())
}

// respellNumber keeps the exact decimal value: shifts the point / exponent, adds zeros.
func respellNumber(r *rand.Rand, lit string) string {
	neg := strings.HasPrefix(lit, "-")
	body := strings.TrimPrefix(lit, "-")
	mant, exp, hasExp := strings.Cut(strings.ToLower(body), "e")
	e := 0
	if hasExp {
		e, _ = strconv.Atoi(exp)
	}
	ip, fp, _ := strings.Cut(mant, ".")
	digits := ip + fp
	e -= len(fp) // value = digits * 10^e
	if len(digits) > 30 || e > 400 || e < -400 {
		return lit
	}
	switch r.IntN(4) {
	case 0: // trailing zeros with smaller exponent
		k := r.IntN(3)
		digits += strings.Repeat("0", k)
		e -= k
	case 1: // move digits behind a point
		k := r.IntN(len(digits) + 1)
		digits, e = digits[:len(digits)-k]+"."+digits[len(digits)-k:]+"0", e+k
		if strings.HasPrefix(digits, ".") {
			digits = "0" + digits
		}
	case 2:
		return lit
	}
	ipart, fpart, hasPoint := strings.Cut(digits, ".")
	ipart = strings.TrimLeft(ipart, "0")
	if ipart == "" {
		ipart = "0"
	}
	s := ipart
	if hasPoint {
		s += "." + fpart
	}
	if e != 0 || r.IntN(3) == 0 {
		s += []string{"e", "E"}[r.IntN(2)]
		if e >= 0 && r.IntN(2) == 0 {
			s += "+"
		}
		s += strconv.Itoa(e)
	}
	if neg {
		s = "-" + s
	}
	return s
}

func fmtExec(c *fmtCase) {
	src := bytesOf(c.Src)
	ok, out, broke, p := fmtApply(c.Entry, c.G, src)
	c.OK, c.Out, c.Panic = ok, ints(out), p
	if broke != "" {
		c.Panic = broke
	}
	c.Proj = numProj(src)
	if len(c.Pair) > 0 {
		pok, pout, _, pp := fmtApply(c.Entry, c.G, bytesOf(c.Pair))
		c.POK, c.POut = pok, ints(pout)
		if pp != "" {
			c.Panic = pp
		}
		c.Proj = append(c.Proj, numProjShift(bytesOf(c.Pair))...)
	}
}

// numProjShift gives the pair's projections negative keys (-1-offset) so both fit one map.
func numProjShift(src []byte) [][]any {
	p := numProj(src)
	for _, x := range p {
		x[0] = -1 - x[0].(int)
	}
	return p
}

// drive-fmt seed=N n=N mode=c12|c13 out=<ndjson> [redo=<records>]
func driveFmt(args map[string]string) error {
	out, err := newSink(args["out"])
	if err != nil {
		return err
	}
	defer out.close()
	if redo := args["redo"]; redo != "" {
		err := tlcLines(redo, func(line []byte) {
			var c fmtCase
			if err := jsonv2.Unmarshal(line, &c); err != nil {
				panic(err)
			}
			fmtExec(&c)
			out.put(c)
		})
		summary(map[string]any{"cases": out.n})
		return err
	}
	seed, n, mode := uint64(argInt(args, "seed", 1)), argInt(args, "n", 1000), argStr(args, "mode", "c12")
	if mode == "deep" {
		id, seq, stride := 0, 0, argInt(args, "stride", 1)
		plain := fmtG{fmtOpts: fmtOpts{Indent: []int{-1}, Prefix: []int{}, SAC: -1, SACM: -1}, Set: []string{}}
		for _, d := range []int{10000, 10001} {
			pats := []func(int) bool{func(i int) bool { return false }, func(i int) bool { return true },
				func(i int) bool { return i == d-1 }, func(i int) bool { return i != d-1 }}
			for _, pat := range pats {
				for _, entry := range []string{"format", "compact", "canon"} {
					seq++
					if (seq-1)%stride != 0 {
						continue
					}
					id++
					c := fmtCase{ID: id, Prop: argStr(args, "prop", "C20"), Entry: entry, G: plain, Src: ints(nested(d, pat, "")), Pair: []int{}, POut: []int{}}
					fmtExec(&c)
					out.put(c)
				}
			}
		}
		summary(map[string]any{"cases": id, "accepted": 0, "pairs": 1})
		return nil
	}
	var wg sync.WaitGroup
	var nok, npairs atomic.Int64
	workers := runtime.NumCPU()
	for w := 0; w < workers; w++ {
		wg.Add(1)
		go func(w int) {
			defer wg.Done()
			r := newRng(seed, uint64(500+w))
			for i := w; i < n; i += workers {
				cfg := randCfg(r)
				cfg.bigNums = r.IntN(2) == 0
				src := genText(r, cfg)
				c := fmtCase{ID: i + 1, Prop: "C12", Pair: []int{}, POut: []int{}}
				if mode == "c13" {
					c.Prop, c.Entry = "C13", "canon"
					c.G = fmtG{fmtOpts: fmtOpts{Indent: []int{-1}, Prefix: []int{}, SAC: -1, SACM: -1}, Set: []string{}}
					cfg.invalidU8, cfg.dupNames = false, false
					if r.IntN(3) == 0 { // names that order differently in UTF-16 and UTF-8
						cfg.unicode = true
					}
					src = genText(r, cfg)
					fixed := singleEscapes()
					if i < len(fixed) {
						src = fixed[i]
					} else if r.IntN(8) == 0 {
						src = sortTorture(r)
					}
					if r.IntN(6) == 0 && i >= len(fixed) {
						src = mutate(r, src)
					} else if p := respell(r, src); p != nil {
						c.Pair = ints(p)
						npairs.Add(1)
					}
				} else {
					c.Entry = []string{"format", "format", "compact", "indent", "canon", "append"}[r.IntN(6)]
					c.G = randG(r, c.Entry)
					if fixed := singleEscapes(); i < len(fixed) {
						src = fixed[i]
					} else if r.IntN(12) == 0 {
						src = reusedNames(r)
					} else if r.IntN(12) == 0 {
						src = sortTorture(r)
					} else if r.IntN(4) == 0 {
						src = mutate(r, src)
					}
				}
				c.Src = ints(src)
				fmtExec(&c)
				if c.OK {
					nok.Add(1)
				}
				out.put(c)
			}
		}(w)
	}
	wg.Wait()
	summary(map[string]any{"cases": n, "accepted": nok.Load(), "pairs": npairs.Load()})
	return nil
}

func init() {
	commands["replay-fmt"] = replayFmt
	commands["drive-fmt"] = driveFmt
}
