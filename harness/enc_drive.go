package main

import (
	"bytes"
	"fmt"
	"io"
	"math/rand/v2"
	"runtime"
	"strconv"
	"strings"
	"sync"
	"sync/atomic"

	jsonv2 "github.com/go-json-experiment/json"
)

type encCase struct {
	ID        int       `json:"id"`
	Prop      string    `json:"prop"`
	F         fmtOpts   `json:"f"`
	Writer    string    `json:"writer"`
	Outcomes  []int     `json:"outcomes"`
	Calls     []encCall `json:"calls"`
	Steps     [][]any   `json:"steps"`
	Delivered []int     `json:"delivered"`
}

// encExec runs the calls; with a scripted writer the per-call "write fault delivered" flag is logged.
func encExec(f fmtOpts, writer string, outcomes []int, calls []encCall) (steps [][]any, delivered []byte) {
	var w io.Writer
	var get func() []byte
	var sw *scriptedWriter
	if writer == "buffer" {
		bb := new(bytes.Buffer)
		w, get = bb, bb.Bytes
	} else {
		sw = &scriptedWriter{outcomes: outcomes}
		w, get = sw, sw.got.Bytes
	}
	// run call by call to attribute write faults
	var all []encStep
	e := newEncRunner(w, get, f)
	for _, c := range calls {
		before := 0
		if sw != nil {
			before = countFaults(sw)
		}
		st := e.step(c)
		wf := sw != nil && countFaults(sw) > before
		all = append(all, st)
		steps = append(steps, append(st.tuple(), wf))
		if st.Panic != "" {
			break
		}
	}
	return steps, append([]byte(nil), get()...)
}

func countFaults(w *scriptedWriter) int {
	n := 0
	for _, l := range w.log {
		n += l[2]
	}
	return n
}

func randFmt(r *rand.Rand) fmtOpts {
	f := fmtOpts{Indent: []int{-1}, Prefix: []int{}, SAC: -1, SACM: -1}
	b := func(p int) bool { return r.IntN(p) == 0 }
	f.AI, f.AD = b(4), b(4)
	switch r.IntN(5) {
	case 0:
		f.ML = true
	case 1:
		f.ML = true
		f.Indent = ints([]byte(strings.Repeat(" ", r.IntN(4))))
		if b(2) {
			f.Indent = ints([]byte("\t "))
		}
		if b(2) {
			f.Prefix = ints([]byte(strings.Repeat(" ", 1+r.IntN(3))))
		}
	}
	if b(4) {
		f.SAC = r.IntN(2)
	}
	if b(4) {
		f.SACM = r.IntN(2)
	}
	f.HTML, f.JS, f.PRS = b(4), b(4), b(4)
	f.ROR = b(8)
	return f.withInit()
}

// randCalls builds a mostly well-formed program: it tracks the nesting itself so that
// long programs reach deep states, and sprinkles invalid calls in between.
func randCalls(r *rand.Rand, n int, allowDup bool) []encCall {
	var calls []encCall
	type fr struct {
		obj   bool
		n     int
		names []string
	}
	stack := []fr{}
	mk := func(k, b string) encCall { return encCall{Op: "tok", K: k, B: ints([]byte(b))} }
	rawv := func(b string) encCall { return encCall{Op: "val", K: "", B: ints([]byte(b))} }
	cfg := &genCfg{maxDepth: 3, maxWidth: 3, maxStr: 12, ws: true, escapes: true, unicode: true, simpleNums: true}
	name := func(f *fr) string {
		if len(f.names) > 0 && r.IntN(10) == 0 {
			return f.names[r.IntN(len(f.names))] // duplicate attempt
		}
		var s string
		switch r.IntN(4) {
		case 0:
			s = "k" + strconv.Itoa(len(f.names))
		case 1:
			s = string(genRunes(r, cfg))
		default:
			s = "name_" + strconv.Itoa(len(f.names)) + strings.Repeat("x", r.IntN(40))
		}
		return s
	}
	for len(calls) < n {
		if r.IntN(12) == 0 { // an arbitrary, probably invalid call
			bad := []encCall{mk("}", ""), mk("]", ""), mk("zero", ""), mk("str", "\xff\xfe"), rawv("tru"), rawv("[1,]"), rawv(`{"a":1,"a":2}`),
				rawv("1 2"), rawv(`"\ud800"`), mk("null", ""), mk("num", "3"), rawv(""), rawv(" "), {Op: "ptr", B: []int{}}}
			calls = append(calls, bad[r.IntN(len(bad))])
			continue
		}
		if r.IntN(18) == 0 { // ask where we are - seldom, since asking copies the names held by reference
			calls = append(calls, encCall{Op: "ptr", B: []int{}})
			continue
		}
		inObj := len(stack) > 0 && stack[len(stack)-1].obj
		if inObj && stack[len(stack)-1].n%2 == 0 {
			f := &stack[len(stack)-1]
			if r.IntN(6) == 0 && f.n > 0 || f.n > 2*(1+r.IntN(90)) {
				calls = append(calls, mk("}", ""))
				stack = stack[:len(stack)-1]
				continue
			}
			nm := name(f)
			f.names = append(f.names, nm)
			f.n++
			if r.IntN(4) == 0 {
				var sb strings.Builder
				genStringLit(r, cfg, []rune(nm), &sb)
				calls = append(calls, rawv(sb.String()))
			} else {
				calls = append(calls, mk("str", nm))
			}
			continue
		}
		if len(stack) > 0 && !inObj && (r.IntN(5) == 0 || len(stack) > 6) {
			calls = append(calls, mk("]", ""))
			stack = stack[:len(stack)-1]
			continue
		}
		if len(stack) > 0 {
			stack[len(stack)-1].n++
		}
		switch r.IntN(9) {
		case 0:
			calls = append(calls, mk("{", ""))
			stack = append(stack, fr{obj: true})
		case 1:
			calls = append(calls, mk("[", ""))
			stack = append(stack, fr{})
		case 2:
			calls = append(calls, mk([]string{"null", "true", "false"}[r.IntN(3)], ""))
		case 3:
			calls = append(calls, mk("num", strconv.FormatInt(int64(r.Uint64()>>uint(r.IntN(64))), 10)))
		case 4:
			calls = append(calls, mk("num", strconv.FormatUint(r.Uint64()>>uint(r.IntN(64)), 10)))
		case 5:
			calls = append(calls, mk("str", string(genRunes(r, cfg))+strings.Repeat("y", r.IntN(3)*r.IntN(200))))
		case 6:
			calls = append(calls, mk("num", []string{"1.5", "-0.25", "1e+21", "1e-7", "123456.789", "0.000001"}[r.IntN(6)]))
		default:
			calls = append(calls, rawv(string(genText(r, cfg))))
		}
	}
	return calls
}

// wideCalls: one object with enough members (or long enough names) for the encoder to change
// how it remembers names, every member position taking its turn as the one that is repeated
// later on; written by tokens, by raw names and values, or as one raw value
func wideCalls(r *rand.Rand) []encCall {
	mk := func(k, b string) encCall { return encCall{Op: "tok", K: k, B: ints([]byte(b))} }
	rawv := func(b string) encCall { return encCall{Op: "val", K: "", B: ints([]byte(b))} }
	n := 60 + r.IntN(30)
	long := r.IntN(3) == 0
	if long {
		n = 8 + r.IntN(10)
	}
	names := make([]string, n)
	for i := range names {
		names[i] = "k" + strconv.Itoa(i)
		if long {
			names[i] += strings.Repeat("x", 80+r.IntN(40))
		}
	}
	dup := r.IntN(n + 2) // n, n+1: no repetition
	if r.IntN(3) == 0 {  // at or next to the member where the name set changes its representation
		sw, total := 65, 0
		for i, nm := range names {
			if total += len(nm); total > 1024 {
				sw = min(sw, i)
				break
			}
		}
		dup = min(n-1, max(0, sw-1+r.IntN(3)))
	}
	at := n
	if dup < n {
		at = dup + 1 + r.IntN(n-dup)
	}
	var calls []encCall
	if r.IntN(2) == 0 {
		calls = append(calls, mk("[", ""))
	}
	style := r.IntN(3)
	if style == 2 { // the whole object as one raw value
		var sb strings.Builder
		sb.WriteByte('{')
		for i := 0; i <= n; i++ {
			if i == at && dup < n {
				fmt.Fprintf(&sb, "%q:0,", names[dup])
			}
			if i < n {
				fmt.Fprintf(&sb, "%q:%d,", names[i], i)
			}
		}
		text := strings.TrimSuffix(sb.String(), ",") + "}"
		return append(calls, rawv(text), mk("null", ""))
	}
	calls = append(calls, mk("{", ""))
	put := func(nm string) {
		if style == 1 {
			calls = append(calls, rawv(strconv.Quote(nm)), rawv(" 1"))
		} else {
			calls = append(calls, mk("str", nm), mk("num", "1"))
		}
	}
	for i := 0; i <= n; i++ {
		if i == at && dup < n {
			calls = append(calls, mk("str", names[dup])) // refused; the program goes on
		}
		if i < n {
			put(names[i])
		}
	}
	calls = append(calls, mk("}", ""))
	// a sibling object (or the next top-level value) in the same namespace slot, using names of
	// the first one again: fine, each object has its own names
	if r.IntN(2) == 0 {
		calls = append(calls, mk("{", ""))
		for _, i := range []int{n - 1, r.IntN(n), 0} {
			calls = append(calls, mk("str", names[i]), mk("null", ""))
		}
		calls = append(calls, mk("}", ""))
	}
	return append(calls, mk("null", ""))
}

type encRunner struct {
	steps func(c encCall) encStep
}

func (e *encRunner) step(c encCall) encStep { return e.steps(c) }

func newEncRunner(w io.Writer, get func() []byte, f fmtOpts) *encRunner {
	// reuse encRun's per-call logic through a one-call-at-a-time closure
	var enc *encState
	return &encRunner{steps: func(c encCall) encStep {
		if enc == nil {
			enc = newEncState(w, get, f)
			if enc.initPanic != "" {
				return encStep{Panic: enc.initPanic, Idx: [][]int64{}, Ptr: [][]int{}}
			}
		}
		return enc.call(c)
	}}
}

// drive-enc seed=N n=N mode=c06|c07 out=<ndjson> [redo=<records>]
func driveEnc(args map[string]string) error {
	out, err := newSink(args["out"])
	if err != nil {
		return err
	}
	defer out.close()
	if redo := args["redo"]; redo != "" {
		err := tlcLines(redo, func(line []byte) {
			var rec encCase
			if err := jsonv2.Unmarshal(line, &rec); err != nil {
				panic(err)
			}
			steps, del := encExec(rec.F, rec.Writer, rec.Outcomes, rec.Calls)
			rec.Steps, rec.Delivered = steps, ints(del)
			out.put(rec)
		})
		summary(map[string]any{"cases": out.n})
		return err
	}
	seed, n, mode := uint64(argInt(args, "seed", 1)), argInt(args, "n", 1000), argStr(args, "mode", "c06")
	if mode == "deep" {
		return driveEncDeep(out, argStr(args, "prop", "C20"), argInt(args, "stride", 1))
	}
	var wg sync.WaitGroup
	var ncalls, nfaults, nrej atomic.Int64
	workers := runtime.NumCPU()
	for w := 0; w < workers; w++ {
		wg.Add(1)
		go func(w int) {
			defer wg.Done()
			r := newRng(seed, uint64(300+w))
			for i := w; i < n; i += workers {
				f := randFmt(r)
				f.CRI, f.CRF = false, false // number canonicalisation is decided by C12/C13
				calls := randCalls(r, 5+r.IntN(400), f.AD)
				if r.IntN(5) == 0 {
					calls = wideCalls(r)
				}
				rec := encCase{ID: i + 1, Prop: "C06", F: f, Writer: "writer", Outcomes: []int{}, Calls: calls}
				if mode == "c07" {
					rec.Prop = "C07"
					if r.IntN(4) == 0 {
						rec.Writer = "buffer"
					} else {
						for k := 0; k < 40; k++ {
							switch r.IntN(6) {
							case 0:
								rec.Outcomes = append(rec.Outcomes, 0)
							case 1:
								rec.Outcomes = append(rec.Outcomes, r.IntN(50))
							case 2:
								rec.Outcomes = append(rec.Outcomes, 1000+r.IntN(50)) // short, without an error
							default:
								rec.Outcomes = append(rec.Outcomes, -1)
							}
						}
					}
				} else if r.IntN(3) == 0 {
					rec.Writer = "buffer"
				}
				if p := argStr(args, "prop", ""); p != "" {
					rec.Prop = p
				}
				steps, del := encExec(rec.F, rec.Writer, rec.Outcomes, rec.Calls)
				rec.Calls = rec.Calls[:len(steps)]
				rec.Steps, rec.Delivered = steps, ints(del)
				for _, s := range steps {
					if s[8].(bool) {
						nfaults.Add(1)
					}
					if s[1].(string) == "syn" {
						nrej.Add(1)
					}
				}
				ncalls.Add(int64(len(steps)))
				out.put(rec)
			}
		}(w)
	}
	wg.Wait()
	summary(map[string]any{"cases": n, "calls": ncalls.Load(), "write_faults": nfaults.Load(), "rejected_calls": nrej.Load()})
	return nil
}

func init() { commands["drive-enc"] = driveEnc }

var _ = fmt.Sprint

// driveEncDeep: programs around the depth limit: the depth is reached by tokens, by one raw
// value, or split between both; innermost containers empty and non-empty, arrays and objects.
func driveEncDeep(out *sink, prop string, stride int) error {
	id, seq := 0, 0
	mk := func(k, b string) encCall { return encCall{Op: "tok", K: k, B: ints([]byte(b))} }
	rawv := func(b []byte) encCall { return encCall{Op: "val", K: "", B: ints(b)} }
	f := fmtOpts{Indent: []int{-1}, Prefix: []int{}, SAC: -1, SACM: -1}
	emit := func(calls []encCall) {
		seq++
		if (seq-1)%stride != 0 {
			return
		}
		id++
		rec := encCase{ID: id, Prop: prop, F: f, Writer: "buffer", Outcomes: []int{}, Calls: calls}
		steps, del := encExec(rec.F, rec.Writer, rec.Outcomes, rec.Calls)
		rec.Calls = rec.Calls[:len(steps)]
		rec.Steps, rec.Delivered = steps, ints(del)
		out.put(rec)
	}
	open := func(k int, object bool) []encCall {
		var c []encCall
		for i := 0; i < k; i++ {
			if object {
				c = append(c, mk("{", ""), mk("str", "a"))
			} else {
				c = append(c, mk("[", ""))
			}
		}
		return c
	}
	arr := func(i int) bool { return false }
	obj := func(i int) bool { return true }
	for _, d := range []int{10000, 10001} {
		for _, k := range []int{0, 1, 9999, 10000} { // k levels by tokens, d-k levels inside one raw value
			if d-k < 1 {
				continue
			}
			for _, object := range []bool{false, true} {
				inner := []func(int) bool{arr, obj, func(i int) bool { return i == d-k-1 }}
				for _, pat := range inner {
					calls := append(open(k, object), rawv(nested(d-k, pat, "")), mk("null", ""))
					emit(calls)
				}
				emit(append(open(k, object), rawv(nested(d-k, arr, "0"))))
			}
		}
		emit(append(open(d, false), mk("null", ""), mk("]", "")))
		emit(append(open(d, true), mk("null", ""), mk("}", "")))
	}
	summary(map[string]any{"cases": id, "calls": 0, "write_faults": 0, "rejected_calls": 1})
	return nil
}
