package main

import (
	"bytes"
	"fmt"
	"runtime"
	"sync/atomic"

	jsonv2 "github.com/go-json-experiment/json"
	"github.com/go-json-experiment/json/jsontext"
	jsonv1 "github.com/go-json-experiment/json/v1"
)

// every boolean option constructor of the three packages, by the key name used in Options.tla
var boolOpts = map[string]func(bool) jsonv2.Options{
	"AllowDuplicateNames":             func(v bool) jsonv2.Options { return jsontext.AllowDuplicateNames(v) },
	"AllowInvalidUTF8":                func(v bool) jsonv2.Options { return jsontext.AllowInvalidUTF8(v) },
	"EscapeForHTML":                   func(v bool) jsonv2.Options { return jsontext.EscapeForHTML(v) },
	"EscapeForJS":                     func(v bool) jsonv2.Options { return jsontext.EscapeForJS(v) },
	"PreserveRawStrings":              func(v bool) jsonv2.Options { return jsontext.PreserveRawStrings(v) },
	"CanonicalizeRawInts":             func(v bool) jsonv2.Options { return jsontext.CanonicalizeRawInts(v) },
	"CanonicalizeRawFloats":           func(v bool) jsonv2.Options { return jsontext.CanonicalizeRawFloats(v) },
	"ReorderRawObjects":               func(v bool) jsonv2.Options { return jsontext.ReorderRawObjects(v) },
	"Multiline":                       func(v bool) jsonv2.Options { return jsontext.Multiline(v) },
	"SpaceAfterColon":                 func(v bool) jsonv2.Options { return jsontext.SpaceAfterColon(v) },
	"SpaceAfterComma":                 func(v bool) jsonv2.Options { return jsontext.SpaceAfterComma(v) },
	"StringifyNumbers":                jsonv2.StringifyNumbers,
	"Deterministic":                   jsonv2.Deterministic,
	"FormatNilMapAsNull":              jsonv2.FormatNilMapAsNull,
	"FormatNilSliceAsNull":            jsonv2.FormatNilSliceAsNull,
	"OmitZeroStructFields":            jsonv2.OmitZeroStructFields,
	"MatchCaseInsensitiveNames":       jsonv2.MatchCaseInsensitiveNames,
	"RejectUnknownMembers":            jsonv2.RejectUnknownMembers,
	"CallMethodsWithLegacySemantics":  jsonv1.CallMethodsWithLegacySemantics,
	"FormatByteArrayAsArray":          jsonv1.FormatByteArrayAsArray,
	"FormatBytesWithLegacySemantics":  jsonv1.FormatBytesWithLegacySemantics,
	"FormatDurationAsNano":            jsonv1.FormatDurationAsNano,
	"MatchCaseSensitiveDelimiter":     jsonv1.MatchCaseSensitiveDelimiter,
	"MergeWithLegacySemantics":        jsonv1.MergeWithLegacySemantics,
	"OmitEmptyWithLegacySemantics":    jsonv1.OmitEmptyWithLegacySemantics,
	"ParseBytesWithLooseRFC4648":      jsonv1.ParseBytesWithLooseRFC4648,
	"ParseTimeWithLooseRFC3339":       jsonv1.ParseTimeWithLooseRFC3339,
	"ReportErrorsWithLegacySemantics": jsonv1.ReportErrorsWithLegacySemantics,
	"StringifyWithLegacySemantics":    jsonv1.StringifyWithLegacySemantics,
	"UnmarshalArrayFromAnyLength":     jsonv1.UnmarshalArrayFromAnyLength,
}

var theMarshalers = []*jsonv2.Marshalers{nil,
	jsonv2.JoinMarshalers(jsonv2.MarshalFunc(func(x complex64) ([]byte, error) { return []byte(`1`), nil })),
	jsonv2.JoinMarshalers(jsonv2.MarshalFunc(func(x complex128) ([]byte, error) { return []byte(`2`), nil }))}
var theUnmarshalers = []*jsonv2.Unmarshalers{nil,
	jsonv2.JoinUnmarshalers(jsonv2.UnmarshalFunc(func(b []byte, x *complex64) error { return nil })),
	jsonv2.JoinUnmarshalers(jsonv2.UnmarshalFunc(func(b []byte, x *complex128) error { return nil }))}

type setter struct {
	K     string   `json:"k"`
	Key   string   `json:"key"`
	V     bool     `json:"v"`
	S     string   `json:"s"`
	ID    int      `json:"id"`
	Items []setter `json:"items"`
}

func (s setter) option() jsonv2.Options {
	switch s.K {
	case "flag":
		return boolOpts[s.Key](s.V)
	case "indent":
		return jsontext.WithIndent(s.S)
	case "prefix":
		return jsontext.WithIndentPrefix(s.S)
	case "marshalers":
		return jsonv2.WithMarshalers(theMarshalers[s.ID])
	case "unmarshalers":
		return jsonv2.WithUnmarshalers(theUnmarshalers[s.ID])
	case "v1":
		return jsonv1.DefaultOptionsV1()
	case "v2":
		return jsonv2.DefaultOptionsV2()
	case "nil":
		return nil
	case "join":
		return jsonv2.JoinOptions(optionsOf(s.Items)...)
	}
	panic("setter " + s.K)
}

func optionsOf(items []setter) []jsonv2.Options {
	o := make([]jsonv2.Options, len(items))
	for i, s := range items {
		o[i] = s.option()
	}
	return o
}

// observeStore reads every key back with GetOption: value (or "unset") per key.
func observeStore(o jsonv2.Options) map[string]any {
	st := map[string]any{}
	for k, ctor := range boolOpts {
		v, ok := jsonv2.GetOption(o, ctor)
		if ok {
			st[k] = fmt.Sprint(v)
		} else {
			st[k] = "unset"
			if v {
				st[k] = "unset-but-true"
			}
		}
	}
	if v, ok := jsonv2.GetOption(o, jsontext.WithIndent); ok {
		st["Indent"] = "s:" + v
	} else {
		st["Indent"] = "unset"
	}
	if v, ok := jsonv2.GetOption(o, jsontext.WithIndentPrefix); ok {
		st["IndentPrefix"] = "s:" + v
	} else {
		st["IndentPrefix"] = "unset"
	}
	st["Marshalers"], st["Unmarshalers"] = "unset", "unset"
	if v, ok := jsonv2.GetOption(o, jsonv2.WithMarshalers); ok {
		st["Marshalers"] = "id:?"
		for i, m := range theMarshalers {
			if m == v {
				st["Marshalers"] = fmt.Sprintf("id:%d", i)
			}
		}
	}
	if v, ok := jsonv2.GetOption(o, jsonv2.WithUnmarshalers); ok {
		st["Unmarshalers"] = "id:?"
		for i, m := range theUnmarshalers {
			if m == v {
				st["Unmarshalers"] = fmt.Sprintf("id:%d", i)
			}
		}
	}
	return st
}

func groupings(items []setter) map[string]jsonv2.Options {
	join := func(it []setter) setter { return setter{K: "join", Items: it} }
	g := map[string]jsonv2.Options{"flat": jsonv2.JoinOptions(optionsOf(items)...), "one": join([]setter{join(items)}).option()}
	var left func(it []setter) []setter
	left = func(it []setter) []setter {
		if len(it) <= 1 {
			return it
		}
		return []setter{join(append(append([]setter{}, left(it[:len(it)-1])...), it[len(it)-1]))}
	}
	var right func(it []setter) []setter
	right = func(it []setter) []setter {
		if len(it) <= 1 {
			return it
		}
		return []setter{join(append([]setter{it[0]}, right(it[1:])...))}
	}
	g["left"] = jsonv2.JoinOptions(optionsOf(left(items))...)
	g["right"] = jsonv2.JoinOptions(optionsOf(right(items))...)
	var pairs []setter
	for i := 0; i < len(items); i += 2 {
		pairs = append(pairs, join(items[i:min(i+2, len(items))]))
	}
	g["pairs"] = jsonv2.JoinOptions(optionsOf(pairs)...)
	// through a coder: the options an Encoder / Decoder reports
	g["encoder"] = jsontext.NewEncoder(new(bytes.Buffer), toCoder(optionsOf(items))...).Options()
	g["decoder"] = jsontext.NewDecoder(new(bytes.Buffer), toCoder(optionsOf(items))...).Options()
	return g
}

func toCoder(o []jsonv2.Options) []jsontext.Options {
	r := make([]jsontext.Options, len(o))
	for i, x := range o {
		r[i] = x
	}
	return r
}

// replay-opt cases=<TLC out> out=<mismatches>: [items, [[key, value]...]]
func replayOpt(args map[string]string) error {
	out, err := newMismatchSink(argStr(args, "out", "/dev/null"))
	if err != nil {
		return err
	}
	defer out.close()
	var cases, evals atomic.Int64
	err = parallelLines(args["cases"], runtime.NumCPU(), func(line []byte) {
		var rec []jsontext.Value
		if err := jsonv2.Unmarshal(line, &rec); err != nil || len(rec) != 2 {
			return
		}
		var items []setter
		var want [][]any
		if err := jsonv2.Unmarshal(rec[0], &items); err != nil {
			panic(fmt.Sprintf("%s: %v", rec[0], err))
		}
		jsonv2.Unmarshal(rec[1], &want)
		cases.Add(1)
		var raw any
		jsonv2.Unmarshal(line, &raw)
		defer func() {
			if r := recover(); r != nil {
				out.put(map[string]any{"prop": "C20", "family": "opt", "case": raw, "why": "panic", "detail": fmt.Sprint(r)})
			}
		}()
		for name, o := range groupings(items) {
			evals.Add(1)
			got := observeStore(o)
			for _, kv := range want {
				k := kv[0].(string)
				w := kv[1]
				g := got[k]
				if name == "encoder" && multilineImplied(k, got) { // an Encoder created with Multiline fills in the implied defaults
					continue
				}
				if g != w {
					out.put(map[string]any{"prop": "C19", "family": "opt", "case": raw, "grouping": name, "key": k, "got": g, "want": w})
					return
				}
			}
		}
	})
	if err != nil {
		return err
	}
	summary(map[string]any{"cases": cases.Load(), "evaluations": evals.Load(), "mismatches": out.n})
	return nil
}

// an Encoder whose options include Multiline(true) initialises SpaceAfterColon, SpaceAfterComma
// and Indent when they are unset (documented: Multiline implies them)
func multilineImplied(k string, got map[string]any) bool {
	return got["Multiline"] == "true" && (k == "SpaceAfterColon" || k == "SpaceAfterComma" || k == "Indent")
}

func init() { commands["replay-opt"] = replayOpt }
