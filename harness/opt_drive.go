package main

import (
	"bytes"
	"fmt"
	"math/rand/v2"
	"reflect"
	"sort"
	"strings"
	"time"

	jsonv2 "github.com/go-json-experiment/json"
	"github.com/go-json-experiment/json/jsontext"
	jsonv1 "github.com/go-json-experiment/json/v1"
)

type optCase struct {
	ID      int      `json:"id"`
	Prop    string   `json:"prop"`
	Kind    string   `json:"kind"`
	Op      string   `json:"op"`
	ProbeID int      `json:"probeid"`
	Seq     []setter `json:"seq"`
	Extra   []setter `json:"extra"`
	A       []setter `json:"a"`
	B       []setter `json:"b"`
	Coder   string   `json:"coder"`
	Mode    string   `json:"mode"` // scoped: ok | err | panic
	Probe   bool     `json:"probe"`
	Results [][]any  `json:"results"`
	Before  [][]any  `json:"before"`
	After   [][]any  `json:"after"`
	Outcome string   `json:"outcome"`
	Out     []int    `json:"out"`
	Panic   string   `json:"panic"`
}

type probeStruct struct {
	N int
	S []int
	M map[string]int
}

type richProbe struct {
	D    time.Duration
	Arr  [2]byte
	B    []byte
	H    string
	Bad  string
	Nil  []string
	NilM map[string]string
	P    *int `json:",omitempty"`
	Z    int  `json:",omitzero"`
	Name int  `json:"name"`
	Q    int  `json:",string"`
	F    float64
}

// lateEmpty: members that are empty only once marshaled - whether they are omitted is decided
// after the fact, by an option that may be present with either value.  (Marshals under any
// option list, unlike richProbe whose duration needs a format.)
type lateEmpty struct {
	A  int
	E  struct{}         `json:",omitempty"`
	PE *struct{}        `json:",omitempty"`
	IE any              `json:",omitempty"`
	NM *nullWhenEncoded `json:",omitempty"`
	S  []int            `json:",omitempty"`
	Z  int
}

type nullWhenEncoded struct{}

func (*nullWhenEncoded) MarshalJSON() ([]byte, error) { return []byte("null"), nil }

type panicky struct{}

func (panicky) MarshalJSON() ([]byte, error)  { panic("user marshaler panics") }
func (*panicky) UnmarshalJSON(b []byte) error { panic("user unmarshaler panics") }

func marshalProbes() []any {
	five := 5
	return []any{
		probeStruct{N: 5},
		richProbe{D: 1500 * time.Millisecond, Arr: [2]byte{1, 2}, B: []byte("hi"), H: "<a>& ", Bad: "a\xffb", P: &five, Q: 7, F: 1.5},
		map[string]any{"a": []any{nil, "x <", map[string]any{"z": 1.5}}}, // one key per map: no ordering freedom
		[]any{1.0, "s", nil, true, map[string]any{}},
		lateEmpty{A: 1, PE: new(struct{}), IE: map[string]int{}, NM: new(nullWhenEncoded), Z: 2},
	}
}

type target struct {
	N    int
	Name string `json:"name"`
	Arr  [2]int
	B    []byte
	T    time.Time
	X    map[string]any
}

var unmarshalTexts = []string{
	`{"n":5,"N":6,"NAME":"x","name":"y","unknown":true}`,
	`{"Arr":[1,2,3],"B":"aGk"}`,
	`{"Arr":[1],"N":null,"X":{"a":1,"a":2}}`,
	`{"N":"7","T":"2000-01-01T00:00:00Z"}`,
	`{"X":{"k":"\ud800"},"B":"aGk="}`,
	`[1,2]`,
	// what only the lenient v1 parsers accept
	`{"T":"2000-01-01T1:02:03Z"}`,
	`{"T":"2000-01-01T01:02:03,5Z"}`,
	`{"T":"2000-01-01T01:02:03+24:00"}`,
	`{"B":"aGk=\n"}`,
	`{"B":"aG k="}`,
	`{"N":"12"}`,
	`{"name":null,"Arr":[]}`,
}

func result(b []byte, err error) []any { return []any{err == nil, ints(b)} }

func runOp(op string, probe int, opts []jsonv2.Options) (res []any) {
	defer func() {
		if r := recover(); r != nil {
			res = []any{false, ints([]byte("PANIC " + fmt.Sprint(r)))}
		}
	}()
	switch op {
	case "marshal":
		return result(jsonv2.Marshal(marshalProbes()[probe%len(marshalProbes())], opts...))
	case "unmarshal":
		var t target
		err := jsonv2.Unmarshal([]byte(unmarshalTexts[probe%len(unmarshalTexts)]), &t, opts...)
		keys := make([]string, 0, len(t.X))
		for k := range t.X {
			keys = append(keys, k)
		}
		sort.Strings(keys)
		return result([]byte(fmt.Sprintf("%d|%q|%v|%q|%v|%v|%v", t.N, t.Name, t.Arr, t.B, t.T.UTC(), keys, t.X)), err)
	case "decode":
		d := jsontext.NewDecoder(bytes.NewReader([]byte(unmarshalTexts[probe%len(unmarshalTexts)])), toCoder(opts)...)
		var sb bytes.Buffer
		for {
			tok, err := d.ReadToken()
			if err != nil {
				fmt.Fprintf(&sb, "|%v", err != nil)
				return []any{true, ints(sb.Bytes())}
			}
			fmt.Fprintf(&sb, "%s,", tok.String())
		}
	case "encode":
		var buf bytes.Buffer
		e := jsontext.NewEncoder(&buf, toCoder(opts)...)
		err := e.WriteValue(jsontext.Value(unmarshalTexts[probe%len(unmarshalTexts)]))
		return result(buf.Bytes(), err)
	}
	panic(op)
}

func storeList(o jsonv2.Options) [][]any {
	st := observeStore(o)
	keys := make([]string, 0, len(st))
	for k := range st {
		keys = append(keys, k)
	}
	sort.Strings(keys)
	out := make([][]any, 0, len(keys))
	for _, k := range keys {
		out = append(out, []any{k, st[k]})
	}
	return out
}

var irrelevantKeys = map[string][]string{
	"marshal":   {"RejectUnknownMembers", "Unmarshalers", "MergeWithLegacySemantics", "ParseBytesWithLooseRFC4648", "ParseTimeWithLooseRFC3339", "UnmarshalArrayFromAnyLength"},
	"unmarshal": {"PreserveRawStrings", "CanonicalizeRawInts", "CanonicalizeRawFloats", "ReorderRawObjects", "EscapeForHTML", "EscapeForJS", "Multiline", "SpaceAfterColon", "SpaceAfterComma", "Indent", "IndentPrefix", "Deterministic", "FormatNilMapAsNull", "FormatNilSliceAsNull", "OmitZeroStructFields", "Marshalers", "OmitEmptyWithLegacySemantics"},
	"decode":    {"PreserveRawStrings", "CanonicalizeRawInts", "EscapeForHTML", "Multiline", "SpaceAfterColon", "Indent", "Deterministic", "StringifyNumbers", "RejectUnknownMembers", "MatchCaseInsensitiveNames", "MergeWithLegacySemantics", "Marshalers", "Unmarshalers", "ReportErrorsWithLegacySemantics"},
	"encode":    {"Deterministic", "FormatNilMapAsNull", "FormatNilSliceAsNull", "OmitZeroStructFields", "Marshalers", "OmitEmptyWithLegacySemantics", "RejectUnknownMembers", "Unmarshalers", "MergeWithLegacySemantics", "UnmarshalArrayFromAnyLength"},
}

func allSetters() []setter {
	var s []setter
	keys := make([]string, 0, len(boolOpts))
	for k := range boolOpts {
		keys = append(keys, k)
	}
	sort.Strings(keys)
	for _, k := range keys {
		s = append(s, setter{K: "flag", Key: k, V: true, Items: []setter{}}, setter{K: "flag", Key: k, V: false, Items: []setter{}})
	}
	for _, x := range []setter{{K: "indent", S: "  "}, {K: "indent", S: ""}, {K: "prefix", S: " "}, {K: "marshalers", ID: 1}, {K: "marshalers", ID: 0},
		{K: "unmarshalers", ID: 1}, {K: "v1"}, {K: "v2"}, {K: "nil"}} {
		x.Items = []setter{}
		s = append(s, x)
	}
	return s
}

func setterForKey(r *rand.Rand, key string) setter {
	s := setter{Items: []setter{}}
	switch key {
	case "Indent":
		s.K, s.S = "indent", []string{"", " ", "\t"}[r.IntN(3)]
	case "IndentPrefix":
		s.K, s.S = "prefix", []string{"", " "}[r.IntN(2)]
	case "Marshalers":
		s.K, s.ID = "marshalers", r.IntN(3)
	case "Unmarshalers":
		s.K, s.ID = "unmarshalers", r.IntN(3)
	default:
		s.K, s.Key, s.V = "flag", key, r.IntN(2) == 0
	}
	return s
}

func optExec(c *optCase) {
	defer func() {
		if r := recover(); r != nil {
			c.Panic = fmt.Sprint(r)
		}
		for _, res := range c.Results { // a panic inside the library is never an acceptable result
			if b, ok := res[1].([]int); ok && strings.HasPrefix(string(bytesOf(b)), "PANIC ") {
				c.Panic = string(bytesOf(b))
			}
		}
	}()
	c.Results, c.Before, c.After, c.Out = [][]any{}, [][]any{}, [][]any{}, []int{}
	join := func(it []setter) setter { return setter{K: "join", Items: it} }
	switch c.Kind {
	case "shapes":
		c.Results = append(c.Results, runOp(c.Op, c.ProbeID, optionsOf(c.Seq)))
		c.Results = append(c.Results, runOp(c.Op, c.ProbeID, []jsonv2.Options{jsonv2.JoinOptions(optionsOf(c.Seq)...)}))
		if len(c.Seq) >= 2 {
			c.Results = append(c.Results, runOp(c.Op, c.ProbeID, optionsOf([]setter{join(c.Seq[:1]), join(c.Seq[1:])})))
			c.Results = append(c.Results, runOp(c.Op, c.ProbeID, optionsOf([]setter{join([]setter{join(c.Seq[:len(c.Seq)-1]), c.Seq[len(c.Seq)-1]})})))
		}
	case "irrelevant":
		c.Results = append(c.Results, runOp(c.Op, c.ProbeID, optionsOf(c.Seq)))
		c.Results = append(c.Results, runOp(c.Op, c.ProbeID, optionsOf(append(append([]setter{}, c.Seq...), c.Extra...))))
		c.Results = append(c.Results, runOp(c.Op, c.ProbeID, optionsOf(append(append([]setter{}, c.Extra...), c.Seq...))))
	case "v1eq":
		switch c.Op {
		case "marshal":
			v := marshalProbes()[c.ProbeID%len(marshalProbes())]
			c.Results = append(c.Results, result(jsonv1.Marshal(v)), result(jsonv2.Marshal(v, jsonv1.DefaultOptionsV1())))
		case "unmarshal":
			text := []byte(unmarshalTexts[c.ProbeID%len(unmarshalTexts)])
			var t1, t2 target
			e1 := jsonv1.Unmarshal(text, &t1)
			e2 := jsonv2.Unmarshal(text, &t2, jsonv1.DefaultOptionsV1())
			c.Results = append(c.Results, []any{e1 == nil, ints([]byte(fmt.Sprintf("%v", t1)))}, []any{e2 == nil, ints([]byte(fmt.Sprintf("%v", t2)))})
		case "cancel":
			c.Results = append(c.Results, runOp("marshal", c.ProbeID, nil), runOp("marshal", c.ProbeID, optionsOf(append(append([]setter{}, c.Seq...), setter{K: "v2"}))))
			// the same for unmarshaling: with every v1 option cancelled the result is that of no options
			if a, b := runOp("unmarshal", c.ProbeID, nil), runOp("unmarshal", c.ProbeID, optionsOf(append(append([]setter{}, c.Seq...), setter{K: "v2"}))); !reflect.DeepEqual(a, b) {
				c.Results = [][]any{a, b}
			}
		}
	case "scoped":
		if c.Coder == "encoder" {
			var buf bytes.Buffer
			e := jsontext.NewEncoder(&buf, toCoder(optionsOf(c.A))...)
			c.Before = storeList(e.Options())
			var v any = probeStruct{N: 5}
			switch c.Mode {
			case "err":
				v = make(chan int)
			case "err-field", "err-embedded":
				v = struct {
					N int      `json:",string"`
					C chan int `json:",string"`
				}{N: 5}
			case "panic":
				v = panicky{}
			}
			func() {
				defer func() {
					if r := recover(); r != nil {
						c.Outcome = "panic"
					}
				}()
				if err := jsonv2.MarshalEncode(e, v, optionsOf(c.B)...); err != nil {
					c.Outcome = "err"
				} else {
					c.Outcome = "ok"
				}
			}()
			c.After = storeList(e.Options())
			c.Out = ints(bytes.TrimSuffix(buf.Bytes(), []byte("\n")))
		} else {
			text := `{"N":5,"S":null,"M":null}`
			d := jsontext.NewDecoder(bytes.NewReader([]byte(text)), toCoder(optionsOf(c.A))...)
			c.Before = storeList(d.Options())
			var tgt any = new(probeStruct)
			switch c.Mode {
			case "err":
				tgt = new(chan int)
			case "err-field": // the error arises below a field whose tag options are in force
				tgt = new(struct {
					A int
					N int `json:",string"`
					S int
				})
			case "err-embedded": // ... or before the field's value is even looked at
				tgt = new(awkOuterStr)
			case "panic":
				tgt = new(panicky)
			}
			func() {
				defer func() {
					if r := recover(); r != nil {
						c.Outcome = "panic"
					}
				}()
				if err := jsonv2.UnmarshalDecode(d, tgt, optionsOf(c.B)...); err != nil {
					c.Outcome = "err"
				} else {
					c.Outcome = "ok"
				}
			}()
			c.After = storeList(d.Options())
			c.Probe = false
		}
	}
}

// drive-opt seed=N n=N out=<ndjson> [redo=<records>]
func driveOpt(args map[string]string) error {
	out, err := newSink(args["out"])
	if err != nil {
		return err
	}
	defer out.close()
	if redo := args["redo"]; redo != "" {
		err := tlcLines(redo, func(line []byte) {
			var c optCase
			if err := jsonv2.Unmarshal(line, &c); err != nil {
				panic(err)
			}
			optExec(&c)
			out.put(c)
		})
		summary(map[string]any{"cases": out.n})
		return err
	}
	seed, n := uint64(argInt(args, "seed", 1)), argInt(args, "n", 1000)
	r := newRng(seed, 1700)
	all := allSetters()
	seq := func(max int) []setter {
		k := 1 + r.IntN(max)
		s := make([]setter, k)
		for i := range s {
			s[i] = all[r.IntN(len(all))]
		}
		return s
	}
	arshalOnly := []string{"StringifyNumbers", "FormatNilSliceAsNull", "FormatNilMapAsNull", "Deterministic", "OmitZeroStructFields", "RejectUnknownMembers"}
	for i := 0; i < n; i++ {
		c := optCase{ID: i + 1, Prop: "C19", Seq: []setter{}, Extra: []setter{}, A: []setter{}, B: []setter{}, ProbeID: r.IntN(12)}
		switch i % 4 {
		case 0:
			c.Kind, c.Op, c.Seq = "shapes", []string{"marshal", "unmarshal", "encode", "decode"}[r.IntN(4)], seq(4)
		case 1:
			c.Kind, c.Op, c.Seq = "irrelevant", []string{"marshal", "unmarshal", "encode", "decode"}[r.IntN(4)], seq(3)
			keys := irrelevantKeys[c.Op]
			for k := 0; k < 1+r.IntN(3); k++ {
				c.Extra = append(c.Extra, setterForKey(r, keys[r.IntN(len(keys))]))
			}
		case 2:
			c.Kind, c.Coder, c.Mode = "scoped", []string{"encoder", "decoder"}[r.IntN(2)], []string{"ok", "ok", "err", "panic", "err-field", "err-embedded"}[r.IntN(6)]
			if r.IntN(2) == 0 { // probe: only arshal options, so that the output is what ProbeOut models
				c.Probe = c.Coder == "encoder" && c.Mode == "ok"
				for k := 0; k < r.IntN(3); k++ {
					c.A = append(c.A, setterForKey(r, arshalOnly[r.IntN(len(arshalOnly))]))
				}
				for k := 0; k < 1+r.IntN(3); k++ {
					c.B = append(c.B, setterForKey(r, arshalOnly[r.IntN(len(arshalOnly))]))
				}
			} else {
				c.A, c.B = seq(3), seq(3)
			}
			if r.IntN(3) == 0 { // a call without options of its own works on the coder's options directly
				c.B = []setter{}
			}
		default:
			c.Kind, c.Op = "v1eq", []string{"marshal", "unmarshal", "cancel"}[r.IntN(3)]
			if c.Op == "cancel" {
				c.Seq = []setter{{K: "v1", Items: []setter{}}}
				for k := 0; k < r.IntN(3); k++ { // plus individual v1 options, all cancelled by DefaultOptionsV2
					c.Seq = append(c.Seq, setterForKey(r, []string{"MergeWithLegacySemantics", "FormatNilSliceAsNull", "Deterministic", "OmitEmptyWithLegacySemantics", "FormatDurationAsNano", "EscapeForHTML", "AllowInvalidUTF8"}[r.IntN(7)]))
				}
			}
		}
		optExec(&c)
		out.put(c)
	}
	summary(map[string]any{"cases": n})
	return nil
}

func init() { commands["drive-opt"] = driveOpt }

type awkHiddenStr struct {
	N int `json:",string"`
}
type awkOuterStr struct {
	*awkHiddenStr
	A int
}
