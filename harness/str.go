package main

import (
	"bytes"
	"fmt"
	"reflect"
	"runtime"
	"strconv"
	"strings"
	"sync/atomic"
	"unicode/utf8"

	jsonv2 "github.com/go-json-experiment/json"
	"github.com/go-json-experiment/json/jsontext"
)

// textVal marshals as the bytes it holds (TextMarshaler / TextAppender paths).
type textVal struct{ b []byte }

func (t textVal) MarshalText() ([]byte, error) { return t.b, nil }

type textApp struct{ b []byte }

func (t textApp) AppendText(dst []byte) ([]byte, error) { return append(dst, t.b...), nil }

type jsonVal struct{ lit []byte }

func (j jsonVal) MarshalJSON() ([]byte, error) { return j.lit, nil }

func escOpts(i int, ai bool) []jsonv2.Options {
	o := []jsonv2.Options{}
	if i == 1 || i == 3 {
		o = append(o, jsontext.EscapeForHTML(true))
	}
	if i == 2 || i == 3 {
		o = append(o, jsontext.EscapeForJS(true))
	}
	if ai {
		o = append(o, jsontext.AllowInvalidUTF8(true))
	}
	return o
}

// tagName returns the struct tag spelling of a member name: names are written verbatim in the
// `json` tag; comma, backslash and the three quote characters are reserved.
func tagName(name string) (string, bool) {
	if !utf8.ValidString(name) || name == "" || name == "-" || strings.ContainsAny(name, ",\\'\"`") {
		return "", false
	}
	return name, true
}

// stringPaths returns, per path name, the literal the library produced for the Go string s
// under escape set i (0..3) and AllowInvalidUTF8 ai; err reports failure.
type pathResult struct {
	lit []byte
	err bool
}

func allEscaped(s []byte) []byte { // every code point spelled \uXXXX (valid strings only)
	var sb strings.Builder
	sb.WriteByte('"')
	for _, r := range string(s) {
		if r >= 0x10000 {
			r -= 0x10000
			fmt.Fprintf(&sb, `\u%04x\u%04X`, 0xd800+(r>>10), 0xdc00+(r&0x3ff))
		} else {
			fmt.Fprintf(&sb, `\u%04X`, r)
		}
	}
	sb.WriteByte('"')
	return []byte(sb.String())
}

func stringPaths(s []byte, i int, ai bool) map[string]pathResult {
	res := map[string]pathResult{}
	opts := escOpts(i, ai)
	topts := make([]jsontext.Options, len(opts))
	for k, o := range opts {
		topts[k] = o
	}
	cut := func(b []byte, pre, suf string) []byte {
		return bytes.TrimSuffix(bytes.TrimPrefix(bytes.TrimSuffix(b, []byte("\n")), []byte(pre)), []byte(suf))
	}
	if i == 0 && !ai {
		b, err := jsontext.AppendQuote(nil, s)
		res["quote"] = pathResult{b, err != nil}
	}
	{
		var buf bytes.Buffer
		e := jsontext.NewEncoder(&buf, topts...)
		err := e.WriteToken(jsontext.String(string(s)))
		res["token"] = pathResult{cut(buf.Bytes(), "", ""), err != nil}
	}
	{
		var buf bytes.Buffer
		e := jsontext.NewEncoder(&buf, topts...)
		err := e.WriteToken(jsontext.BeginObject)
		if err == nil {
			err = e.WriteToken(jsontext.String(string(s)))
		}
		if err == nil {
			e.WriteToken(jsontext.Null)
			e.WriteToken(jsontext.EndObject)
		}
		res["tokenname"] = pathResult{cut(buf.Bytes(), "{", ":null}"), err != nil}
	}
	b, err := jsonv2.Marshal(string(s), opts...)
	res["marshal"] = pathResult{b, err != nil}
	b, err = jsonv2.Marshal(map[string]int{string(s): 0}, opts...)
	res["mapkey"] = pathResult{cut(b, "{", ":0}"), err != nil}
	b, err = jsonv2.Marshal(textVal{s}, opts...)
	res["text"] = pathResult{b, err != nil}
	b, err = jsonv2.Marshal(textApp{s}, opts...)
	res["textappend"] = pathResult{b, err != nil}
	{
		m := reflect.MakeMap(reflect.TypeOf(map[textKey]int{}))
		m.SetMapIndex(reflect.ValueOf(textKey(s)), reflect.ValueOf(0))
		b, err = jsonv2.Marshal(m.Interface(), opts...)
		res["textkey"] = pathResult{cut(b, "{", ":0}"), err != nil}
	}
	if tn, ok := tagName(string(s)); ok {
		func() {
			defer func() { recover() }() // reflect.StructOf refuses some tags
			t := reflect.StructOf([]reflect.StructField{{Name: "F", Type: reflect.TypeOf(0), Tag: reflect.StructTag(`json:` + strconv.Quote(tn))}})
			b, err := jsonv2.Marshal(reflect.New(t).Elem().Interface(), opts...)
			if err == nil {
				res["field"] = pathResult{cut(b, "{", ":0}"), false}
			}
		}()
	}
	if utf8.Valid(s) {
		// raw literals passed through: WriteValue and a user MarshalJSON, in two spellings
		canon, _ := jsontext.AppendQuote(nil, s) // the minimal spelling, raw characters included
		for name, lit := range map[string][]byte{"rawesc": allEscaped(s), "rawcanon": canon} {
			var buf bytes.Buffer
			e := jsontext.NewEncoder(&buf, topts...)
			err := e.WriteValue(jsontext.Value(lit))
			res[name] = pathResult{cut(buf.Bytes(), "", ""), err != nil}
			b, err := jsonv2.Marshal(jsonVal{lit}, opts...)
			res[name+"-marshaler"] = pathResult{b, err != nil}
		}
	}
	return res
}

type textKey string

func (t textKey) MarshalText() ([]byte, error) { return []byte(t), nil }

// replay-str cases=<TLC out> out=<mismatches>: cases are [bytes, bad, [4 literals], cps]
func replayStr(args map[string]string) error {
	out, err := newMismatchSink(argStr(args, "out", "/dev/null"))
	if err != nil {
		return err
	}
	defer out.close()
	var cases, evals atomic.Int64
	err = parallelLines(args["cases"], runtime.NumCPU(), func(line []byte) {
		var rec []any
		if err := jsonv2.Unmarshal(line, &rec); err != nil || len(rec) != 4 {
			return
		}
		s := bytesOf(toInts(rec[0]))
		bad := rec[1].(bool)
		lits := toIntss(rec[2])
		cps := toInts(rec[3])
		cases.Add(1)
		report := func(path string, i int, ai bool, why string, got []byte) {
			out.put(map[string]any{"prop": "C11", "family": "str", "case": rec, "path": path, "esc": i, "ai": ai, "why": why,
				"s": fmt.Sprintf("%q", s), "got": fmt.Sprintf("%q", got), "want": fmt.Sprintf("%q", bytesOf(lits[i]))})
		}
		func() {
			defer func() {
				if r := recover(); r != nil {
					out.put(map[string]any{"prop": "C20", "family": "str", "case": rec, "why": "panic", "detail": fmt.Sprint(r)})
				}
			}()
			for i := 0; i < 4; i++ {
				for _, ai := range []bool{false, true} {
					for path, r := range stringPaths(s, i, ai) {
						evals.Add(1)
						wantErr := bad && !ai
						switch {
						case r.err != wantErr:
							report(path, i, ai, "error", r.lit)
						case !r.err && !bytes.Equal(r.lit, bytesOf(lits[i])):
							report(path, i, ai, "literal", r.lit)
						}
					}
				}
			}
			// unquoting the literal gives back the code points (as UTF-8)
			for i := 0; i < 4; i++ {
				got, err := jsontext.AppendUnquote(nil, bytesOf(lits[i]))
				evals.Add(1)
				if err != nil || !sameInts(runesOf(string(got)), cps) {
					report("unquote", i, false, "unquote", got)
				}
			}
		}()
	})
	if err != nil {
		return err
	}
	summary(map[string]any{"cases": cases.Load(), "evaluations": evals.Load(), "mismatches": out.n})
	return nil
}

func init() { commands["replay-str"] = replayStr }

type strCase struct {
	ID    int     `json:"id"`
	Prop  string  `json:"prop"`
	S     []int   `json:"s"`
	HTML  bool    `json:"html"`
	JS    bool    `json:"js"`
	AI    bool    `json:"ai"`
	Res   [][]any `json:"res"`
	Unq   []int   `json:"unq"`
	Panic string  `json:"panic"`
}

func strExec(c *strCase) {
	defer func() {
		if r := recover(); r != nil {
			c.Panic = fmt.Sprint(r)
		}
	}()
	i := 0
	if c.HTML {
		i |= 1
	}
	if c.JS {
		i |= 2
	}
	s := bytesOf(c.S)
	c.Res = [][]any{}
	for path, r := range stringPaths(s, i, c.AI) {
		lit := r.lit
		if r.err {
			lit = nil
		}
		c.Res = append(c.Res, []any{path, r.err, ints(lit)})
	}
	// unquote what the library itself produced for the plain token path (when it succeeded)
	c.Unq = runesOf(string(s))
	if r, ok := stringPaths(s, i, true)["token"]; ok && !r.err {
		got, _ := jsontext.AppendUnquote(nil, r.lit)
		c.Unq = runesOf(string(got))
	}
}

// drive-str seed=N n=N out=<ndjson> [redo=<records>]
func driveStr(args map[string]string) error {
	out, err := newSink(args["out"])
	if err != nil {
		return err
	}
	defer out.close()
	if redo := args["redo"]; redo != "" {
		err := tlcLines(redo, func(line []byte) {
			var c strCase
			if err := jsonv2.Unmarshal(line, &c); err != nil {
				panic(err)
			}
			strExec(&c)
			out.put(c)
		})
		summary(map[string]any{"cases": out.n})
		return err
	}
	seed, n := uint64(argInt(args, "seed", 1)), argInt(args, "n", 1000)
	r := newRng(seed, 900)
	cfg := &genCfg{maxStr: 60, unicode: true}
	for i := 0; i < n; i++ {
		var s []byte
		switch r.IntN(6) {
		case 0: // every single byte and byte pair region
			s = []byte{byte(r.IntN(256))}
			if r.IntN(2) == 0 {
				s = append(s, byte(r.IntN(256)))
			}
		case 1: // random bytes
			s = make([]byte, r.IntN(12))
			for k := range s {
				s[k] = byte(r.IntN(256))
			}
		default:
			s = []byte(string(genRunes(r, cfg)))
			if r.IntN(4) == 0 && len(s) > 0 { // damage it
				s = mutateBytes(r, s)
			}
		}
		c := strCase{ID: i + 1, Prop: "C11", S: ints(s), HTML: r.IntN(2) == 0, JS: r.IntN(2) == 0, AI: r.IntN(2) == 0}
		strExec(&c)
		out.put(c)
	}
	summary(map[string]any{"cases": n})
	return nil
}

func mutateBytes(r interface{ IntN(int) int }, s []byte) []byte {
	s = append([]byte(nil), s...)
	p := r.IntN(len(s))
	switch r.IntN(3) {
	case 0:
		s[p] = byte(0x80 + r.IntN(0x80))
	case 1:
		s = append(s[:p], s[min(len(s), p+1):]...)
	default:
		s = append(s[:p], append([]byte{byte(0xc0 + r.IntN(0x40))}, s[p:]...)...)
	}
	return s
}

func init() { commands["drive-str"] = driveStr }

// replay-unq cases=<TLC out> out=<mismatches>: cases are [literal, validStrict, cps]
func replayUnq(args map[string]string) error {
	out, err := newMismatchSink(argStr(args, "out", "/dev/null"))
	if err != nil {
		return err
	}
	defer out.close()
	var cases, evals atomic.Int64
	err = parallelLines(args["cases"], runtime.NumCPU(), func(line []byte) {
		var rec []any
		if err := jsonv2.Unmarshal(line, &rec); err != nil || len(rec) != 3 {
			return
		}
		lit := bytesOf(toInts(rec[0]))
		strict := rec[1].(bool)
		cps := toInts(rec[2])
		cases.Add(1)
		bad := func(path, why string, got any) {
			out.put(map[string]any{"prop": "C11", "family": "unq", "case": rec, "path": path, "why": why, "lit": fmt.Sprintf("%q", lit), "got": got})
		}
		defer func() {
			if r := recover(); r != nil {
				out.put(map[string]any{"prop": "C20", "family": "unq", "case": rec, "why": "panic", "detail": fmt.Sprint(r)})
			}
		}()
		evals.Add(4)
		got, err := jsontext.AppendUnquote(nil, lit)
		if (err == nil) != strict {
			bad("AppendUnquote", "error", err == nil)
		}
		if !sameInts(runesOf(string(got)), cps) {
			bad("AppendUnquote", "meaning", runesOf(string(got)))
		}
		for _, ai := range []bool{false, true} {
			d := jsontext.NewDecoder(bytes.NewReader(lit), jsontext.AllowInvalidUTF8(ai))
			tok, err := d.ReadToken()
			if (err == nil) != (strict || ai) {
				bad("ReadToken", "error", err == nil)
			} else if err == nil && !sameInts(runesOf(tok.String()), cps) {
				bad("ReadToken", "meaning", runesOf(tok.String()))
			}
		}
		var sv string
		if err := jsonv2.Unmarshal(lit, &sv); (err == nil) != strict {
			bad("Unmarshal", "error", err == nil)
		} else if err == nil && !sameInts(runesOf(sv), cps) {
			bad("Unmarshal", "meaning", runesOf(sv))
		}
		// the same literal continued by a long plain tail, so that it spans refills of a streaming
		// decoder's buffer: as a value and as a member name, over readers of several chunk sizes
		if strict && len(lit) >= 2 {
			tail := strings.Repeat("z", 70)
			long := append(append(append([]byte{}, lit[:len(lit)-1]...), tail...), '"')
			want := append(append([]int{}, cps...), runesOf(tail)...)
			for _, chunk := range []int{1, 7, 64} {
				evals.Add(2)
				var lv string
				if err := jsonv2.UnmarshalRead(&scriptedReader{data: long, chunks: []int{chunk}}, &lv); err != nil || !sameInts(runesOf(lv), want) {
					bad(fmt.Sprintf("UnmarshalRead-long-%d", chunk), "meaning", runesOf(lv))
				}
				mv := map[string]int{}
				obj := append(append([]byte("{"), long...), ":0}"...)
				if err := jsonv2.UnmarshalRead(&scriptedReader{data: obj, chunks: []int{chunk}}, &mv); err != nil || len(mv) != 1 {
					bad(fmt.Sprintf("UnmarshalRead-long-name-%d", chunk), "error", fmt.Sprint(err))
				} else {
					for k := range mv {
						if !sameInts(runesOf(k), want) {
							bad(fmt.Sprintf("UnmarshalRead-long-name-%d", chunk), "meaning", runesOf(k))
						}
					}
				}
			}
		}
	})
	if err != nil {
		return err
	}
	summary(map[string]any{"cases": cases.Load(), "evaluations": evals.Load(), "mismatches": out.n})
	return nil
}

func init() { commands["replay-unq"] = replayUnq }
