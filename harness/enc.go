package main

import (
	"bytes"
	"errors"
	"fmt"
	"io"
	"reflect"
	"runtime"
	"strconv"
	"strings"
	"sync/atomic"

	jsonv2 "github.com/go-json-experiment/json"
	"github.com/go-json-experiment/json/jsontext"
)

// fmtOpts mirrors the option record F of spec/Format.tla.
type fmtOpts struct {
	AI     bool  `json:"ai"`
	AD     bool  `json:"ad"`
	ML     bool  `json:"ml"`
	MLInit bool  `json:"mlinit"` // spec-side field (see Format.tla); mirrors ML for coders
	Indent []int `json:"indent"` // [-1] = unset
	Prefix []int `json:"prefix"`
	SAC    int   `json:"sac"` // -1 unset, 0, 1
	SACM   int   `json:"sacm"`
	HTML   bool  `json:"html"`
	JS     bool  `json:"js"`
	PRS    bool  `json:"prs"`
	CRI    bool  `json:"cri"`
	CRF    bool  `json:"crf"`
	ROR    bool  `json:"ror"`
}

func (f fmtOpts) withInit() fmtOpts { f.MLInit = f.ML; return f }

func (f fmtOpts) options() []jsontext.Options {
	var o []jsontext.Options
	// only pass what differs from the defaults, in a fixed order
	if f.AI {
		o = append(o, jsontext.AllowInvalidUTF8(true))
	}
	if f.AD {
		o = append(o, jsontext.AllowDuplicateNames(true))
	}
	indentSet := !(len(f.Indent) == 1 && f.Indent[0] == -1)
	if f.ML && !indentSet && len(f.Prefix) == 0 {
		o = append(o, jsontext.Multiline(true))
	}
	if indentSet {
		o = append(o, jsontext.WithIndent(string(bytesOf(f.Indent))))
	}
	if len(f.Prefix) > 0 {
		o = append(o, jsontext.WithIndentPrefix(string(bytesOf(f.Prefix))))
	}
	if f.SAC >= 0 {
		o = append(o, jsontext.SpaceAfterColon(f.SAC == 1))
	}
	if f.SACM >= 0 {
		o = append(o, jsontext.SpaceAfterComma(f.SACM == 1))
	}
	if f.HTML {
		o = append(o, jsontext.EscapeForHTML(true))
	}
	if f.JS {
		o = append(o, jsontext.EscapeForJS(true))
	}
	if f.PRS {
		o = append(o, jsontext.PreserveRawStrings(true))
	}
	if f.CRI {
		o = append(o, jsontext.CanonicalizeRawInts(true))
	}
	if f.CRF {
		o = append(o, jsontext.CanonicalizeRawFloats(true))
	}
	if f.ROR {
		o = append(o, jsontext.ReorderRawObjects(true))
	}
	return o
}

type encCall struct {
	Op string `json:"op"`
	K  string `json:"k"`
	B  []int  `json:"b"`
}

func (c encCall) token() jsontext.Token {
	switch c.K {
	case "null":
		return jsontext.Null
	case "true":
		return jsontext.True
	case "false":
		return jsontext.False
	case "{":
		return jsontext.BeginObject
	case "}":
		return jsontext.EndObject
	case "[":
		return jsontext.BeginArray
	case "]":
		return jsontext.EndArray
	case "str":
		return jsontext.String(string(bytesOf(c.B)))
	case "num":
		s := string(bytesOf(c.B))
		if strings.ContainsAny(s, ".eE") {
			f, err := strconv.ParseFloat(s, 64)
			if err != nil {
				panic(err)
			}
			return jsontext.Float(f)
		}
		if strings.HasPrefix(s, "-") {
			n, err := strconv.ParseInt(s, 10, 64)
			if err != nil {
				panic(err)
			}
			return jsontext.Int(n)
		}
		n, err := strconv.ParseUint(s, 10, 64)
		if err != nil {
			panic(err)
		}
		return jsontext.Uint(n)
	}
	return jsontext.Token{}
}

// scriptedWriter accepts data according to a schedule of outcomes:
// -1 = take everything; n >= 0 = take n bytes (at most) and fail.
type scriptedWriter struct {
	got      bytes.Buffer
	outcomes []int // consumed one per Write call; exhausted = take everything
	calls    int
	log      [][]int // per Write call: [len(p), accepted, failed(0/1)]
}

var errWriteFault = errors.New("verif: injected write fault")

func (w *scriptedWriter) Write(p []byte) (int, error) {
	oc := -1
	if w.calls < len(w.outcomes) {
		oc = w.outcomes[w.calls]
	}
	w.calls++
	if oc < 0 {
		w.got.Write(p)
		w.log = append(w.log, []int{len(p), len(p), 0})
		return len(p), nil
	}
	if oc >= 1000 { // accepts only part of the data and reports no error (not what io.Writer asks for, but writers do)
		n := min(oc-1000, len(p))
		w.got.Write(p[:n])
		failed := 0
		if n < len(p) {
			failed = 1
		}
		w.log = append(w.log, []int{len(p), n, failed})
		return n, nil
	}
	n := min(oc, len(p))
	w.got.Write(p[:n])
	w.log = append(w.log, []int{len(p), n, 1})
	return n, errWriteFault
}

type encStep struct {
	OK    bool      `json:"ok"`
	Err   string    `json:"err"`
	Off   int64     `json:"off"`
	Depth int       `json:"depth"`
	Idx   [][]int64 `json:"idx"`
	Ptr   [][]int   `json:"ptr"`
	Panic string    `json:"panic"`
	Got   int       `json:"got"` // bytes delivered to the writer so far
}

func (s encStep) tuple() []any {
	return []any{s.OK, s.Err, s.Off, s.Depth, s.Idx, s.Ptr, s.Panic, s.Got}
}

func encErrClass(err error) string {
	var se *jsontext.SyntacticError
	switch {
	case err == nil:
		return "nil"
	case errors.Is(err, errWriteFault), errors.Is(err, io.ErrShortWrite):
		return "io"
	case errors.As(err, &se):
		return "syn"
	}
	return "other"
}

// encState wraps a real Encoder and logs one step per call.
type encState struct {
	e         *jsontext.Encoder
	delivered func() []byte
	initPanic string
}

func newEncState(w io.Writer, delivered func() []byte, f fmtOpts) (s *encState) {
	s = &encState{delivered: delivered}
	defer func() {
		if r := recover(); r != nil {
			s.initPanic = "NewEncoder: " + fmt.Sprint(r)
		}
	}()
	s.e = jsontext.NewEncoder(w, f.options()...)
	return s
}

func (s *encState) call(c encCall) encStep {
	e := s.e
	st := encStep{Ptr: [][]int{}, Idx: [][]int64{}}
	func() {
		defer func() {
			if r := recover(); r != nil {
				st.Panic = fmt.Sprint(r)
			}
		}()
		var err error
		switch c.Op {
		case "tok":
			err = e.WriteToken(c.token())
		case "val":
			err = e.WriteValue(jsontext.Value(bytesOf(c.B)))
		case "ptr":
			st.Ptr = pointerTokens(e.StackPointer())
		}
		st.OK = err == nil
		st.Err = encErrClass(err)
	}()
	if st.Panic == "" {
		st.Off = e.OutputOffset()
		st.Depth = e.StackDepth()
		st.Idx = stackIdx(st.Depth, e.StackIndex)
		st.Got = len(s.delivered())
	}
	return st
}

// encRun executes calls on a real Encoder writing to w; delivered() reports the bytes w received.
func encRun(w io.Writer, delivered func() []byte, f fmtOpts, calls []encCall) (steps []encStep) {
	s := newEncState(w, delivered, f)
	if s.initPanic != "" {
		return []encStep{{Panic: s.initPanic, Idx: [][]int64{}, Ptr: [][]int{}}}
	}
	for _, c := range calls {
		st := s.call(c)
		steps = append(steps, st)
		if st.Panic != "" {
			break
		}
	}
	return steps
}

type encPred struct {
	ok    bool
	off   int64
	depth int
	idx   [][]int64
	ptr   [][]int
}

// replay-enc cases=<TLC out> out=<mismatches>
func replayEnc(args map[string]string) error {
	out, err := newMismatchSink(argStr(args, "out", "/dev/null"))
	if err != nil {
		return err
	}
	defer out.close()
	var cases, evals atomic.Int64
	err = parallelLines(args["cases"], runtime.NumCPU(), func(line []byte) {
		var rec []jsontext.Value
		if err := jsonv2.Unmarshal(line, &rec); err != nil || len(rec) != 4 {
			return
		}
		var f fmtOpts
		var calls []encCall
		var hist [][]any
		var want []int
		if jsonv2.Unmarshal(rec[0], &f) != nil || jsonv2.Unmarshal(rec[1], &calls) != nil || jsonv2.Unmarshal(rec[2], &hist) != nil || jsonv2.Unmarshal(rec[3], &want) != nil {
			panic("bad encoder case: " + string(line))
		}
		wantOut := bytesOf(want)
		cases.Add(1)
		var raw any
		jsonv2.Unmarshal(line, &raw)
		for _, kind := range []string{"writer", "buffer"} {
			var w io.Writer
			var delivered func() []byte
			if kind == "buffer" {
				bb := new(bytes.Buffer)
				w, delivered = bb, bb.Bytes
			} else {
				sw := &scriptedWriter{}
				w, delivered = sw, sw.got.Bytes
			}
			steps := encRun(w, delivered, f, calls)
			evals.Add(1)
			for i, s := range steps {
				h := hist[i]
				p := encPred{ok: h[1].(bool), off: int64(toInt(h[2])), depth: toInt(h[3]), ptr: toIntss(h[5])}
				for _, row := range h[4].([]any) {
					r := toInts(row)
					p.idx = append(p.idx, []int64{int64(r[0]), int64(r[1]), int64(r[2])})
				}
				why := ""
				switch {
				case s.Panic != "":
					why = "panic"
				case s.OK != p.ok:
					why = "accept"
				case s.Off != p.off:
					why = "offset"
				case s.Depth != p.depth:
					why = "depth"
				case !reflect.DeepEqual(s.Idx, p.idx):
					why = "stackindex"
				case calls[i].Op == "ptr" && !reflect.DeepEqual(s.Ptr, p.ptr):
					why = "pointer"
				case !bytes.HasPrefix(wantOut, delivered()[:s.Got]):
					why = "delivered-not-prefix"
				case s.Depth == 0 && s.Got != int(p.off):
					why = "not-flushed-at-depth-0"
				}
				if why != "" {
					prop := "C06"
					if why == "panic" {
						prop = "C20"
					}
					out.put(map[string]any{"prop": prop, "family": "enc", "case": raw, "writer": kind, "step": i, "why": why,
						"got": s.tuple(), "want": h, "delivered": fmt.Sprintf("%q", delivered()), "wantout": fmt.Sprintf("%q", wantOut)})
					break
				}
			}
		}
	})
	if err != nil {
		return err
	}
	summary(map[string]any{"cases": cases.Load(), "evaluations": evals.Load(), "mismatches": out.n})
	return nil
}

func init() { commands["replay-enc"] = replayEnc }
