"""C20 - resource use is bounded: depth limit, cycle detection, no panics.

Model:   the depth limit is the MaxD parameter of the byte automaton (JsonText), of the Decoder
         and Encoder models and of Format; TLC checks with MaxD = 3 (MC_C01 'depth' universe:
         automaton == grammar incl. the limit) and evaluates the real constant 10000 on logged
         executions.  Trace_C20 states when marshaling a Go heap must fail (a cycle is reachable
         from the root) and how deep nested Go values may be.
TV:      texts and call programs nested 9999..10002 deep in every mix of arrays/objects, the depth
         reached by tokens, by one value, or split between both: reading tokens, reading /
         skipping / validating values (Trace_C01, Trace_Decoder), formatting (Trace_Format),
         writing tokens and raw values (Trace_Encoder); Go values nested around the limit and
         cyclic through every reference kind, each marshaled in a child process so that a fatal
         stack overflow is an observed outcome, not a dead driver (Trace_C20).
Totality: every driver of every property records panics; a panic is rejected by every trace
         spec under property C20 (see the other checks), and here for C20's own drivers.
"""
import os
from common import B


def run(ctx):
    ctx.build()
    q = ctx.quick
    # the limit on the model: automaton == grammar with MaxD = 3, incl. one level too deep
    ctx.tlc("MC_C01", name="MC_C01_depth3", capture_lines=False,
            consts={"Alphabet": set(B('[]{}"a:0,')), "Prefix": B("[["), "MaxLen": 5 if q else 7, "MaxD": 3,
                    "EmitCases": False, "CheckTwin": True},
            invariants=("TwinInv", "MonoInv"), properties=("DeadStays",))
    # marshal: cyclic heaps and deep Go values
    ctx.tv("c20", "Trace_C20", {}, consts={"MaxD": 10000})
    ctx.sample({"heap": [["map", [1]], ["ptr", [0]]], "expected": "error (cycle through a map and a pointer)"})
    # decoder paths
    ctx.tv("dec", "Trace_Decoder", {"mode": "deep", "stride": 3 if q else 1}, consts={"MaxD": 10000})
    # IsValid / Unmarshal / reader loops
    ctx.tv("c01", "Trace_C01", {"seed": ctx.seed, "n": 0, "deep": 1}, consts={"MaxD": 10000})
    # encoder paths
    ctx.tv("enc", "Trace_Encoder", {"mode": "deep", "stride": 9 if q else 1, "prop": "C20"}, consts={"MaxD": 10000})
    # format paths
    ctx.tv("fmt", "Trace_Format", {"mode": "deep", "stride": 5 if q else 1, "prop": "C20"}, consts={"MaxD": 10000})
    # totality of Unmarshal on ill-formed encoded texts: the format family of the Arshal model
    # (a panic is a mismatch with the predicted outcome, whatever that is)
    import arshalfam as af
    af.run_model(ctx, "formats_u", af.within(af.FMTFAM, 1, 400, 12000 if q else 10 ** 6), {"u"}, "C20", uopts=af.FMT_UOPTS, D=1, laws=False)
    ctx.assumptions += [
        "documented misuse panics (nil reader/writer, Reset inside a marshal call, accessor on the wrong token kind, non-blank indent) are never provoked by the drivers",
        "non-termination is observed as a 120 s timeout of the isolated child process",
    ]
    ctx.cov["distinct_nontrivial"] = ctx.cov["traces_validated_against_impl"]
    ctx.cov["rule"] = "each depth-targeted text / program / Go heap is distinct by construction (depth x container mix x split point x path)"
