"""C14 - Unmarshal merges JSON objects into existing values and replaces everything else.

Model:   JsonValue.tla!MergeTree: objects are united recursively, anything else takes the later
         side.  Trace_Arshal!CheckMerge recomputes the merge of the logged texts j1..jk from their
         meanings and requires the text the driver unmarshaled in one go to denote exactly that
         tree (otherwise the run is a machinery error), and then the law: whenever the chain
         j1, ..., jk unmarshaled successively into one value succeeds, unmarshaling the merged
         text into a zero value succeeds and yields an equal Go value.
TV:      random merge-capable types (structs, maps, pointers, slices, arrays, interfaces, scalars,
         tag options) with chains of 2..4 fitting texts containing nulls, missing and unknown
         members.
MC:      spec/Arshal.tla!Unmarshal is the documented merge: null zeroes, scalars replace, a slice
         holds exactly the new elements, arrays are overwritten, map entries and struct fields
         not mentioned are kept and those mentioned are decoded into, pointers are allocated when
         nil, a held interface value is decoded into.  MC_Arshal proves on the model for all
         pairs of inputs of a bounded universe: j2 into (j1 into zero), whenever both succeed,
         equals merge(j1, j2) into zero (MergeLaw; merge keeps number spellings), and that
         unmentioned fields and entries are kept (FrameLaw).
Replay:  every (type, pre-existing value, input, options) with the predicted success and the
         predicted resulting Go value (nil-ness included), on the real Unmarshal.
TV:      (model) random types, random pre-existing values, fitting / ill-fitting / mutated texts;
         TLC (Trace_ArshalModel) recomputes success and the exact resulting value under 6 option
         sets (StringifyNumbers, RejectUnknownMembers, MatchCaseInsensitiveNames,
         AllowDuplicateNames).
"""


def run(ctx):
    ctx.build()
    n = 4000 if ctx.quick else 150000
    s = ctx.tv("arshal", "Trace_Arshal", {"seed": ctx.seed, "n": n, "mode": "c14"}, consts={"MaxD": 10000})
    ctx.part("driver", **{k: v for k, v in s.items() if not k.startswith("_")})
    ctx.assumptions += ["equality of the two resulting Go values (nil/empty identified) is a projection fact", "raw values and byte slices are not merge-capable and are excluded from the type generator"]
    # the type-directed model: Unmarshal into every pre-existing value of a bounded universe
    import arshalfam as af
    cand = af.HAND + af.random_types(ctx.seed, 60 if ctx.quick else 800)
    D = 1
    m = af.run_model(ctx, "into", af.within(cand, D, 400, 12000 if ctx.quick else 200000), {"u"}, "C14", D=D)
    af.run_model(ctx, "mergelaw", af.within(cand, D, 10 ** 9, 15000 if ctx.quick else 250000), {"g"}, "C14", uopts=[af.O(), af.O(sn=True)], D=D)
    # random types, pre-existing values and (also ill-fitting, mutated) texts beyond the enumerated
    # universe, validated by TLC against the same model: success and the exact resulting Go value
    nm = 8000 if ctx.quick else 400000
    ctx.tv("arshalmodel", "Trace_ArshalModel", {"seed": ctx.seed, "n": nm, "kinds": "u", "prop": "C14"})
    ctx.assumptions.append("Arshal model universe: see C04; inputs are compact texts of a small grammar per type (fitting values, wrong kinds, nulls, unknown, duplicated and case-variant names, out-of-range numbers)")
    ctx.cov["distinct_nontrivial"] = n
    ctx.cov["rule"] = "random (type, j1..jk) tuples regenerated from logged seeds"
