"""C14 - Unmarshal merges JSON objects into existing values and replaces everything else.

Model:   JsonValue.tla!MergeTree: objects are united recursively, anything else takes the later
         side.  Trace_Arshal!CheckMerge recomputes the merge of the logged texts j1..jk from their
         meanings and requires the text the driver unmarshaled in one go to denote exactly that
         tree (otherwise the run is a machinery error), and then the law: whenever the chain
         j1, ..., jk unmarshaled successively into one value succeeds, unmarshaling the merged
         text into a zero value succeeds and yields an equal Go value.
TV:      random merge-capable types (structs, maps, pointers, slices, arrays, interfaces, scalars,
         tag options) with chains of 2..4 fitting texts containing nulls, missing and unknown
         members.
"""


def run(ctx):
    ctx.build()
    n = 4000 if ctx.quick else 150000
    s = ctx.tv("arshal", "Trace_Arshal", {"seed": ctx.seed, "n": n, "mode": "c14"}, consts={"MaxD": 10000})
    ctx.part("driver", **{k: v for k, v in s.items() if not k.startswith("_")})
    ctx.assumptions += ["equality of the two resulting Go values (nil/empty identified) is a projection fact", "raw values and byte slices are not merge-capable and are excluded from the type generator"]
    ctx.cov["distinct_nontrivial"] = n
    ctx.cov["rule"] = "random (type, j1..jk) tuples regenerated from logged seeds"
