"""C16 - reported positions are truthful: offsets, stack pointers, error locations.

Model:   Decoder.tla predicts InputOffset, StackDepth, StackIndex and StackPointer after every
         call from the token table; MC_Decoder!ParseInv proves with TLC that these equal the
         offsets/stack of an independent parse (the byte automaton) of the consumed bytes.
         Error positions are relational (OffsetOK, PointerOK in Decoder.tla).
         Pointer.tla states the RFC 6901 laws; MC_Pointer checks them and emits cases.
Replay:  all call programs on small documents over plain readers; all token lists / strings
         over {~ / 0 1 a} on jsontext.Pointer's methods.
TV:      call programs with the error of each rejected call (offset, pointer) logged, over
         documents of the MC universe and over generated/mutated texts, validated by TLC.
         Unmarshal of texts that fit a generated type except for one value (number replaced by
         true, or a value for a chan field) preceded by random whitespace: the SemanticError's
         ByteOffset and JSONPointer equal Decoder.tla's offset/stack pointer of that value.
"""
import os
from decfam import mc_decoder


def run(ctx):
    ctx.build()
    ctx.assumptions += [
        "PointerOK admits the value being read, the innermost open container, and (for purely structural errors) that container's parent",
        "OffsetOK: last complete token end <= ByteOffset <= first dead byte (or end of a truncated text)",
        "a SemanticError for a value that cannot be converted has ByteOffset = first byte of that value and JSONPointer = Decoder.tla's pointer of it",
        "positions of the Encoder: Trace_Encoder compares OutputOffset/StackDepth/StackIndex/StackPointer after each call with Encoder.tla, also across write faults",
    ]
    # --- Pointer laws
    r = ctx.tlc("MC_Pointer", capture_lines=False, invariants=("Laws", "EmitInv"),
                consts={"Chars": set(b"~/01a"), "MaxTok": 2 if ctx.quick else 3, "MaxToks": 3 if ctx.quick else 2,
                        "MaxStr": 6 if ctx.quick else 8, "EmitCases": True})
    s = ctx.replay_cases("ptr", r.out)
    ctx.part("pointer_laws", cases=s.get("cases"), evaluations=s.get("evaluations"))
    ctx.sample({"tokens": ["a/", "~1"], "pointer": "/a~1/~01"})
    # --- decoder positions after every call
    calls = 4 if ctx.quick else 6
    r = mc_decoder(ctx, calls)
    ptrace = os.path.join(ctx.work, "dec-plain.nd")
    summ = ctx.replay_cases("dec", r.out, faultout=ptrace, faultsample=4 if ctx.quick else 2, tracemode="plain", scheds="plain")
    ctx.part("replay_programs", programs=summ.get("cases"), executions=summ.get("evaluations"), calls_per_program=calls)
    rej, n = ctx.validate_trace("Trace_Decoder", ptrace, {"MaxD": 10000}, name="TV_decplain")
    ctx.part("tv_error_positions_small", records=n, rejected=len(rej))
    if rej:
        recs = {d["id"]: d for d in ctx.load_ndjson(ptrace)}
        ctx.add_mismatches([{"prop": x[1], "family": "dec", "dir": "tv", "module": "Trace_Decoder", "consts": {"MaxD": 10000},
                             "case": recs[x[0]], "expected": x[2]} for x in rej], confirm=ctx.confirm_tv)
    n = 800 if ctx.quick else 15000
    ctx.tv("dec", "Trace_Decoder", {"seed": ctx.seed, "n": n, "mode": "c16"}, consts={"MaxD": 10000})
    # --- encoder positions (OutputOffset, Stack*) after every call, also across write faults
    ne = 120 if ctx.quick else 3000
    ctx.tv("enc", "Trace_Encoder", {"seed": ctx.seed, "n": ne, "mode": "c07", "prop": "C16"}, consts={"MaxD": 10000})
    # --- SemanticError positions from Unmarshal: offset and pointer of the value that does not convert
    ns = 1500 if ctx.quick else 40000
    ctx.tv("arshal", "Trace_Arshal", {"seed": ctx.seed, "n": ns, "mode": "c16sem"}, consts={"MaxD": 10000})
    ctx.cov["distinct_nontrivial"] = int(summ.get("cases", 0)) + int(s.get("cases", 0)) + n
    ctx.cov["rule"] = "distinct call programs x documents (positions after every call) + distinct pointer token lists + generated/mutated texts with the error position of every rejected call"
