"""C09 - package v1 behaves like the classic encoding/json.

Model:   the property names its oracle: the encoding/json of the installed toolchain.  V1.tla is
         the refinement relation between two executions of one call program (succeed or fail
         together; identical bytes / identically rendered Go values on success; target untouched
         on syntactically invalid input) and the calibration clause that ties the rest of the
         specification to the reference (classic Valid == the automaton with invalid UTF-8 and
         duplicate names allowed).
TV:      the harness drives both packages with the same programs: Valid/Compact/Indent/HTMLEscape
         on generated and mutated texts; Marshal (by value and addressable) and MarshalIndent of
         random values of random types restricted to features both support (tags name/omitempty/
         omitzero/string, maps with string/integer keys, interfaces, pointers, Marshaler/
         Unmarshaler/TextMarshaler types with value and pointer receivers, invalid UTF-8, NaN);
         Unmarshal of fitting, mutated and upper-cased texts into pre-populated targets; Decoder
         programs over Token/More/Decode/InputOffset with UseNumber and DisallowUnknownFields on
         chunked readers; Encoder programs over Encode/SetIndent/SetEscapeHTML.  TLC (Trace_V1)
         validates every step against the relation.
MC/TV:   V1.tla also models the stream API of encoding/json itself (Token / More / InputOffset as a
         state machine over the token table and the read position).  For programs of those calls
         over one valid text TLC requires both packages to answer exactly what the model
         prescribes: a disagreement of encoding/json is an error of the specification (exit 2), a
         disagreement of v1 a violation.
"""


def run(ctx):
    ctx.build()
    n = 6000 if ctx.quick else 300000
    s = ctx.tv("v1", "Trace_V1", {"seed": ctx.seed, "n": n}, consts={"MaxD": 10000})
    ctx.part("driver", **{k: v for k, v in s.items() if not k.startswith("_")})
    ctx.assumptions += [
        "outside the modelled fragment (Valid) the specification acts as a refinement checker between the two executions, as DESIGN.md section 5 (C09) states",
        "struct field names are ASCII identifiers (encoding/json ignores tag names with characters outside its own allow-list); maps are not keyed by types whose text keys may collide",
        "Go values are compared through a rendering that follows pointers and sorts map entries",
    ]
    ctx.cov["distinct_nontrivial"] = n
    ctx.cov["rule"] = "random call programs (5 kinds) regenerated from logged seeds; every step compared"
