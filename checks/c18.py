"""C18 - calls are isolated from one another: no history or concurrency dependence.

Model:   spec/Pools.tla: goroutines take a pooled coder (any idle object or a new one), reset it,
         dirty it while working - the call may end normally, with an error or with a recovered
         panic, all through the same deferred exit path - and put it back.  TLC checks over all
         interleavings of 3 goroutines and 2 objects: exclusive ownership, no call ever starts on
         residue that could influence its result, idle objects hold only benign residue - given
         which attributes the reset and the exit path clear.
TV-1:    the verif hooks (jsontext/pools.go, build tag verif) log every hand-out of a pooled coder
         after its reset, with the state that survived the reset, and every return.  Trace_Pools
         replays the events as the Begin/End actions of the model: handed out only while idle,
         returned only while held, residue vector all zero (buffered bytes, open containers, names,
         namespaces, tracked pointers, peek/offsets) - this binds 'reset clears ResetAttrs' and
         'the exit path clears ExitAttrs' of the model to the code, on sequential and concurrent runs.
TV-2:    29 heterogeneous call descriptors (options, errors at every stage, panicking user code,
         1 MiB documents, 1100-deep values that turn on cycle tracking, failing writers, wide
         objects that switch the namespace to a map) are executed alone in fresh processes
         (reference), then in shuffled sequential histories and on 16 goroutines under the race
         detector.  Trace_Iso requires every occurrence to equal its reference, data handed back
         to be intact at the end of the history (also after the caller overwrote its input
         buffers), and no race report.
"""
import glob, json, os


def run(ctx):
    ctx.build()
    race = ctx.build(race=True)
    ctx.tlc("Pools", name="MC_Pools", capture_lines=False,
            consts={"Goroutines": {"g1", "g2", "g3"}, "Objects": {"o1", "o2"},
                    "ResetAttrs": {"buf", "stack", "names", "peek"}, "ExitAttrs": {"seen"}},
            invariants=("Exclusive", "Isolated", "IdleClean"))
    trace = os.path.join(ctx.work, "iso.nd")
    pool = os.path.join(ctx.work, "pool.nd")
    nh, n = (6, 150) if ctx.quick else (60, 600)
    summ = ctx.harness("drive-iso", out=trace, poolout=pool, racebin=race, seed=ctx.seed, histories=nh, n=n, timeout=7200)
    ctx.part("driver", **{k: v for k, v in summ.items() if not k.startswith("_")})
    rej, cnt = ctx.validate_trace("Trace_Iso", trace, None, name="TV_iso")
    recs = {d["id"]: d for d in ctx.load_ndjson(trace)}
    ctx.add_mismatches([{"prop": x[1], "family": "iso", "dir": "tv", "module": "Trace_Iso", "consts": None,
                         "case": {k: v for k, v in recs[x[0]].items() if k != "calls"}, "expected": x[2]} for x in rej])
    for d in list(recs.values())[:1]:
        ctx.sample({"mode": d["mode"], "calls": d["calls"][:3], "ref": d["ref"][:2]})
    events = 0
    for f in [pool] + sorted(glob.glob(pool + ".conc*")):
        if not os.path.exists(f) or os.path.getsize(f) == 0:
            continue
        prej, pn = ctx.validate_trace("Trace_Pools", f, None, shards=1, name="TV_pools_" + os.path.basename(f).replace(".", "_"))
        events += pn
        ctx.add_mismatches([{"prop": x[1], "family": "pools", "dir": "tv", "module": "Trace_Pools", "consts": None,
                             "case": {"file": os.path.basename(f), "seq": x[0]}, "expected": x[2]} for x in prej])
    ctx.part("pool_events", events=events)
    if events == 0:
        from common import MachineryError
        raise MachineryError("no pool events recorded: hooks not active")
    ctx.assumptions += [
        "how many bytes a failing writer received before the error depends on flush boundaries (recycled buffer size): for that descriptor only the error and prefix-ness are compared",
        "error texts are compared as part of a call's result (same arguments, same text)",
        "pool events are ordered by a sequence number taken under one mutex at the hook (after the reset on Get, before the Put)",
    ]
    ctx.cov["distinct_nontrivial"] = cnt + events
    ctx.cov["rule"] = "histories of calls over 29 descriptors (shuffled sequential, 16-goroutine concurrent) and the pool events they caused"
