"""What is claimed, per property.  bin/gen-manifest turns this into MANIFEST.json."""

HOOK_COMMITS = []

NOTES = ("One TLA+ specification (spec/) decides every claimed property; TLC is the oracle in both binding directions "
         "(replay of TLC-emitted cases on the real code, TLC validation of traces logged from the real code). "
         "See DESIGN.md.")

NOT_APPLICABLE = {}

CHECKS = {
    "C01": dict(
        technique="TLA+ byte-level JSON automaton checked by TLC against an independent grammar; exhaustive replay of TLC-enumerated strings on 8 entry points x 4 option sets; TLC trace validation of generated/mutated/wide/deep inputs",
        text=("TLC explores every byte string over ten JSON-critical alphabets up to a length bound (prefix tree, pruned at the first dead byte), "
              "proves on that universe that the specification's automaton equals a separately written recursive-descent grammar, and emits each string "
              "with its verdict under the four AllowInvalidUTF8/AllowDuplicateNames combinations; the harness runs all of them through IsValid, "
              "Unmarshal-into-any and token/value decoder loops over three reader kinds. Longer inputs (generated, mutated, 80-member objects, "
              "nesting 9998..10002) are executed first and their logged acceptance is validated by TLC against the same automaton."),
        note="Bounded-exhaustive plus sampled; trusted: TLC, CommunityModules, the byte<->int projection. Unmarshal-into-any is compared only where it is a pure acceptor.",
        design_ref="5 (C01), 4.1"),
}
