"""What is claimed, per property.  bin/gen-manifest turns this into MANIFEST.json."""

HOOK_COMMITS = ["446ecfe"]

NOTES = ("One TLA+ specification (spec/) decides every claimed property; TLC is the oracle in both binding directions "
         "(replay of TLC-emitted cases on the real code, TLC validation of traces logged from the real code). "
         "See DESIGN.md.")

NOT_APPLICABLE = {}

CHECKS = {
    "C01": dict(
        technique="TLA+ byte-level JSON automaton checked by TLC against an independent grammar; exhaustive replay of TLC-enumerated strings on 8 entry points x 4 option sets; TLC trace validation of generated/mutated/wide/deep inputs",
        text=("TLC explores every byte string over ten JSON-critical alphabets up to a length bound (prefix tree, pruned at the first dead byte), "
              "proves on that universe that the specification's automaton equals a separately written recursive-descent grammar, and emits each string "
              "with its verdict under the four AllowInvalidUTF8/AllowDuplicateNames combinations; the harness runs all of them through IsValid, "
              "Unmarshal-into-any and token/value decoder loops over three reader kinds. Longer inputs (generated, mutated, 80-member objects, "
              "nesting 9998..10002) are executed first and their logged acceptance is validated by TLC against the same automaton."),
        note="Bounded-exhaustive plus sampled; trusted: TLC, CommunityModules, the byte<->int projection. Unmarshal-into-any is compared only where it is a pure acceptor.",
        design_ref="5 (C01), 4.1"),
    "C02": dict(
        technique="TLC trace validation: every logged Marshal/MarshalWrite/MarshalEncode output with nil error is run through the specification's JSON recogniser (checked against the grammar by TLC) under the effective options; routes must agree",
        text=("The driver marshals values of random reflect-built types - including maps with NaN/any/text-marshaler keys, raw values, invalid UTF-8 strings, > 64 fields - whose leaves are "
              "sprinkled with types carrying adversarial MarshalJSON / MarshalJSONTo / MarshalText / AppendText methods (arbitrary bytes, 0/1/2 values, open objects, ErrUnsupported after use, "
              "swallowed nested errors) and caller-supplied MarshalFunc/MarshalToFunc, under 10 option sets, through Marshal, MarshalWrite (bytes.Buffer and plain writer) and MarshalEncode. TLC "
              "(Trace_Arshal) requires every nil-error output to be exactly one JSON value valid under the effective AllowInvalidUTF8/AllowDuplicateNames, all routes to succeed or fail together "
              "with the same value, and no panic."),
        note="Sampled (6k quick / 200k thorough cases); the generator bounds the explored type universe.",
        design_ref="5 (C02)"),
    "C03": dict(
        technique="TLA+ meaning of a text (JsonValue.tla) compared by TLC with the projected Go tree for 10 decoding routes; acceptance iff valid, fitting and no overflow; Arshal.tla model of untyped destinations replayed exhaustively over a bounded universe under the options that switch the specialised decoder off",
        text=("For each logged (text, route) TLC recomputes validity with the automaton and the value tree with JsonValue.tla, and requires the untyped target to hold exactly that tree (strings "
              "by code points, arrays in order, objects as member sets, numbers as the nearest float64) and an error exactly for invalid texts, kind mismatches of map/slice targets and float64 "
              "overflow - through Unmarshal, UnmarshalRead, UnmarshalDecode over chunked streams, the generic map[string]any / []any machinery, a named interface, and option sets that disable the "
              "specialised untyped decoder. The Arshal model adds every (pre-existing value, input) of a bounded universe for any, []any, map[string]any, *any, [1]any and struct{any} under default, AllowDuplicateNames, StringifyNumbers, both, and RejectUnknownMembers+MatchCaseInsensitiveNames, with the predicted tree and nil-ness."),
        note="Number rounding is supplied by the strconv projection (decided in C10); sampled texts incl. interning-cache adversaries and 16..19-digit integers.",
        design_ref="5 (C03)"),
    "C04": dict(
        technique="TLC trace validation of Marshal/Unmarshal/Marshal chains: validity, equality of value trees (JsonValue.tla), fixed point, projected Go equality; TLA+ model of the type-directed mapping (Arshal.tla) with the round-trip theorem model-checked by TLC and every (type, value, options) replayed with exact predicted bytes",
        text=("Random values of random types x 10 symmetric option sets are marshaled, unmarshaled into a zero value, marshaled again (and once more); TLC requires out1 valid, accepted by "
              "Unmarshal, out2 denoting the same tree as out1 (identical bytes under Deterministic) unless omit options are present, out3 = out2 always, and - where Go equality is meaningful - "
              "the decoded value equal to the original with nil/empty identified, floats by bit pattern and integers exactly. In addition the type-directed model spec/Arshal.tla (documented mapping between Go values and JSON for bool, string, float64, integers, slices, arrays, maps keyed by strings or integers, pointers, any, []byte and [N]byte in Base 64, time.Duration and time.Time in their decimal formats (sec..nano, unix..unixnano), and structs with omitzero/omitempty/string/case/format options and an embedded fallback map) is enumerated by TLC over a bounded universe of types, values, inputs and option sets (MC_Arshal) and every case is replayed on reflect-built types with the exact predicted bytes / Go value. On the model TLC proves RoundTrip (Unmarshal accepts Marshal(v), the second output is the same JSON value - a fixed point after one round with omit options - and the decoded value equals v up to nil/empty and values written as null) and ParseRender (the rendering reads back through the byte automaton)."),
        note="Relational check between real executions with TLC deciding validity/meaning equality; Go-side equality is a projection fact. No exhaustive float32 sweep. The model includes the `format` options: RFC 4648 encodings and number lists for byte strings (general codec proved against the section-4 transcription by TLC), non-finite floats, emitnull/emitempty, ISO 8601 durations; Marshal bytes and Unmarshal results of that family are replayed.",
        design_ref="5 (C04)"),
    "C05": dict(
        technique="TLA+ Decoder state machine over the token table (reader schedule absent from the state); TLC-enumerated call programs replayed under all read compositions; TLC trace validation of faulted and long random executions",
        text=("Decoder.tla makes every ReadToken/ReadValue/SkipValue/PeekKind/StackPointer call a function of the input's token table and the decoder state only. "
              "TLC checks on all call programs over 25 small documents that the model's offsets/stack equal an independent parse of the consumed bytes, that token, value "
              "and skip paths agree, and that failing calls have no effect; it emits every program with per-call predictions. The harness executes each under every "
              "composition of the input into reads (<= 9 bytes; single cuts, 1-byte, empty reads, data+EOF, bytes.Buffer otherwise) and compares call by call. Executions with "
              "injected transient read faults and retries, and long random programs over inputs sized around the 64..4096 buffer thresholds, are logged and validated by TLC "
              "(Trace_Decoder), including unread-buffer accounting and value-bytes identity."),
        note="Bounded-exhaustive programs/schedules plus sampled long runs; PeekKind at the point where input ends or dies is left open; UnmarshalRead/UnmarshalDecode equivalence of results is decided in C03's check; equality of the final error (kind, offset, pointer) of UnmarshalRead under reader cuts around the offending value with Unmarshal's is a clause of Trace_Arshal run here.",
        design_ref="5 (C05), 4.2"),
    "C14": dict(
        technique="TLA+ MergeTree on value trees; TLC validates that the driver's merged text is MergeTree(j1..jk) and the law chain == single unmarshal of the merged text; TLA+ model of Unmarshal's merge semantics per Go type (Arshal.tla): MergeLaw and FrameLaw model-checked by TLC, every (type, pre-existing value, input, options) replayed with the predicted Go value",
        text=("For random merge-capable types and chains of 2..4 fitting texts (nulls, missing and unknown members), the harness unmarshals the chain into one value and the JSON-level merge into "
              "a zero value. TLC recomputes the merge from the meanings of the logged texts (objects united recursively, otherwise the later side) - a mismatch with the driver's text is a machinery "
              "error - and requires that whenever the chain succeeds the merged text is accepted and yields an equal Go value. In addition the type-directed model spec/Arshal.tla (documented mapping between Go values and JSON for bool, string, float64, integers, slices, arrays, maps keyed by strings or integers, pointers, any, []byte and [N]byte in Base 64, time.Duration and time.Time in their decimal formats (sec..nano, unix..unixnano), and structs with omitzero/omitempty/string/case/format options and an embedded fallback map) is enumerated by TLC over a bounded universe of types, values, inputs and option sets (MC_Arshal) and every case is replayed on reflect-built types with the exact predicted bytes / Go value. On the model TLC proves for all pairs of inputs: j2 into (j1 into zero), whenever both succeed, equals merge(j1, j2) into zero (MergeLaw), and fields / entries not mentioned are kept (FrameLaw); the replay covers every pre-existing value (nil, empty, populated; allocated pointers; held interface values), not only those reachable by a first unmarshal."),
        note="Sampled; Go value equality is a projection fact; raw values and []byte are outside the merge-capable universe.",
        design_ref="5 (C14)"),
    "C15": dict(
        technique="TLA+ declarative field-resolution rules checked by TLC against a transcription of the implementation's sort-and-scan algorithm on every type graph; replay on reflect-built struct types (member names/order/presence, receiving field per probe name); Arshal.tla carries the per-field options over all modelled field types: exact Marshal bytes and Unmarshal field contents replayed over a bounded universe",
        text=("Fields.tla states the documented rules (breadth-first candidates, shallowest wins, a single explicitly named field breaks a tie, otherwise dropped; depth-first marshal order; exact then "
              "case-insensitive matching ignoring '_' and '-' with ambiguity reported; unknown names ignored or rejected; omitzero/omitempty/string per field). TLC proves rules == algorithm and "
              "name uniqueness on each type graph and emits, per type, the member order with omission flags per value class and the field (or unknown/ambiguous) for 17 probe names under both "
              "matching modes. The harness builds each type with reflect and compares Marshal output for 8 value classes and the field set by Unmarshal for every probe x option combination. The Arshal model extends the per-field options to every modelled field type (pointers, containers, interfaces, nested structs): omitzero by the Go zero value, omitempty by the encoded value, `string` on numbers only (an error elsewhere), matching per field - exact bytes and field contents for every value / input of a bounded universe."),
        note="Sampled type graphs from a collision-forcing grammar plus hand-written corners and 70/130-field structs; ASCII names; `embed` tag option instead of Go embedding.",
        design_ref="5 (C15), 4.6"),
    "C16": dict(
        technique="TLC-checked invariant 'model positions == independent parse'; replay of TLC-enumerated programs comparing offset/depth/index/pointer after every call; relational error-position predicates validated by TLC on logged errors; RFC 6901 pointer laws model-checked and replayed",
        text=("After every decoder call the harness compares InputOffset, StackDepth, StackIndex and (scheduled) StackPointer with TLC's prediction; TLC proves on the model that "
              "these predictions equal the stack of the byte automaton run on the consumed prefix. For every rejected call the logged SyntacticError offset and pointer are checked by "
              "TLC against OffsetOK/PointerOK (viable prefix, offending token, innermost value or its container, duplicated member). Pointer.tla's laws are checked exhaustively over "
              "token lists on {~,/,0,1,a} and replayed on jsontext.Pointer."),
        note="Relational error predicates admit every position the property's wording admits; encoder positions after every call are compared with Encoder.tla (Trace_Encoder, also across write faults); SemanticError offsets and pointers of Unmarshal, their equality under UnmarshalRead, and Encoder.StackPointer as seen by caller-supplied marshal functions inside Marshal are clauses of Trace_Arshal decided with Decoder.tla's pointer of the place in the text.",
        design_ref="5 (C16), 4.2"),
    "C06": dict(
        technique="TLA+ Encoder state machine with rendered output; TLC invariant 'rendered output parses to exactly the model's frames'; exhaustive replay of TLC-enumerated WriteToken/WriteValue programs x option sets; TLC trace validation of long random programs",
        text=("Encoder.tla defines acceptance of each WriteToken/WriteValue call by the grammar automaton (token order, string-only unique names, balanced delimiters, depth, "
              "well-formed UTF-8, well-formed raw values) and the bytes it renders under the formatting options; a rejected call is a stuttering step. TLC checks on every "
              "reachable state that the output is a viable JSON stream prefix whose byte-level parse has the model's frames, and emits all programs of length <= 3 over 28 calls "
              "(<= 4/5 over 16) x 12 option sets with the predicted outcome, offsets, stack and output. The harness replays them on a plain writer and a bytes.Buffer; rejected "
              "calls are followed by further calls so that a missed rollback shows up later. Random programs of up to 400 calls are validated by TLC (Trace_Encoder)."),
        note="Bounded-exhaustive plus sampled; number token text is given by the alphabet (formatting is C10); CanonicalizeRaw* only on numbers the spec decides.",
        design_ref="5 (C06), 4.3"),
    "C07": dict(
        technique="TLC trace validation of Encoder executions over scripted short-writing/failing writers and bytes.Buffer against the Encoder model's fault-free output",
        text=("Every call of random programs (up to 400 calls, outputs sweeping the 64..4096 buffer thresholds) is logged with its result, OutputOffset, stack and the number of "
              "bytes the writer has accepted; the writer follows a script of full, short and failing Writes. TLC (Trace_Encoder) requires: a grammar-accepted call fails only with "
              "the injected I/O error and stays accepted; delivered bytes are always a prefix of the model's fault-free output (nothing lost or duplicated, newline included); an "
              "accepted call returning to depth 0 without a fault has flushed everything. Marshal vs MarshalWrite vs MarshalEncode with retracted omitempty members is validated "
              "by Trace_Arshal (C02's driver logs all three outputs)."),
        note="Flush policy is left open (only prefix / flushed-at-depth-0 are required); sampled schedules, not exhaustive.",
        design_ref="5 (C07), 4.3"),
    "C12": dict(
        technique="TLA+ Format specification (exact output bytes) with TLC-checked laws (valid result, same meaning, fixed point, unchanged on error) over all byte strings of bounded universes x 25 entry/option cases; exhaustive replay; TLC trace validation of generated/mutated texts x random options",
        text=("Format.tla determines the bytes produced by Value.Format, Compact, Indent, Canonicalize and AppendFormat from the token table of the input and the effective options "
              "(preset joined with caller options). TLC proves on every byte string of five universes (structure, members, strings/escapes incl. U+2028 and invalid UTF-8, numbers, nesting) "
              "that the operation succeeds iff the text is valid under those options, that the result is valid, denotes the same value tree (JsonValue.tla; strings by code points, numbers "
              "by normal form, member order only under ReorderRawObjects), is a fixed point, and that an error leaves the value unchanged; each (string, case) is replayed on the "
              "library. 1.5k/40k generated and mutated texts with random option subsets are validated by TLC (Trace_Format)."),
        note="Exact-bytes oracle (stronger than the property, never weaker); the Multiline defaults apply only when Multiline is in the coder's creation options, as implemented (see Format.tla!Effective); long-number canonical digits come from the strconv projection.",
        design_ref="5 (C12), 4.4"),
    "C13": dict(
        technique="TLC-checked canonical-form laws on Format.tla's Canonicalize (no whitespace, UTF-16 member order, minimal strings, same meaning); exhaustive replay; TLC validation of (text, re-spelling) pairs requiring identical canonical bytes",
        text=("For Canonicalize with default options TLC proves on the bounded universes that the output has no whitespace outside strings, members sorted by the UTF-16 code units of the "
              "unescaped names at every depth, minimally spelled strings and the same meaning, and every string is replayed on Value.Canonicalize. The driver pairs valid I-JSON texts with "
              "random re-spellings (member permutation, whitespace, \\uXXXX escapes incl. surrogate pairs, exponent/fraction re-spelling); TLC recomputes both canonical forms from the "
              "specification, compares them with the library's output and requires them to be equal."),
        note="ECMA-262 layout, -0, ordering and string minimality are the spec's; the nearest float64 and its shortest digits for literals with > 15 significant digits come from the strconv projection (trusted).",
        design_ref="5 (C13), 4.4"),
    "C08": dict(
        technique="TLC decides from the byte automaton (4 option combinations) whether a logged text is ambiguous and validates the outcome of Unmarshal under each combination for random target types; Arshal.tla model of duplicate detection by field / decoded key / name replayed over a bounded universe x {default, AllowDuplicateNames, case-insensitive, both}",
        text=("Texts fitting random target types (struct, map, untyped, raw value, skipped unknown members, nested mixes) get one member repeated at a random depth - with the same or an escaped "
              "spelling - or one string damaged by ill-formed UTF-8. TLC classifies each text with the automaton and requires: rejected under defaults by every target; AllowDuplicateNames admits "
              "only duplicates and AllowInvalidUTF8 only ill-formed bytes; on unambiguous input the options change neither success nor the decoded value. Marshal-side clauses are decided by C02's "
              "driver (colliding keys, invalid strings) and field-level collisions by C15. The Arshal model adds where the library itself decides duplicates: two members reaching one struct field (also by case-insensitive matching), two names decoding to one map key (\"0\" and \"-0\"), repeated unknown members, pre-populated maps; under AllowDuplicateNames the later member is decoded into what the earlier one left - every case of a bounded universe replayed with predicted outcome and value."),
        note="Sampled; later-wins/merge values under AllowDuplicateNames are checked for success and option-independence, not against a predicted value.",
        design_ref="5 (C08)"),
    "C09": dict(
        technique="two implementations driven by the same call programs; TLC validates each step against the refinement relation of V1.tla and calibrates the specification's automaton against the reference implementation; TLA+ state machine of encoding/json's Token/More/InputOffset over the token table, validated against both packages on programs over valid texts",
        text=("github.com/go-json-experiment/json/v1 and the toolchain's encoding/json execute the same programs - byte-string functions, Marshal/MarshalIndent of random values, Unmarshal into "
              "pre-populated targets, Decoder Token/More/Decode/InputOffset interleavings with UseNumber/DisallowUnknownFields, Encoder Encode/SetIndent/SetEscapeHTML sequences. TLC requires per "
              "step: succeed or fail together, identical bytes or identically rendered values on success, untouched target on syntactically invalid input, and (calibration) that classic Valid "
              "equals the specification's recogniser. Differences found on the unchanged tree were triaged: one repaired (fix: commit), two recorded as known findings with signatures computed by TLC."),
        note="Refinement checking between two executions (clause A of DESIGN 5/C09); the stream API state machine is not modelled independently. Sampled.",
        design_ref="5 (C09), 4.8"),
    "C10": dict(
        technique="TLA+ digit-string number semantics (normal form, ECMA-262 layout, integer syntax and ranges, Token.Int/Uint classification) with TLC-checked layout inverse and range twin; exhaustive replay of integer literals near every bound; TLC trace validation of float formatting/parsing with projection-supplied rounding facts",
        text=("Numbers.tla decides, without arithmetic wider than a digit, whether a literal is an integer spelling, whether it fits int8..uint64 (refusing fractions, exponents and any minus "
              "sign for unsigned types), the value and error class of Token.Int/Uint, and the ECMA-262 layout of (sign, digits, exponent). TLC proves the layout parses back to the same triple "
              "and that the range predicate equals integer arithmetic for the small types, and emits every literal within 12/400 of each power-of-two bound with variants; the harness replays "
              "them into all eight integer types plain, quoted and as map keys, and on the token accessors. Floats (stratified float64, float32 patterns, layout-switch neighbours) and "
              "literals (random, rounding midpoints, overflow thresholds) are logged with all formatting paths / conversion routes; TLC checks the layout and requires the projection's facts "
              "'round-trips', 'shortest', 'correctly rounded', 'error iff overflow'."),
        note="Arbitrary-precision kernels (shortest digits, nearest float) are delegated to strconv/math/big in the projection and stated as such; no exhaustive 2^32 float32 sweep through TLC.",
        design_ref="5 (C10), 7"),
    "C11": dict(
        technique="TLA+ Quote/GoDecode/Unquote with TLC-checked round-trip, per-character minimality and no-raw-character laws over all byte strings of a critical alphabet; exhaustive replay through 11 output paths x escape sets; literals replayed on unquoting paths; TLC trace validation of random Unicode",
        text=("Strings.tla defines the literal of a Go string under the escape options (each ill-formed byte becomes one U+FFFD) and JsonText independently defines the meaning of a literal. "
              "TLC proves for every byte string up to length 3/4 over 26 critical bytes that the literal is valid and means exactly the decoded string for all four escape sets, that each "
              "character has its shortest permitted spelling, and that no raw '<' '>' '&' / U+2028/9 remain under EscapeForHTML/JS; every string is replayed through AppendQuote, String tokens "
              "(value and name), Marshal, map keys, TextMarshaler/TextAppender (value and key), struct field names, \\u-escaped raw literals via WriteValue and via MarshalJSON, with and "
              "without AllowInvalidUTF8, and unquoted again. All literals over four escape alphabets are replayed on AppendUnquote, decoder tokens and Unmarshal. Random strings are validated by TLC."),
        note="PreserveRawStrings passthrough is part of C12's Format check (Format.tla!ReformatLit); bounded-exhaustive plus sampled.",
        design_ref="5 (C11), 4.4"),
    "C17": dict(
        technique="TLA+ dispatch model (ordered candidates, decline/policing rules) with TLC-checked ordering theorems over all configurations; exhaustive replay on a generated catalog of 81+8 Go types with scripted, logging methods and functions at 7+3 positions",
        text=("Dispatch.tla computes, for every assignment of receivers to MarshalerTo/Marshaler/TextAppender/TextMarshaler (and UnmarshalerFrom/Unmarshaler/TextUnmarshaler), every list of "
              "caller-supplied functions (for T and *T, with and without the coder) and every behaviour of the first two candidates (one value, none, two, partial, ErrUnsupported before/after "
              "use, error, Reset), which callables are invoked in which order and the outcome. TLC proves the invocation list is a prefix of the documented order, that nothing runs through a "
              "nil pointer and that only well-behaved callables yield success, and emits all ~53k configurations; the harness executes each on the generated catalog type at every position kind "
              "(addressable and non-addressable) and compares output, error, panic and the logged invocations."),
        note="Exhaustive over the bounded configuration space; map-key position and v1 legacy method semantics excluded.",
        design_ref="5 (C17), 4.6"),
    "C18": dict(
        technique="TLA+ pool model (ownership, reset/exit discipline) checked by TLC over all interleavings; stateful TLC trace validation of pool events logged by verif hooks (incl. post-reset residue); TLC validation of call histories against isolated references; race detector",
        text=("Pools.tla models coders being taken, reset, dirtied (normal, error and recovered-panic exits) and returned; TLC proves exclusive ownership and that no call starts on residue that can "
              "influence it, for 3 goroutines and 2 objects. The hooks under build tag verif log each hand-out (after reset, with buffered bytes, open containers, names, namespaces, tracked "
              "pointers and peek/offset residue) and each return; Trace_Pools steps the model through the logged events and rejects a hand-out of a held object, a return of an idle one, or any "
              "non-zero residue. 29 call descriptors are run alone in fresh processes and then in shuffled sequential histories and on 16 goroutines under -race; Trace_Iso requires every result to "
              "equal its isolated reference, returned data to be intact at the end (inputs overwritten), and zero race reports."),
        note="Sampled histories; Deterministic across processes is covered by references coming from separate processes; StringCache contents and buffer capacities are benign residue by design.",
        design_ref="5 (C18), 4.7, 6 (H1)"),
    "C19": dict(
        technique="TLA+ option store with setters and JoinOptions; TLC-checked grouping/last-wins/V2-cancels laws over all setter sequences; exhaustive replay on GetOption under 7 groupings; TLC trace validation of behavioural clauses (irrelevant options, call-scoped options, v1 == v2+DefaultOptionsV1)",
        text=("Options.tla models JoinOptions/GetOption as a map where later entries override earlier ones, with the composite setters made explicit. TLC proves for every sequence (all 73 "
              "constructor/argument pairs up to length 2, 20 class representatives up to length 3/4) that flat, joined, left-/right-nested and pairwise groupings give the same store, that the "
              "last setter wins and that DefaultOptionsV2 cancels the v1 options; the harness builds each grouping with the real constructors (also through NewEncoder/NewDecoder) and compares "
              "GetOption for all 34 keys. Random sequences with probe values/texts are executed for the behavioural clauses and validated by TLC: separately == joined == nested results; setters "
              "touching only keys the documentation marks as not affecting the operation change nothing; coder options equal Eval(A) before and after MarshalEncode/UnmarshalDecode with extra "
              "options on success, error and panic, and the probe's output is what Eval(A ++ B) prescribes; v1.Marshal/Unmarshal equal v2 with DefaultOptionsV1."),
        note="The probe output model covers StringifyNumbers/FormatNil*AsNull/OmitZeroStructFields; other option effects are compared relationally (equal results), not against a predicted value.",
        design_ref="5 (C19), 4.5"),
    "C20": dict(
        technique="depth limit as the MaxD parameter of the TLA+ automaton/Decoder/Encoder/Format models (TLC theorem with MaxD=3; real constant evaluated by TLC on logged executions); TLC-decided cycle reachability on logged Go heaps; crash-isolated drivers",
        text=("Texts, call programs and Go values nested 9999..10002 deep (arrays, objects, mixes; depth reached by tokens, by one value, or split) are executed on every path - token reads, "
              "ReadValue/SkipValue/IsValid/Unmarshal, Format/Compact/Canonicalize, WriteToken/WriteValue, Marshal - and TLC validates each logged outcome against the models instantiated with "
              "MaxD = 10000. Go heaps given as graphs (slices, maps, struct pointers, pointers) are marshaled in isolated child processes; Trace_C20 computes whether a cycle is reachable from "
              "the root and requires an error exactly then, and never a panic, crash or timeout. All other drivers log panics, which every trace spec rejects under C20."),
        note="The pointer/interface-only cycle that overflowed the stack (formerly K2) and the panic on excess padding in base32 data were repaired (fix: commits edc6f01, 75d5e79). Documented misuse panics are not provoked. Non-termination = 120 s timeout. Ill-formed encoded texts of the Arshal model's format family are replayed here: a panic is a mismatch with the predicted outcome.",
        design_ref="5 (C20)"),
}
