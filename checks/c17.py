"""C17 - user-defined (un)marshalers are dispatched and policed as documented.

Model:   spec/Dispatch.tla: the candidates for representing a value - caller-supplied functions
         in list order, then MarshalerTo/UnmarshalerFrom, Marshaler/Unmarshaler, TextAppender,
         TextMarshaler/TextUnmarshaler, then the default - are tried in order; only a callable
         that is handed the coder may decline with ErrUnsupported, and only if it did not touch
         the coder; anything but exactly one value is an error; Reset on the handed coder panics;
         nothing is invoked through a nil pointer.  MC_Dispatch checks with TLC over all
         configurations: the invoked callables are a prefix of the candidates in order, success
         is attributed to a callable that behaved, nothing runs on nil.
Replay:  a generated Go catalog (gen/gencatalog.py, offline) has one type per assignment of
         {absent, value receiver, pointer receiver} to the four marshal methods (81 types) and
         {absent, pointer receiver} to the three unmarshal methods (8 types); methods and
         caller-supplied functions (for T and *T, bytes-returning and coder-taking) follow a
         per-case script and log their invocation.  Each configuration is marshaled at 7
         positions (top level, pointer, field of a by-value struct, slice element, element of a
         by-value array, map value, behind an interface; with nil pointers) and unmarshaled at 3;
         output, error, panic and the invocation list are compared with the prediction.
"""
from common import Raw, tla_value

FL = [[], [{"to": True, "ptr": False}], [{"to": False, "ptr": True}], [{"to": True, "ptr": True}, {"to": False, "ptr": False}],
      [{"to": True, "ptr": False}, {"to": True, "ptr": True}]]
BEHS = {"ok", "zero", "two", "partial", "unsup", "unsupafter", "error", "reset", "nestreset"}


def run(ctx):
    ctx.build()
    total = 0
    for d in ("marshal", "unmarshal"):
        r = ctx.tlc("MC_Dispatch", name="MC_Dispatch_" + d, capture_lines=False,
                    consts={"EmitCases": True, "Behs": BEHS, "Dir": d, "FuncLists": Raw("{" + ", ".join(tla_value(x) for x in FL) + "}")},
                    invariants=("Ordered", "EmitInv"))
        s = ctx.replay_cases("disp", r.out)
        total += int(s.get("cases", 0))
        ctx.part("replay_" + d, configurations=s.get("cases"), executions=s.get("evaluations"))
    # functions for the types arbitrary JSON decodes into, applied to values behind `any`
    r = ctx.tlc("MC_AnyFuncs", capture_lines=False, consts={"Kinds": {"bool", "string", "float64", "map", "slice", "int", "int64", "strings", "other"}, "MaxFuncs": 3 if ctx.quick else 4, "EmitCases": True},
                invariants=("Law", "EmitInv"))
    s = ctx.replay_cases("anyf", r.out)
    total += int(s.get("cases", 0))
    ctx.part("replay_anyfuncs", lists=s.get("cases"), executions=s.get("evaluations"))
    ctx.sample({"type": "MarshalJSONTo on *T declining untouched, MarshalJSON on T", "position": "element of a by-value array",
                "expected_calls": ["to", "json"], "expected_output": '["json:val"]'})
    ctx.assumptions += [
        "behaviours are varied for the first two candidates of a configuration; later candidates answer with one value",
        "the options visible inside a call are checked in C19 (coder options before/after MarshalEncode/UnmarshalDecode)",
        "map keys and legacy (v1) method semantics are not part of the configuration space",
    ]
    ctx.cov["distinct_nontrivial"] = total
    ctx.cov["rule"] = "distinct (receiver assignment, function list, behaviours, nil) configurations, exhaustive over the bounded space; each at 7 (marshal) / 3 (unmarshal) positions"
    ctx.cov["exhaustive"] = True
