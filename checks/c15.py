"""C15 - struct fields map to members by the documented resolution rules.

Model:   spec/Fields.tla: candidates by breadth-first search through embedded structs; the
         shallowest field of a name wins, a single explicitly named one breaks a tie, otherwise
         all tied fields are dropped; members are marshaled in depth-first source order; lookup is
         exact first, then - for `case:ignore` fields or under MatchCaseInsensitiveNames unless
         `case:strict` - by folded name (case, '_' and '-' ignored) with ambiguity an error;
         omitzero / omitempty / string apply to the fields that carry them.  MC_Fields checks with
         TLC for every type graph of the universe that these rules select exactly the fields the
         implementation's sort-and-scan algorithm (also transcribed) selects, and that no two
         selected fields share a name.
Replay:  each type is built with reflect.StructOf, once with the `embed` tag option and once with Go
         embedding (anonymous fields), also via pointers; Marshal of values whose leaves hold distinct contents gives names, order
         and presence for the value classes full / zero / empty / nil embedded pointers, with and
         without OmitZeroStructFields; Unmarshal of {"probe": value} for 17 probe names x
         {MatchCaseInsensitiveNames} x {RejectUnknownMembers} shows which field received it, or
         that it was unknown / ambiguous.
         spec/Arshal.tla carries the per-field options over all modelled field types (pointers,
         containers, interfaces, nested structs): omitzero by the Go zero value (-0.0 and empty
         non-nil containers are not zero), omitempty by the encoded value (null, "", {}, []),
         `string` on numbers only (an error elsewhere), name matching per field; every value of a
         bounded universe is replayed with the exact predicted bytes and every input with the
         predicted field contents.
"""
from fieldfam import HAND, PROBES, WIDE, WIDE_PROBES, random_types


def run(ctx):
    ctx.build()
    n = 150 if ctx.quick else 4000
    total = 0
    plans = [("graphs", HAND + random_types(ctx.seed, n), PROBES), ("wide", WIDE, WIDE_PROBES)]
    for name, types, probes in plans:
        # TLC re-evaluates a constant tuple at every reference: keep the lists short, run the
        # chunks side by side
        chunks = [types[i:i + 200] for i in range(0, len(types), 200)]
        rs = ctx.tlc_parallel([dict(module="MC_Fields", name="MC_Fields_%s_%d" % (name, k), capture_lines=False, workers=2,
                                    consts={"Types": ch, "Probes": probes, "EmitCases": True},
                                    invariants=("RulesEqualAlgorithm", "UniqueNames", "EmitInv"), timeout=3000)
                               for k, ch in enumerate(chunks)], max_procs=8)
        cases = evals = skipped = 0
        for r in rs:
            s = ctx.replay_cases("fld", r.out)
            cases += int(s.get("cases", 0))
            evals += int(s.get("evaluations", 0))
            skipped += int(s.get("skipped_types", 0))
        total += cases
        ctx.part("replay_" + name, types=cases, executions=evals, skipped=skipped)
    # omitzero / omitempty / string / case options on fields of every modelled type (Arshal.tla):
    # exact Marshal output and the field each member is stored into, merged into existing values
    import arshalfam as af
    structs = [t for t in af.HAND + af.random_types(ctx.seed + 7, 200 if ctx.quick else 2000) if t["k"] == "struct" and t["f"]]
    total += af.run_model(ctx, "fields_m", af.within(structs, 1, 500 if ctx.quick else 5000, 10 ** 9), {"m"}, "C15")
    total += af.run_model(ctx, "fields_u", af.within(structs, 1, 300, 6000 if ctx.quick else 100000), {"u"}, "C15",
                          uopts=[af.O(), af.O(ci=True), af.O(ru=True), af.O(ci=True, ad=True)])
    # omitempty takes effect exactly when the member would be empty - also when the member was already
    # written to a streaming encoder and has to be retracted around a flush boundary
    sw = ctx.tv("arshal", "Trace_Arshal", {"seed": ctx.seed, "mode": "c07sweep", "step": 11 if ctx.quick else 2, "maxpad": 5200, "prop": "C15"}, consts={"MaxD": 10000})
    total += int(sw.get("cases", 0))
    ctx.sample({"type": "struct{ E1 struct{X int `json:\"A\"`} `json:\",embed\"`; E2 struct{A int} `json:\",embed\"` }",
                "rule": "both at depth 2, only X explicitly named A: X wins", "marshal": '{"A":<X>}'})
    ctx.assumptions += [
        "every type graph is built twice: embedded structs as fields with the documented `embed` tag option, and as Go-embedded (anonymous) fields; the resolution rules are the same for both",
        "names are ASCII: folding of non-ASCII letters (unicode.SimpleFold) is not modelled",
        "type graphs are a random sample of the grammar (depth <= 3, <= 3 entries per struct, 5 colliding names) plus hand-written corner cases and two wide structs (70 and 130 fields)",
    ]
    ctx.cov["distinct_nontrivial"] = total
    ctx.cov["rule"] = "distinct struct type graphs; each with 8 marshal value classes and 68 unmarshal probes"
