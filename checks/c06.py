"""C06 - Encoder enforces the grammar; a rejected call has no effect.

Model:   spec/Encoder.tla (WriteToken/WriteValue over the grammar automaton with the rendered
         output, on top of Format.tla/Strings.tla/Numbers.tla).  MC_Encoder checks with TLC on
         every reachable state that the rendered output is a viable JSON stream prefix whose
         byte-level parse has exactly the frames the token-level model keeps.
Replay:  every call program up to the length bound over 28 calls (tokens and raw values, valid,
         invalid, duplicate-producing) x 12 option sets, on a plain writer and a bytes.Buffer:
         accept/reject, OutputOffset, StackDepth, StackIndex, (scheduled) StackPointer after each
         call; delivered bytes are a prefix of the predicted output and equal it at depth 0.
TV:      long random programs (objects with > 64 names, large strings, many rejected calls in
         the middle) validated by TLC (Trace_Encoder).
"""
from encfam import CALLS_FULL, CALLS_SMALL, FMTS


def run(ctx):
    ctx.build()
    ctx.assumptions += [
        "number tokens are written with the decimal text given in the call alphabet (number formatting itself is C10)",
        "raw values under CanonicalizeRaw* are restricted to numbers whose canonical form the spec decides (<= 15 significant digits)",
    ]
    plans = [("full3", CALLS_FULL, FMTS, 3)] if ctx.quick else [("full3", CALLS_FULL, FMTS, 3), ("small5", CALLS_SMALL, FMTS[:6], 5), ("small4", CALLS_SMALL, FMTS, 4)]
    if ctx.quick:
        plans.append(("small4", CALLS_SMALL, FMTS[:4], 4))
    total = 0
    for name, calls, fmts, n in plans:
        r = ctx.tlc("MC_Encoder", name="MC_Encoder_" + name, capture_lines=False,
                    consts={"Calls": calls, "Fmts": fmts, "MaxCalls": n, "MaxD": 10000, "EmitCases": True},
                    invariants=("OutInv", "EmitInv"))
        s = ctx.replay_cases("enc", r.out)
        total += int(s.get("cases", 0))
        ctx.part("replay_" + name, programs=s.get("cases"), executions=s.get("evaluations"), calls_per_program=n,
                 alphabet=len(calls), option_sets=len(fmts))
    ctx.sample({"options": "Multiline", "program": ["{", '"a"', 'raw {"a":1,"\\u0061":2} (rejected)', "null", "}"],
                "predicted": "reject leaves offsets, stack and later output unchanged"})
    n = 150 if ctx.quick else 4000
    s2 = ctx.tv("enc", "Trace_Encoder", {"seed": ctx.seed, "n": n, "mode": "c06"}, consts={"MaxD": 10000})
    # depth at most 10000, reached by tokens, by a raw value, or split between both
    ctx.tv("enc", "Trace_Encoder", {"mode": "deep", "stride": 9 if ctx.quick else 2, "prop": "C06"}, consts={"MaxD": 10000})
    if s2.get("rejected_calls", 0) == 0:
        from common import MachineryError
        raise MachineryError("driver produced no rejected calls: vacuous")
    ctx.cov["distinct_nontrivial"] = total + n
    ctx.cov["rule"] = "distinct call programs (all sequences up to the bound over the call alphabet) x option sets; plus random programs of up to 400 calls"
