"""Type universes and the TLC / replay plumbing for the Arshal model (spec/Arshal.tla,
spec/MC_Arshal.tla).  Types are records of the model's type language; names are code points."""
import os
import random
from common import B

BOOL = {"k": "bool"}
STR = {"k": "str"}
FLOAT = {"k": "float"}
ANY = {"k": "any"}
BYTES = {"k": "bytes"}


def BARR(n):
    return {"k": "barr", "n": n}


def INT(bits, signed=True):
    return {"k": "int", "bits": bits, "signed": signed}


def SLICE(e):
    return {"k": "slice", "e": e}


def ARRAY(n, e):
    return {"k": "array", "n": n, "e": e}


def PTR(e):
    return {"k": "ptr", "e": e}


def MAP(key, e):
    return {"k": "map", "key": key, "e": e}


def F(name, t, omitzero=False, omitempty=False, string=False, casing=0, fmt=""):
    return {"name": [ord(ch) for ch in name], "t": t, "omitzero": omitzero, "omitempty": omitempty, "str": string, "casing": casing, "fmt": fmt}


DUR = {"k": "dur"}
TIME = {"k": "time"}
DURFMTS = ["sec", "milli", "micro", "nano"]
TIMEFMTS = ["unix", "unixmilli", "unixmicro", "unixnano"]


def STRUCT(*fields, fb=None):
    """fb: element type of an embedded fallback map[string]fb"""
    return {"k": "struct", "f": list(fields), "fb": [fb] if fb is not None else []}


DEFAULT = {"det": False, "nsn": False, "nmn": False, "oz": False, "sn": False, "ru": False, "ci": False, "ad": False}


def O(**kw):
    d = dict(DEFAULT)
    d.update(kw)
    return d


SCALARS = [BOOL, STR, FLOAT, INT(8), INT(16, False), INT(32), INT(64), INT(64, False), BYTES]

MOPTS = [O(), O(det=True), O(det=True, nsn=True, nmn=True), O(det=True, oz=True), O(det=True, sn=True), O(sn=True, oz=True, nsn=True)]
UOPTS = [O(), O(sn=True), O(ru=True), O(ci=True), O(ad=True), O(ad=True, ci=True)]

# hand-written corner types
HAND = [
    INT(8), INT(64, False), FLOAT, STR, BOOL, ANY,
    SLICE(INT(16, False)), SLICE(STR), SLICE(ANY), SLICE(SLICE(BOOL)), SLICE(PTR(INT(8))),
    ARRAY(0, INT(8)), ARRAY(1, STR), ARRAY(2, INT(32)), ARRAY(2, PTR(BOOL)), ARRAY(1, SLICE(INT(8))),
    PTR(STR), PTR(PTR(INT(8))), PTR(SLICE(STR)), PTR(ANY), PTR(MAP(STR, INT(8))),
    MAP(STR, FLOAT), MAP(STR, ANY), MAP(INT(8), STR), MAP(INT(16, False), BOOL), MAP(STR, SLICE(INT(8))), MAP(STR, PTR(STR)),
    MAP(STR, MAP(STR, INT(8))), MAP(INT(64), ANY),
    STRUCT(F("a", BOOL), F("B", SLICE(STR), omitempty=True), F("c", INT(64), string=True)),
    STRUCT(F("a", INT(8), omitzero=True), F("b", PTR(INT(8)), omitzero=True), F("c", PTR(INT(8)), omitempty=True)),
    STRUCT(F("x", ANY), F("y", ANY, omitempty=True), F("z", ANY, omitzero=True)),
    STRUCT(F("Ab", STR, casing=1), F("a_b", STR, casing=2), F("AB", STR)),
    STRUCT(F("k", INT(8), casing=1), F("\u212a", STR), F("\u03c3x", BOOL, casing=1), F("S", STR, casing=2)),
    STRUCT(F("s", DUR, fmt="sec"), F("m", DUR, fmt="milli", omitzero=True), F("u", PTR(DUR), fmt="micro"), F("n", DUR, fmt="nano", string=True)),
    STRUCT(F("s", TIME, fmt="unix", omitzero=True), F("m", TIME, fmt="unixmilli")), STRUCT(F("u", TIME, fmt="unixmicro", string=True), F("n", PTR(TIME), fmt="unixnano")),
    STRUCT(F("bad", DUR), F("ok", INT(8))), STRUCT(F("bad", DUR, fmt="unix"), F("bad2", INT(8), fmt="sec")), STRUCT(F("bad", TIME, fmt="sec"), F("l", SLICE(DUR), fmt="sec")),
    STRUCT(F("a", INT(8)), F("b", STR, omitempty=True), fb=ANY), STRUCT(F("Ab", INT(8), casing=1, omitzero=True), fb=INT(8)),
    STRUCT(fb=SLICE(INT(8))), STRUCT(F("p", PTR(BOOL)), fb=MAP(STR, INT(8))), PTR(STRUCT(F("a", BOOL), fb=STR)),
    STRUCT(fb=PTR(MAP(STR, INT(8)))), STRUCT(F("a", BOOL), fb=PTR(STRUCT(F("x", INT(8)), F("y", INT(8))))), STRUCT(fb=STRUCT(F("x", INT(8)), F("y", PTR(INT(8))))),
    BYTES, BARR(0), BARR(2), SLICE(BYTES), MAP(STR, BYTES), PTR(BARR(1)),
    STRUCT(F("b", BYTES, omitempty=True), F("z", BYTES, omitzero=True), F("a", BARR(2), omitzero=True), F("e", BARR(0), omitempty=True), F("s", BYTES, string=True, omitempty=True)),
    STRUCT(F("n", FLOAT, string=True), F("p", PTR(INT(16, False)), string=True), F("s", STR, string=True), F("b", BOOL, string=True)),
    STRUCT(F("bad", SLICE(INT(8)), string=True, omitempty=True), F("ok", INT(8))),
    STRUCT(F("m", MAP(STR, INT(8)), string=True), F("ok", INT(8))),
    STRUCT(F("in", STRUCT(F("a", INT(8)), F("b", STR, omitempty=True)), omitzero=True), F("p", PTR(STRUCT(F("a", INT(8)))), omitempty=True)),
    STRUCT(F("e", STRUCT(), omitempty=True), F("pe", PTR(STRUCT()), omitempty=True), F("z", ARRAY(0, INT(8)), omitempty=True)),
    STRUCT(F("f", FLOAT, omitzero=True), F("m", MAP(STR, STR), omitempty=True), F("s", SLICE(INT(8)), omitzero=True)),
    SLICE(STRUCT(F("a", INT(8)), F("b", STR))), MAP(STR, STRUCT(F("a", INT(8)), F("b", PTR(STR)))),
    PTR(STRUCT(F("a", SLICE(INT(8))), F("m", MAP(STR, INT(8))))),
]

ANYFAM = [ANY, SLICE(ANY), MAP(STR, ANY), PTR(ANY), ARRAY(1, ANY), STRUCT(F("x", ANY), F("y", INT(8))), MAP(STR, SLICE(ANY)), PTR(PTR(ANY))]
ANY_UOPTS = [O(), O(ad=True), O(sn=True), O(sn=True, ad=True), O(ru=True, ci=True)]

# the `format` options of byte strings (the encodings of RFC 4648, lists of numbers), of floats
# (non-finite values) and of slices and maps (how a nil one is written)
BINFMTS = ["base64", "base64url", "base32", "base32hex", "base16", "hex", "array"]
FMTFAM = (
    [STRUCT(F("b", BYTES, fmt=f)) for f in BINFMTS] + [STRUCT(F("a", BARR(2), fmt=f)) for f in ["base32", "hex", "array", "base64url"]]
    + [STRUCT(F("b", BYTES, fmt="base32", omitempty=True), F("p", PTR(BYTES), fmt="hex"), F("a", BARR(3), fmt="base32hex", omitzero=True)),
       STRUCT(F("z", BARR(0), fmt="array", omitempty=True), F("n", BYTES, fmt="array", omitempty=True), F("u", BARR(1), fmt="base16")),
       STRUCT(F("bad", BYTES, fmt="emitnull"), F("ok", BOOL)), STRUCT(F("bad", BARR(1), fmt="nonfinite")), STRUCT(F("bad", STR, fmt="base64")),
       STRUCT(F("f", FLOAT, fmt="nonfinite"), F("g", FLOAT)), STRUCT(F("f", PTR(FLOAT), fmt="nonfinite", omitzero=True), F("s", FLOAT, fmt="nonfinite", string=True)),
       STRUCT(F("bad", FLOAT, fmt="emitnull")), STRUCT(F("bad", INT(8), fmt="nonfinite")), STRUCT(F("l", SLICE(FLOAT), fmt="nonfinite")),
       STRUCT(F("s", SLICE(INT(8)), fmt="emitnull"), F("t", SLICE(INT(8)), fmt="emitempty"), F("u", SLICE(INT(8)))),
       STRUCT(F("m", MAP(STR, BOOL), fmt="emitnull"), F("n", MAP(STR, BOOL), fmt="emitempty"), F("o", MAP(STR, BOOL))),
       STRUCT(F("s", SLICE(STR), fmt="emitnull", omitempty=True), F("m", MAP(STR, STR), fmt="emitempty", omitzero=True), F("p", PTR(SLICE(BOOL)), fmt="emitnull")),
       STRUCT(F("bad", SLICE(BOOL), fmt="array")), STRUCT(F("bad", MAP(STR, BOOL), fmt="base64")), STRUCT(F("bad", ARRAY(1, BOOL), fmt="emitnull")),
       STRUCT(F("d", DUR, fmt="iso8601")), STRUCT(F("d", PTR(DUR), fmt="iso8601", omitzero=True), F("s", DUR, fmt="iso8601", string=True), F("n", DUR, fmt="nano")),
       MAP(STR, STRUCT(F("d", DUR, fmt="iso8601", omitempty=True))),
       STRUCT(F("bad", ANY, fmt="emitnull"), F("ok", BOOL)), STRUCT(F("b", SLICE(BYTES), fmt="emitnull"), F("c", MAP(STR, BYTES), fmt="emitempty"))]
)
FMT_MOPTS = [O(det=True), O(det=True, nsn=True, nmn=True), O(det=True, sn=True), O(det=True, oz=True)]
FMT_UOPTS = [O(), O(sn=True)]

DUPFAM = [
    STRUCT(F("a", INT(8)), F("Ab", INT(8), casing=1), fb=INT(8)), STRUCT(F("a", MAP(STR, INT(8))), fb=MAP(STR, INT(8))),
    MAP(STR, INT(8)), MAP(INT(8), INT(8)), MAP(INT(16, False), STR), MAP(STR, MAP(STR, INT(8))), MAP(STR, ANY), ANY,
    STRUCT(F("a", INT(8)), F("b", STR)), STRUCT(F("Ab", INT(8), casing=1), F("ab", INT(8))), STRUCT(F("a", MAP(STR, INT(8))), F("b", SLICE(INT(8)))),
    STRUCT(F("a", STRUCT(F("x", INT(8)), F("y", INT(8)))), F("b", PTR(STRUCT(F("x", INT(8)))))),
    SLICE(MAP(STR, BOOL)), PTR(STRUCT(F("k", BOOL), F("K", BOOL))),
]
DUP_UOPTS = [O(), O(ad=True), O(ci=True), O(ad=True, ci=True)]


def random_types(seed, n, depth=3):
    r = random.Random(seed)
    names = ["a", "B", "a_b", "Ab", "c", "x1"]

    def gen(d):
        k = r.random()
        if d <= 0 or k < 0.3:
            return r.choice(SCALARS + [ANY])
        if k < 0.42:
            return SLICE(gen(d - 1))
        if k < 0.5:
            return ARRAY(r.choice([0, 1, 2]), gen(d - 1))
        if k < 0.6:
            return PTR(gen(d - 1))
        if k < 0.72:
            return MAP(r.choice([STR, STR, INT(8), INT(16, False), INT(64)]), gen(d - 1))
        fs = []
        used = set()
        for _ in range(r.randint(0, 3)):
            nm = r.choice([x for x in names if x not in used])
            used.add(nm)
            t = gen(d - 1)
            fmt = ""
            if r.random() < 0.12:
                t, fmt = r.choice([(DUR, r.choice(DURFMTS)), (TIME, r.choice(TIMEFMTS)), (PTR(DUR), r.choice(DURFMTS))])
            numeric = t["k"] in ("int", "float", "dur", "time") or (t["k"] == "ptr" and t["e"]["k"] in ("int", "float"))
            fs.append(F(nm, t, omitzero=r.random() < 0.2, omitempty=r.random() < 0.2,
                        string=(r.random() < (0.3 if numeric else 0.04)), casing=r.choice([0, 0, 0, 1, 2]), fmt=fmt))
        return STRUCT(*fs, fb=(r.choice([ANY, INT(8), STR, SLICE(BOOL)]) if r.random() < 0.15 else None))

    return [gen(depth) for _ in range(n)]


def _dec(d):
    return d - 1 if d > 0 else 0


def _extra_values(t, f):
    if t["k"] == "float" and f:
        return 3
    if t["k"] == "dur" and f == "iso8601":
        return 3
    if t["k"] == "ptr":
        return _extra_values(t["e"], f)
    return 0


def _extra_inputs(t, f):
    if t["k"] in ("bytes", "barr"):
        return {"base32": 17, "base32hex": 8, "base64": 7, "base64url": 7, "base16": 11, "hex": 11, "array": 8}.get(f, 0)
    if t["k"] == "dur" and f == "iso8601":
        return 38
    if t["k"] == "float" and f:
        return 6
    if t["k"] == "ptr":
        return _extra_inputs(t["e"], f)
    return 0


def count_values(t, d):
    """|Values(t, d)| of MC_Arshal.tla"""
    k = t["k"]
    if k == "bool":
        return 2
    if k == "str":
        return 2 if d == 0 else 3
    if k == "int":
        return 2 if d == 0 else (5 if t["signed"] else 3)
    if k == "float":
        return 2 if d == 0 else 6
    if k == "dur":
        return 3 if d == 0 else 7
    if k == "time":
        return 4 if d == 0 else 12
    if k == "bytes":
        return 3 if d == 0 else 6
    if k == "barr":
        return 2
    if k == "slice":
        return 1 + count_values(t["e"], _dec(d)) + (0 if d == 0 else 1 + count_values(t["e"], 0) ** 2)
    if k == "array":
        return count_values(t["e"], 0 if t["n"] > 1 else _dec(d)) ** t["n"]
    if k == "map":
        return 1 + count_values(t["e"], _dec(d)) + (0 if d == 0 else 1 + count_values(t["e"], 0) ** 2)
    if k == "ptr":
        return 1 + count_values(t["e"], d)
    if k == "any":
        return 3 if d == 0 else 8
    n = 1
    for f in t["f"]:
        n *= count_values(f["t"], _dec(d)) + _extra_values(f["t"], f["fmt"])
    if t.get("fb"):
        n *= 2 + count_values(t["fb"][0], 0) * (3 if t["f"] else 1)
    return n


def count_inputs(t, d):
    """upper bound of |Inputs(t, d)| of MC_Arshal.tla"""
    k = t["k"]
    if k == "bool":
        return 3 if d == 0 else 5
    if k == "str":
        return 3 if d == 0 else 6
    if k == "int":
        return 6 if d == 0 else 17
    if k == "float":
        return 4 if d == 0 else 14
    if k in ("dur", "time"):
        return 5 if d == 0 else 28
    if k in ("bytes", "barr"):
        return 5 if d == 0 else 17
    if k == "slice":
        return 2 + count_inputs(t["e"], _dec(d)) + (0 if d == 0 else 2 + count_inputs(t["e"], 0) ** 2)
    if k == "array":
        return 4 + count_inputs(t["e"], 0 if t["n"] > 1 else _dec(d)) ** t["n"]
    if k == "map":
        return 2 + count_inputs(t["e"], _dec(d)) + (0 if d == 0 else 4 + 2 * count_inputs(t["e"], 0) ** 2)
    if k == "ptr":
        return count_inputs(t["e"], d)
    if k == "any":
        return 6 if d == 0 else 15
    n = 2
    if t.get("fb"):
        n += count_inputs(t["fb"][0], _dec(d)) + count_inputs(t["fb"][0], 0) ** 2
    for f in t["f"]:
        n += count_inputs(f["t"], _dec(d)) + _extra_inputs(f["t"], f["fmt"])
    if d > 0:
        n += 3
        for f in t["f"]:
            c0 = count_inputs(f["t"], 0)
            n += 2 * c0 + 2 * c0 * c0
        for f in t["f"]:
            for g in t["f"]:
                n += count_inputs(f["t"], 0) * count_inputs(g["t"], 0)
    return n


def within(types, D, max_values, max_pairs):
    """the types whose universe stays within the budget"""
    out = []
    for t in types:
        v, i = count_values(t, D), count_inputs(t, D)
        if v <= max_values and v * i <= max_pairs and i * i <= max_pairs:
            out.append(t)
    return out


def run_model(ctx, name, types, modes, prop, mopts=MOPTS, uopts=UOPTS, D=1, laws=True, timeout=3000):
    """TLC enumerates the universe, checks the model theorems and emits every case with the
    predicted outcome; the harness replays the cases on the library."""
    inv = []
    if laws:
        if "m" in modes:
            inv += ["ParseRender", "RoundTrip", "CodecLaws"]
        if "g" in modes:
            inv += ["MergeLaw"]
        if "u" in modes:
            inv += ["FrameLaw"]
    emit = "m" in modes or "u" in modes
    if emit:
        inv += ["EmitM", "EmitU"]
    # TLC re-evaluates a constant tuple at every reference: keep the type lists short
    cases = states = 0
    chunks = [types[i:i + 120] for i in range(0, len(types), 120)]
    for k, ch in enumerate(chunks):
        r = ctx.tlc("MC_Arshal", name="MC_Arshal_%s_%d" % (name, k), capture_lines=False,
                    consts={"Types": ch, "D": D, "MOpts": mopts, "UOpts": uopts, "Modes": set(modes), "EmitCases": emit},
                    invariants=tuple(inv), timeout=timeout)
        states += r.distinct
        if emit:
            s = ctx.replay_cases("arshal", r.out, prop=prop)
            cases += int(s.get("cases", 0))
            os.remove(r.out)          # the case files are large
    ctx.part("arshal_model_" + name, types=len(types), modes="".join(sorted(modes)), D=D, states=states,
             replayed=cases, theorems=[x for x in inv if not x.startswith("Emit")])
    return cases
