"""Shared pieces of the Decoder-family checks (C05, C16, C20)."""

DOCS = [
    '[1,{"a":2}]', '{"a":{"b":[]},"c":1} 2', '[1,]', '{"a":1,"a":2}', '[[1] ', ' "x" true', '[1 2]',
    '{"a" 1}', '[tru]', '12', '{"a":[1,"\\u00e9"]}', '["\\ud83d\\ude00",-1.5e+3]', '{"":[]}',
    '[[[[0]]]]', 'nul', '[1,2', '{"a":1}x', '"\xc3\xa9"', '{"a":"\\ud800"}', '[-0.0e0,0]', '{"~/":{"0":[[]]}}', '{[a', '{"a":1,-x', '0123', '[1,00]', '-012 ', '{"a":07}', '"\\uD83D\\uDE00"', '["\\udbff\\uDFFF"]',
    '[tr]', '[nulL]', '"\\u00"', '"ab\\', '[1.0E-2,2e+1]', '1e5 2', '[0e1,0.5]', '"\\ud800\\u0041"', '{"\\u0061":1,"a":2}', '[{"b":1]', '{"a":{"b":1]',
]


def mc_decoder(ctx, calls, emit=True, docs=None):
    docs = docs or DOCS
    return ctx.tlc("MC_Decoder", capture_lines=False,
                   consts={"Docs": [list(d.encode("latin-1")) for d in docs], "MaxCalls": calls, "MaxD": 10000,
                           "EmitCases": emit},
                   invariants=("ParseInv", "PathEq", "NoEffect", "EmitInv"))
