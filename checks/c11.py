"""C11 - string escaping is lossless, minimal, and honours the escape options.

Model:   spec/Strings.tla: Quote (RFC 8785 section 3.2.2.2 plus EscapeForHTML/EscapeForJS),
         GoDecode (each ill-formed byte -> one U+FFFD), ReformatLit (raw literals passed through,
         with and without PreserveRawStrings).  MC_Strings checks with TLC over all byte strings up
         to the bound over 26 critical bytes: the literal is valid and means exactly the decoded
         string (JsonText is the independent reader), every character has its shortest permitted
         spelling, no raw '<' '>' '&' / U+2028 U+2029 under the escape options.  MC_Unquote
         enumerates literals over escape alphabets with their meaning.
Replay:  every string x 4 escape sets x AllowInvalidUTF8 through 11 paths (AppendQuote, String
         token as value and as name, Marshal, map key, TextMarshaler, TextAppender, text map key,
         struct field name, \\u-escaped raw literal through WriteValue and through a MarshalJSON
         method) and back through AppendUnquote; every literal through AppendUnquote, decoder
         tokens and Unmarshal into string.
TV:      random Unicode from all planes, single bytes, byte pairs, damaged sequences, validated
         by TLC (Trace_Strings).  PreserveRawStrings passthrough is decided with C12 (Format.tla).
"""
from common import B

BYTES = {0x00, 0x1f, 0x22, 0x5c, 0x2f, 0x3c, 0x26, 0x3e, 0x7f, 0x61, 0xc3, 0xa9, 0xe2, 0x80, 0xa8, 0xed, 0xa0, 0xef, 0xbf,
         0xbd, 0xf0, 0x90, 0xf4, 0x8f, 0xff, 0x0a}

LITS = [("escapes", '"\\/bfnrtu0a', '"', 4, 5), ("hex", '0189aAfFdD"', '"\\u', 5, 6),
        ("surrogates", '\\udcDC08"a', '"\\ud83d', 7, 8), ("utf8", None, '"', 3, 4)]


def run(ctx):
    ctx.build()
    n = 3 if ctx.quick else 4
    r = ctx.tlc("MC_Strings", capture_lines=False, consts={"Bytes": BYTES, "MaxLen": n, "EmitCases": True},
                invariants=("RoundTrip", "Minimal", "NoRaw", "EmitInv"))
    s = ctx.replay_cases("str", r.out)
    ctx.part("replay_strings", strings=s.get("cases"), executions=s.get("evaluations"), max_len=n)
    total = int(s.get("cases", 0))
    for name, alpha, prefix, lq, lt in LITS:
        a = set(B(alpha)) if alpha else {0x22, 0x61, 0x80, 0xbf, 0xc2, 0xe0, 0xa0, 0xed, 0x9f, 0xf0, 0x90, 0xf4, 0x8f, 0xff}
        r = ctx.tlc("MC_Unquote", name="MC_Unquote_" + name, capture_lines=False,
                    consts={"Alphabet": a, "Prefix": B(prefix), "MaxLen": lq if ctx.quick else lt, "EmitCases": True},
                    invariants=("Stable", "EmitInv"))
        s = ctx.replay_cases("unq", r.out)
        total += int(s.get("cases", 0))
        ctx.part("replay_literals_" + name, literals=s.get("cases"), executions=s.get("evaluations"))
    ctx.sample({"go_string_bytes": [0x3c, 0xe2, 0x80, 0xa8, 0xff], "escape": "html+js, AllowInvalidUTF8",
                "literal": '"\\u003c\\u2028�"'})
    m = 2500 if ctx.quick else 60000
    ctx.tv("str", "Trace_Strings", {"seed": ctx.seed, "n": m})
    ctx.assumptions += ["struct field names are exercised only for valid UTF-8 names (invalid names are rejected when the type is analysed)"]
    ctx.cov["distinct_nontrivial"] = total + m
    ctx.cov["rule"] = "distinct Go strings (exhaustive over the byte alphabet) and distinct literals (exhaustive over escape alphabets); each through all paths"
