"""C02 - Marshal never emits malformed JSON, whatever the value or user code does.

Model:   the JSON recogniser of the specification (JsonText, checked against the grammar in
         C01's MC run) under the effective options; Trace_Arshal!CheckValid states the property:
         a route that returned a nil error produced exactly one valid JSON value, and all routes
         (Marshal, MarshalWrite to a bytes.Buffer and to a plain writer, MarshalEncode) agree.
TV:      Go values of random reflect-built types (scalars, strings with invalid UTF-8, bytes,
         slices, arrays, maps with every key kind incl. NaN / any / text-marshaler keys, pointers,
         interfaces, raw values, structs with random tags, > 64 fields) with user-supplied
         MarshalJSON / MarshalJSONTo / MarshalText / AppendText / MarshalFunc / MarshalToFunc that
         return arbitrary bytes, write 0/1/2 values, leave an object open, return ErrUnsupported
         after writing, or swallow errors of nested MarshalEncode calls; 10 option sets.
"""


def run(ctx):
    ctx.build()
    # the recogniser used as oracle is the one the grammar twin vouches for
    from common import B
    ctx.tlc("MC_C01", name="MC_C01_oracle", capture_lines=False,
            consts={"Alphabet": set(B('{}[],:" a01')), "Prefix": [], "MaxLen": 4 if ctx.quick else 6, "MaxD": 2, "EmitCases": False, "CheckTwin": True},
            invariants=("TwinInv", "MonoInv"))
    n = 6000 if ctx.quick else 200000
    s = ctx.tv("arshal", "Trace_Arshal", {"seed": ctx.seed, "n": n, "mode": "c02"}, consts={"MaxD": 10000})
    ctx.part("driver", **{k: v for k, v in s.items() if not k.startswith("_")})
    if s.get("succeeded", 0) < n // 10:
        from common import MachineryError
        raise MachineryError("too few successful Marshal calls: vacuous")
    ctx.assumptions += ["the value/type generator is the quantifier: types outside it (channels, funcs, unexported embedded types) are not explored"]
    ctx.cov["distinct_nontrivial"] = n
    ctx.cov["rule"] = "random (type, value, user-code behaviours, option set) tuples; each regenerated from a logged 128-bit seed"
