"""C04 - Marshal then Unmarshal restores the value (round trip).

Model:   Trace_Arshal!CheckRoundTrip: out1 = Marshal(v) is valid JSON (JsonText), Unmarshal
         accepts it, out2 = Marshal(decoded) denotes the same value tree as out1 (JsonValue
         Meaning, member order ignored unless Deterministic, bytes identical with it), out3 is a
         fixed point, and where Go equality is meaningful the decoded value equals v.
TV:      random reflect-built types (nesting <= 5, up to 140 fields, tag options omitzero /
         omitempty / string / names needing escapes, time values, raw values, untyped values, map
         keys of several kinds) x 10 symmetric option sets.  Number exactness (full 64-bit
         integers, identical float bits) is part of the Go-side equality fact and of C10's check.
"""


def run(ctx):
    ctx.build()
    n = 5000 if ctx.quick else 200000
    s = ctx.tv("arshal", "Trace_Arshal", {"seed": ctx.seed, "n": n, "mode": "c04"}, consts={"MaxD": 10000})
    ctx.part("driver", **{k: v for k, v in s.items() if not k.startswith("_")})
    ctx.assumptions += [
        "Go equality of the decoded value with the original (nil/empty identified, floats by bits, times by Equal) is computed by the harness and required TRUE by the spec when meaningful (no omit options, no untyped or raw members)",
        "values without a JSON representation under the option set (e.g. time.Duration without a format) are skipped",
    ]
    ctx.cov["distinct_nontrivial"] = n
    ctx.cov["rule"] = "random (type, value, option set) triples regenerated from logged seeds"
