"""C04 - Marshal then Unmarshal restores the value (round trip).

Model:   Trace_Arshal!CheckRoundTrip: out1 = Marshal(v) is valid JSON (JsonText), Unmarshal
         accepts it, out2 = Marshal(decoded) denotes the same value tree as out1 (JsonValue
         Meaning, member order ignored unless Deterministic, bytes identical with it), out3 is a
         fixed point, and where Go equality is meaningful the decoded value equals v.
TV:      random reflect-built types (nesting <= 5, up to 140 fields, tag options omitzero /
         omitempty / string / names needing escapes, time values, raw values, untyped values, map
         keys of several kinds) x 10 symmetric option sets.  Number exactness (full 64-bit
         integers, identical float bits) is part of the Go-side equality fact and of C10's check.
MC:      spec/Arshal.tla is the documented type-directed mapping between Go values and JSON
         (Marshal, Unmarshal with merge semantics, omit options, string option, name matching).
         MC_Arshal enumerates every value of every type of a bounded universe x 6 option sets and
         proves on the model: Unmarshal accepts Marshal(v), marshaling the decoded value gives the
         same JSON value, the decoded value equals v up to nil/empty (RoundTrip); the compact
         rendering reads back through the byte automaton (ParseRender).
         The `format` options are part of the model: the encodings of RFC 4648 (one general
         codec, proved to agree with the transcription of section 4 for Base 64 and to read back
         what it writes: CodecLaws), byte strings as lists of numbers, non-finite floats,
         emitnull / emitempty.
Replay:  every (type, value, options) with the exact bytes the model predicts, on Marshal by
         pointer and by value (types and values built with reflect); for the format family also
         every (type, old value, text) with the predicted Unmarshal result.
TV:      (model) random types inside the modelled fragment (any nesting, up to 140 fields, tag
         options, names needing escapes), random values; TLC (Trace_ArshalModel) recomputes the
         exact bytes under 5 option sets with Deterministic.
"""


def run(ctx):
    ctx.build()
    n = 5000 if ctx.quick else 200000
    s = ctx.tv("arshal", "Trace_Arshal", {"seed": ctx.seed, "n": n, "mode": "c04"}, consts={"MaxD": 10000})
    ctx.part("driver", **{k: v for k, v in s.items() if not k.startswith("_")})
    ctx.assumptions += [
        "Go equality of the decoded value with the original (nil/empty identified, floats by bits, times by Equal) is computed by the harness and required TRUE by the spec when meaningful (no omit options, no untyped or raw members)",
        "values without a JSON representation under the option set (e.g. time.Duration without a format) are skipped",
    ]
    # the type-directed model: exact Marshal output for every value of a bounded universe,
    # round trip proved on the model by TLC
    import arshalfam as af
    D = 1 if ctx.quick else 2
    types = af.within(af.HAND + af.random_types(ctx.seed, 150 if ctx.quick else 1500), D, 400 if ctx.quick else 3000, 10 ** 9)
    m = af.run_model(ctx, "marshal", types, {"m"}, "C04", D=D)
    # the `format` options: every encoding of RFC 4648 for byte strings and byte arrays, lists of
    # numbers, non-finite floats, nil slices and maps written as null or as empty - written, and
    # read from well-formed and ill-formed texts (wrong alphabet, missing, excess and misplaced
    # padding, line breaks)
    af.run_model(ctx, "formats_m", af.FMTFAM, {"m"}, "C04", mopts=af.FMT_MOPTS, D=D)
    af.run_model(ctx, "formats_u", af.within(af.FMTFAM, D, 400, 30000 if ctx.quick else 10 ** 6), {"u"}, "C04", uopts=af.FMT_UOPTS, D=D, laws=False)
    # random types, values and sizes far beyond the enumerated universe, validated by TLC against
    # the same model: the exact bytes Marshal returned
    nm = 8000 if ctx.quick else 400000
    ctx.tv("arshalmodel", "Trace_ArshalModel", {"seed": ctx.seed, "n": nm, "kinds": "m", "prop": "C04"})
    ctx.assumptions.append("Arshal model: bool, string, float64 (<= 15 significant digits), integers of 8..64 bits, slices, arrays, maps keyed by strings or integers, pointers, any, structs with omitzero/omitempty/string/case options; 6 marshal option sets")
    ctx.cov["distinct_nontrivial"] = n
    ctx.cov["rule"] = "random (type, value, option set) triples regenerated from logged seeds"
