"""Struct type graphs for the field-resolution check (C15)."""
import random


def B(s):
    """a name as its code points"""
    return [ord(ch) for ch in s]


NAMES = ["a", "A", "a_b", "AB", "b"]
# names that are equal only under Unicode simple case folding (Fields.tla!FoldSets): the Kelvin
# sign and k, the three sigmas, the three forms of dz with caron
FOLDNAMES = ["k", "\u212a", "\u03c3", "\u03c2", "\u01c5"]


def leaf(go, name=None, casing=0, omitzero=False, omitempty=False, string=False, kind="int"):
    return {"go": go, "name": B(name if name is not None else go), "hasName": name is not None, "embed": False, "ptr": False, "sub": [],
            "casing": casing, "omitzero": omitzero, "omitempty": omitempty, "str": string, "kind": kind}


def embed(go, sub, ptr=False):
    return {"go": go, "name": B(go), "hasName": False, "embed": True, "ptr": ptr, "sub": sub,
            "casing": 0, "omitzero": False, "omitempty": False, "str": False, "kind": "int"}


HAND = [
    [leaf("A"), embed("E1", [leaf("A"), leaf("B")])],                                   # shallower wins
    [embed("E1", [leaf("A")]), embed("E2", [leaf("A")])],                               # tie, both dropped
    [embed("E1", [leaf("A", "x")]), embed("E2", [leaf("B", "x")])],                     # tie of tagged: dropped
    [embed("E1", [leaf("X", "A")]), embed("E2", [leaf("A")])],                          # tagged breaks the tie
    [embed("E1", [leaf("A"), embed("E3", [leaf("A", "A")])]), embed("E2", [leaf("B")])],  # depth beats tag
    [leaf("A", "a"), leaf("B", "A"), leaf("C", "a_b", casing=1), leaf("D", "AB", casing=2)],
    [leaf("A", "ab"), leaf("B", "a_b"), leaf("C", "A-B")],                              # ambiguity under folding
    [embed("E1", [leaf("A", "n"), leaf("B")], ptr=True), leaf("C", "n")],
    [leaf("A", omitzero=True), leaf("B", omitempty=True, kind="str"), leaf("C", omitempty=True, kind="slice"), leaf("D", string=True),
     leaf("E", omitzero=True, kind="slice"), leaf("F", omitempty=True)],
    [leaf("A", "k", casing=1), leaf("B", "\u03c3"), leaf("C", "\u01c5", casing=2), leaf("D", "\u03c2", casing=1)],                  # folding beyond ASCII
    [leaf("A", "\u212a"), leaf("B", "K", casing=1), leaf("C", "s"), leaf("D", "\u017f")],
    # three and four levels of embedding, several fields innermost (index paths of length 4 and 5)
    [embed("E1", [embed("E2", [embed("E3", [leaf("X"), leaf("Y"), leaf("Z")])])]), leaf("W")],
    [embed("E1", [embed("E2", [embed("E3", [embed("E4", [leaf("X"), leaf("Y", kind="str")]), leaf("V")], ptr=True)])], ptr=True)],
    [embed("E1", [leaf("A"), embed("E2", [leaf("B"), embed("E3", [leaf("C"), leaf("D"), leaf("A", "a")])])])],
    # one struct type reached twice at the same depth, with embedded structs of its own (diamond)
    [embed("L", [embed("M", [embed("Lf", [leaf("Y")]), leaf("X")])]), embed("R", [embed("M", [embed("Lf", [leaf("Y")]), leaf("X")])])],
    [embed("M1", [embed("Lf", [leaf("Y")]), leaf("X")]), embed("M2", [embed("Lf", [leaf("Y")]), leaf("X")]), leaf("Z")],
    [embed("M1", [embed("Lf", [leaf("Y", "y")]), leaf("X")]), embed("M2", [embed("Lf", [leaf("Y", "y")]), leaf("X")], ptr=True), leaf("W", "y", casing=1)],
    [leaf("A", kind="zeroer"), leaf("B", omitzero=True, kind="zeroer"), leaf("C", omitempty=True, kind="zeroer"), leaf("D")],   # IsZero method
]


def random_types(seed, n):
    r = random.Random(seed)
    out = []

    def mkleaf(used, names):
        go = r.choice([g for g in ["A", "B", "Ab", "AB", "C"] if g not in used])
        used.add(go)
        # two fields of one struct must not claim the same JSON name (that is a type error)
        name = r.choice([n for n in [None, None] + NAMES + (FOLDNAMES if r.random() < 0.3 else []) if (n or go) not in names])
        names.add(name or go)
        return leaf(go, name, casing=r.choice([0, 0, 0, 1, 2]), omitzero=r.random() < 0.15, omitempty=r.random() < 0.15,
                    string=r.random() < 0.1, kind=r.choice(["int", "int", "str", "slice", "zeroer"]))

    def mkstruct(depth, eidx):
        used = set()
        names = set()
        fields = []
        for _ in range(r.randint(1, 3)):
            if depth < 3 and r.random() < 0.4 or depth in (3, 4) and r.random() < 0.25:
                eidx[0] += 1
                go = "E%d" % eidx[0]
                fields.append(embed(go, mkstruct(depth + 1, eidx), ptr=r.random() < 0.3))
            elif len(used) < 5:
                f = mkleaf(used, names)
                if f["str"] and f["kind"] != "int":
                    f["str"] = False
                fields.append(f)
        return fields or [mkleaf(used, names)]

    for _ in range(n):
        out.append(mkstruct(1, [0]))
    return out


PROBES = [B(x) for x in ["a", "A", "a_b", "AB", "ab", "A-B", "b", "B", "Ab", "n", "x", "X", "zz", "E1", "C", "c", "a__b",
                                "K", "k", "\u212a", "\u03a3", "\u03c3", "\u03c2", "\u01c4", "\u01c5", "\u01c6"]]


def wide(n, seed):
    """a struct with n leaf fields (past the 64- and 128-field fast paths) plus colliding embedded ones"""
    r = random.Random(seed)
    fs = []
    for i in range(n):
        fs.append(leaf("F%d" % i, r.choice([None, "n%d" % i, "N_%d" % i]), casing=r.choice([0, 0, 1]), omitzero=r.random() < 0.1, kind=r.choice(["int", "str"])))
    fs.insert(n // 2, embed("E1", [leaf("F1"), leaf("G", "n2"), leaf("H", "only_here")]))
    return fs


WIDE = [wide(70, 1), wide(130, 2)]
WIDE_PROBES = [B(x) for x in ["F1", "f1", "n2", "N2", "n_2", "only_here", "ONLYHERE", "F69", "f_69", "N_3", "n3", "F129", "nope"]]
