"""C01 - Decoder/validator accepts exactly the JSON grammar.

Model:   spec/JsonText.tla (byte-level push-down automaton), spec/JsonGrammar.tla
         (independent recursive-descent grammar).  MC_C01 checks with TLC that they
         agree on every byte string of the bounded universes below.
Replay:  every explored string is emitted with its verdict under the four option
         combinations and run through 8 entry points of the real library.
TV:      generated / mutated / wide / deep inputs are run on the real library and
         their logged acceptance is validated by TLC (Trace_C01).
"""
import os

S = lambda s: set(s.encode("latin-1"))
Q = lambda s: list(s.encode("latin-1"))

STRUCT = S('{}[],:"\\ a01-.etun')
NUMBER = S('-+.019eE[], ')
ESCAPE = S('"\\/bu06d8cDa')
UTF8 = {0x22, 0x61, 0x7f, 0x80, 0x8f, 0x90, 0x9f, 0xa0, 0xbf, 0xc0, 0xc1, 0xc2, 0xdf, 0xe0, 0xe1,
        0xec, 0xed, 0xee, 0xef, 0xf0, 0xf1, 0xf3, 0xf4, 0xf5, 0xff}

# name, alphabet, prefix, MaxLen quick, MaxLen thorough, MaxD
UNIVERSES = [
    ("struct", STRUCT, "", 5, 6, 2),
    ("number", NUMBER, "", 6, 7, 1),
    ("escape", ESCAPE, '"', 5, 6, 1),
    ("surrogate", S('\\udcDC08"a'), '"\\ud800', 5, 7, 1),
    ("surrogate2", S('\\udcDC08"a'), '"\\uDBff\\u', 5, 6, 1),
    ("utf8", UTF8, '"', 4, 5, 1),
    ("utf8name", {0x22, 0x3a, 0x30, 0x7d, 0xff, 0xfe, 0xc2, 0x80, 0x2c}, '{"\xff":0,"', 5, 6, 1),
    ("dupesc", S('614"\\:0},aA'), '{"a":0,"\\u00', 5, 7, 1),
    ("dupnest", S('{}[],:"a0'), '[{"a":0,', 6, 8, 3),
    ("depth", S('[]{}"a:0,'), '[[', 6, 7, 3),
]


def run(ctx):
    ctx.build()
    ctx.assumptions += [
        "RFC 8259/7493 grammar is what spec/JsonGrammar.tla states; TLC checks the automaton used everywhere else against it",
        "Unmarshal-into-any is compared only where it is a pure acceptor (no float64 overflow, no merged duplicates)",
        "TLC, CommunityModules Json/SequencesExt overrides and the harness' byte<->int projection are trusted",
    ]
    total_cases = 0
    for name, alpha, prefix, lq, lt, maxd in UNIVERSES:
        n = lq if ctx.quick else lt
        r = ctx.tlc("MC_C01", name="MC_C01_" + name, capture_lines=False,
                    consts={"Alphabet": alpha, "Prefix": Q(prefix), "MaxLen": n, "MaxD": maxd,
                            "EmitCases": True, "CheckTwin": True},
                    invariants=("TwinInv", "MonoInv", "EmitInv"), properties=("DeadStays",))
        summ = ctx.replay_cases("c01", r.out)
        if summ.get("cases", 0) < r.distinct:
            from common import MachineryError
            raise MachineryError("replay consumed %s cases but TLC emitted %s (%s)" % (summ.get("cases"), r.distinct, name))
        total_cases += r.distinct
        ctx.part("replay_" + name, strings=r.distinct, valid_strict=summ.get("valid_strict"),
                 evaluations=summ.get("evaluations"), max_len=n + len(prefix))
        if summ.get("valid_strict", 0) == 0 and name not in ("utf8name",):
            ctx.notes.append("universe %s reached no strictly valid text" % name)
    ctx.sample({"bytes": Q('{"a":0,"\\u0061":0}'), "verdict_codes[strict,dup,utf8,both]": [0, 3, 0, 3],
                "meaning": "code 3 = exactly one JSON text, 2 = stream boundary, 1 = viable prefix, 0 = dead"})
    n = 3000 if ctx.quick else 60000
    ctx.tv("c01", "Trace_C01", {"seed": ctx.seed, "n": n, "deep": 1}, consts={"MaxD": 10000})
    ctx.cov["distinct_nontrivial"] = total_cases
    ctx.cov["rule"] = ("every byte string over 10 JSON-critical alphabets up to the length bound (distinct by construction; "
                       "TLC explores the prefix tree and stops at the first dead byte) plus generated/mutated/wide/deep texts")
    ctx.cov["exhaustive"] = True
