"""C08 - ambiguous input is rejected by default: duplicate names and invalid UTF-8.

Model:   the byte automaton under the four AllowInvalidUTF8 x AllowDuplicateNames combinations
         decides whether a text contains, at any depth, a duplicate name (after unescaping) or
         ill-formed UTF-8.  Trace_Arshal!CheckAmbig requires: such a text is rejected by Unmarshal
         under the defaults for every target; each Allow* option admits only its own kind of
         ambiguity; on input valid without the options they change nothing.
TV:      random target types (structs, maps, untyped, raw values, nested mixes; unknown members
         that are skipped) with a fitting text into which a member is repeated at a random depth
         (same or escaped spelling) or a string is damaged with an ill-formed byte sequence, and
         clean texts; Unmarshal under all four option combinations, results rendered.
         The marshal side (no duplicate names in output, invalid UTF-8 refused) is C02's check:
         its generator includes colliding text-marshaler keys, NaN keys and invalid strings.
         Names resolving to the same struct field (case-insensitive) are covered by C15's check.
Replay:  spec/Arshal.tla!Unmarshal decides duplicates where the library does: by field for
         structs (also through case-insensitive matching), by decoded key for maps ("0" and "-0"),
         by name for unknown members and untyped values; with AllowDuplicateNames the later member
         is decoded into what the earlier one left.  Every (type, pre-existing value, input) of a
         bounded universe x {default, ad, ci, ad+ci} with predicted outcome and value.
"""


def run(ctx):
    ctx.build()
    n = 4000 if ctx.quick else 150000
    s = ctx.tv("arshal", "Trace_Arshal", {"seed": ctx.seed, "n": n, "mode": "c08"}, consts={"MaxD": 10000})
    ctx.part("driver", **{k: v for k, v in s.items() if not k.startswith("_")})
    # the recogniser's duplicate / UTF-8 handling is vouched for by the grammar twin
    from common import B
    ctx.tlc("MC_C01", name="MC_C01_dup", capture_lines=False,
            consts={"Alphabet": set(B('614"\\:0},aA')), "Prefix": B('{"a":0,"\\u00'), "MaxLen": 5 if ctx.quick else 7, "MaxD": 1, "EmitCases": False, "CheckTwin": True},
            invariants=("TwinInv", "MonoInv"))
    # names that are equal only after conversion: "0"/"-0" for integer keys, case variants for
    # case-insensitive fields; pre-populated maps; AllowDuplicateNames merges instead
    import arshalfam as af
    af.run_model(ctx, "dups", af.DUPFAM, {"u"}, "C08", uopts=af.DUP_UOPTS, D=1 if ctx.quick else 2)
    ctx.cov["distinct_nontrivial"] = n
    ctx.cov["rule"] = "random (type, text with one injected ambiguity) pairs"
