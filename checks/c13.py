"""C13 - Canonicalize produces the RFC 8785 canonical form.

Model:   Format.tla with the Canonicalize preset; MC_Format!Laws additionally requires for
         Canonicalize with default options: no whitespace, members sorted by the UTF-16 code
         units of their unescaped names, minimal string spellings, same meaning.
Replay:  all byte strings of the bounded universes through Value.Canonicalize.
TV:      valid I-JSON texts paired with a random re-spelling of themselves (member permutation,
         whitespace injection, \\uXXXX re-escaping incl. surrogate pairs, exponent/fraction
         re-spelling of numbers): TLC recomputes both canonical forms from the specification,
         compares each with what the library produced and requires them to be identical.
"""
import c12
from encfam import G


def run(ctx):
    cases = [G("canon"), G("canon", ad=True, ai=True), G("canon", ror=False), G("canon", cri=False)]
    total = c12.run_format(ctx, "C13", cases)
    ctx.sample({"text": '{"\\ud83d\\ude00":1,"\\uffff":2, "a":1.0}', "canonical": '{"a":1,"\U0001F600":1,"￿":2}',
                "note": "UTF-16 order puts U+1F600 (d83d de00) before U+FFFF"})
    n = 1500 if ctx.quick else 40000
    s = ctx.tv("fmt", "Trace_Format", {"seed": ctx.seed, "n": n, "mode": "c13"}, consts={"MaxD": 10000})
    if s.get("pairs", 0) == 0:
        from common import MachineryError
        raise MachineryError("driver produced no re-spelled pairs: vacuous")
    ctx.assumptions += ["nearest float64 / shortest digits of long literals are supplied by the projection (strconv); the ECMA-262 layout, -0, saturation marker and ordering are the specification's"]
    ctx.cov["distinct_nontrivial"] = total + n
    ctx.cov["rule"] = "distinct byte strings (exhaustive universes) + distinct (text, re-spelling) pairs"
