"""Shared machinery of the /verif checks.

A check is a python module checks/cXX.py with a function run(ctx).  It uses
ctx to build the Go harness against /repo's working tree, to run TLC on the
specification (exhaustive configs, simulation, trace validation), to replay
TLC-generated cases on the real code and to turn mismatches into a verdict.

Exit status of bin/check: 0 property held on everything explored, 1 violation
(reproduced on the real code, not a listed known finding), 2 the machinery
itself failed (TLC error, build failure, model theorem broken, timeout ...).
"""
import json, os, re, shutil, subprocess, sys, time, glob, hashlib

VERIF = os.path.dirname(os.path.dirname(os.path.abspath(__file__)))
REPO = os.environ.get("VERIF_REPO", "/repo")
SPEC = os.path.join(VERIF, "spec")
NCPU = os.cpu_count() or 4

GOENV = dict(os.environ, GOFLAGS="-mod=mod", GOPROXY="off", GOSUMDB="off",
             GOTOOLCHAIN="local", CGO_ENABLED=os.environ.get("CGO_ENABLED", "1"))
GO = shutil.which("go1.26") or "go"
TLC_CP = "/opt/veriftools/tla/tla2tools.jar:/opt/veriftools/tla/CommunityModules-deps.jar"


class MachineryError(Exception):
    pass


class TLCResult:
    def __init__(self):
        self.generated = 0
        self.distinct = 0
        self.rc = None
        self.out = ""
        self.violated = None      # name of a violated invariant / property
        self.error = None         # any other TLC error text
        self.wall = 0.0
        self.lines = []           # payload lines printed by PrintT(ToJson(..))


class Ctx:
    def __init__(self, prop, tier, seed):
        self.prop, self.tier, self.seed = prop, tier, seed
        self.quick = tier == "quick"
        # seed mode: the check runs against a scratch worktree (VERIF_REPO) instead of /repo;
        # it then uses its own work directory and does not touch evidence/ or replays/
        self.seedmode = os.path.realpath(REPO) != "/repo"
        suffix = ("-" + hashlib.sha1(REPO.encode()).hexdigest()[:8]) if self.seedmode else ""
        self.work = os.path.join(VERIF, ".work", prop + suffix)
        shutil.rmtree(self.work, ignore_errors=True)
        os.makedirs(self.work)
        self.specdir = os.path.join(self.work, "spec")
        shutil.copytree(SPEC, self.specdir)
        self.t0 = time.time()
        self.cov = {"states": 0, "transitions": 0, "traces_validated_against_impl": 0,
                    "samples": [], "evaluations": 0, "distinct_nontrivial": 0,
                    "tlc_runs": [], "parts": {}}
        self.assumptions = []
        self.violations = []      # confirmed mismatches (dicts)
        self.unconfirmed = []     # mismatches that did not reproduce when re-executed alone
        self.known = []           # mismatches matching a known finding
        self.notes = []
        self.harness_bin = None

    # ------------------------------------------------------------------ build
    def build(self, race=False):
        """Build the harness against the current /repo tree with the verif tag."""
        hdir = os.path.join(VERIF, "harness")
        out = os.path.join(self.work, "harness-race" if race else "harness")
        if self.seedmode:
            src = os.path.join(self.work, "harness-src")
            if not os.path.exists(src):
                shutil.copytree(hdir, src)
                gm = open(os.path.join(src, "go.mod")).read().replace("=> /repo", "=> " + os.path.realpath(REPO))
                open(os.path.join(src, "go.mod"), "w").write(gm)
            hdir = src
        gosum = os.path.join(REPO, "go.sum")
        if os.path.exists(gosum):
            shutil.copy(gosum, os.path.join(hdir, "go.sum"))
        cmd = [GO, "build", "-tags", "verif"] + (["-race"] if race else []) + ["-o", out, "."]
        p = subprocess.run(cmd, cwd=hdir, env=GOENV, capture_output=True, text=True)
        if p.returncode != 0:
            raise MachineryError("harness build failed:\n" + p.stdout + p.stderr)
        if not race:
            self.harness_bin = out
        return out

    def harness(self, cmd, timeout=3600, binary=None, env=None, **args):
        """Run a harness sub-command; returns its SUMMARY dict."""
        argv = [binary or self.harness_bin, cmd] + ["%s=%s" % (k, v) for k, v in args.items()]
        e = dict(os.environ)
        if env:
            e.update(env)
        try:
            p = subprocess.run(argv, capture_output=True, text=True, timeout=timeout, env=e)
        except subprocess.TimeoutExpired:
            raise MachineryError("harness %s timed out after %ss" % (cmd, timeout))
        if p.returncode != 0:
            raise MachineryError("harness %s failed rc=%s:\n%s\n%s" % (cmd, p.returncode, p.stdout[-3000:], p.stderr[-6000:]))
        summ = {}
        for line in p.stdout.splitlines():
            if line.startswith("SUMMARY "):
                summ = json.loads(line[8:])
        summ["_stderr"] = p.stderr[-2000:]
        return summ

    # -------------------------------------------------------------------- TLC
    def tlc(self, module, consts=None, invariants=(), properties=(), spec="Spec",
            workers=None, simulate=None, depth=None, env=None, timeout=1800, name=None,
            constraint=None, view=None, postcondition=None, deadlock=False, xss="512m",
            heap=None, capture_lines=True, expect_ok=True, extra_cfg=""):
        """Run TLC on spec/<module>.tla with a generated configuration."""
        name = name or module
        cfg = ["SPECIFICATION " + spec]
        defs = []
        if consts:
            cfg.append("CONSTANTS")
            for k, v in consts.items():
                if isinstance(v, (list, tuple, dict, Raw)):
                    # tuples / expressions cannot be written in a cfg file: define them in a wrapper module
                    defs.append("def_%s == %s" % (k, tla_value(v)))
                    cfg.append("  %s <- def_%s" % (k, k))
                else:
                    cfg.append("  %s = %s" % (k, tla_value(v)))
        root = module
        if defs:
            root = name if name != module else module + "_w"
            with open(os.path.join(self.specdir, root + ".tla"), "w") as f:
                f.write("---- MODULE %s ----\nEXTENDS %s\n%s\n====\n" % (root, module, "\n".join(defs)))
        if invariants:
            cfg.append("INVARIANTS " + " ".join(invariants))
        if properties:
            cfg.append("PROPERTIES " + " ".join(properties))
        if constraint:
            cfg.append("CONSTRAINT " + constraint)
        if view:
            cfg.append("VIEW " + view)
        if postcondition:
            cfg.append("POSTCONDITION " + postcondition)
        cfg.append("CHECK_DEADLOCK " + ("TRUE" if deadlock else "FALSE"))
        if extra_cfg:
            cfg.append(extra_cfg)
        cfgpath = os.path.join(self.specdir, name + ".cfg")
        with open(cfgpath, "w") as f:
            f.write("\n".join(cfg) + "\n")
        w = workers or NCPU
        meta = os.path.join(self.work, "meta-" + name)
        shutil.rmtree(meta, ignore_errors=True)
        outpath = os.path.join(self.work, name + ".out")
        w = workers or NCPU
        # one-worker runs (trace validation shards run 16 at a time): serial GC and a small
        # heap; measured 3x faster than the default parallel GC with a 25%-of-RAM heap each
        if w == 1:
            java = ["java", "-XX:+UseSerialGC", "-Xss" + xss, "-Xmx" + (heap or "3g")]
        else:
            java = ["java", "-XX:+UseParallelGC", "-Xss" + xss, "-Xmx" + (heap or "24g")]
        argv = java + ["-cp", TLC_CP, "tlc2.TLC", "-workers", str(w), "-metadir", meta,
                       "-config", name + ".cfg", "-seed", str(self.seed)]
        if simulate:
            argv += ["-simulate", "num=%d" % simulate]
            if depth:
                argv += ["-depth", str(depth)]
        argv.append(root + ".tla")
        e = dict(os.environ)
        e.pop("JAVA_TOOL_OPTIONS", None)
        if env:
            e.update({k: str(v) for k, v in env.items()})
        r = TLCResult()
        t0 = time.time()
        with open(outpath, "w") as fo:
            try:
                p = subprocess.run(argv, cwd=self.specdir, env=e, stdout=fo, stderr=subprocess.STDOUT, timeout=timeout)
                r.rc = p.returncode
            except subprocess.TimeoutExpired:
                shutil.rmtree(meta, ignore_errors=True)
                raise MachineryError("TLC %s timed out after %ss" % (name, timeout))
        r.wall = time.time() - t0
        shutil.rmtree(meta, ignore_errors=True)
        r.out = outpath
        tail = []
        with open(outpath, errors="replace") as f:
            for line in f:
                if line.startswith('"'):
                    if capture_lines:
                        try:
                            r.lines.append(json.loads(json.loads(line)) if "\\" in line else json.loads(line[1:line.rindex('"')]))
                        except Exception:
                            pass
                    continue
                tail.append(line)
                if len(tail) > 400:
                    tail = tail[-200:]
                m = re.search(r"(\d+) states generated, (\d+) distinct states found", line)
                if m:
                    r.generated, r.distinct = int(m.group(1)), int(m.group(2))
                m = re.search(r"Invariant (\S+) is violated", line)
                if m:
                    r.violated = m.group(1)
                m = re.search(r"(Action|Temporal) propert(y|ies) (\S+)? ?(was|were) violated", line)
                if m:
                    r.violated = m.group(3) or "temporal"
                if line.startswith("Error:") and r.error is None and "violated" not in line:
                    r.error = line.strip()
        r.tail = "".join(tail[-60:])
        if simulate and r.generated == 0:
            m = re.findall(r"(\d+) states checked", "".join(tail))
            if m:
                r.generated = r.distinct = int(m[-1])
        self.cov["states"] += r.distinct
        self.cov["transitions"] += r.generated
        self.cov["tlc_runs"].append({"name": name, "module": module, "distinct": r.distinct,
                                     "generated": r.generated, "wall_s": round(r.wall, 1),
                                     "mode": "simulate" if simulate else "exhaustive",
                                     "consts": {k: _brief(v) for k, v in (consts or {}).items()}})
        if expect_ok:
            if r.violated:
                raise MachineryError("model theorem %s broken in %s (spec-internal failure, not a verdict on the code); see %s\n%s" % (r.violated, name, outpath, r.tail))
            if r.rc != 0 or r.error:
                raise MachineryError("TLC %s failed rc=%s %s; see %s\n%s" % (name, r.rc, r.error, outpath, r.tail))
        return r

    def tlc_parallel(self, jobs, max_procs=None):
        """Run several independent TLC jobs (dicts of tlc() kwargs) concurrently."""
        from concurrent.futures import ThreadPoolExecutor
        max_procs = max_procs or NCPU
        with ThreadPoolExecutor(max_workers=max_procs) as ex:
            futs = [ex.submit(lambda j=j: self.tlc(**j)) for j in jobs]
            return [f.result() for f in futs]

    # ------------------------------------------------------- trace validation
    def validate_trace(self, module, trace, consts=None, shards=None, name=None, timeout=1800,
                       invariants=("Done",), xss="1g"):
        """Impl -> spec: TLC checks every record of the NDJSON trace against the trace
        spec `module` (one TLC process per shard).  Returns the rejected entries
        [id, prop, expected] the spec printed, and the number of records consumed."""
        name = name or module
        with open(trace) as f:
            lines = f.readlines()
        if not lines:
            raise MachineryError("empty trace " + trace)
        total = sum(len(x) for x in lines)
        # a JVM start costs seconds: do not split small traces over many processes
        shards = max(1, min(shards or NCPU, len(lines), 1 + total // 150000))
        # balance shards by bytes
        order = sorted(range(len(lines)), key=lambda i: -len(lines[i]))
        buckets = [[] for _ in range(shards)]
        sizes = [0] * shards
        for i in order:
            k = sizes.index(min(sizes))
            buckets[k].append(i)
            sizes[k] += len(lines[i])
        jobs = []
        for k, b in enumerate(buckets):
            sp = os.path.join(self.work, "%s.shard%d.nd" % (name, k))
            with open(sp, "w") as f:
                for i in sorted(b):
                    f.write(lines[i])
            jobs.append(dict(module=module, consts=consts, invariants=invariants, workers=1,
                             env={"VERIF_TRACE": sp}, postcondition="Consumed", timeout=timeout,
                             name="%s_s%d" % (name, k), xss=xss))
        results = self.tlc_parallel(jobs)
        rejects = []
        for r in results:
            got = False
            for l in r.lines:
                if isinstance(l, list) and l and l[0] == "REJ":
                    rejects.extend(l[1])
                    got = True
            if not got:
                raise MachineryError("trace spec %s did not reach the end of its trace; see %s\n%s" % (name, r.out, r.tail))
        self.cov["traces_validated_against_impl"] += len(lines)
        return rejects, len(lines)

    def tv(self, family, module, drive_args, consts=None, shards=None, sample_kinds=True, timeout=1800):
        """Drive the real code, validate its trace with TLC, confirm rejections by
        re-executing the rejected cases natively and validating them again."""
        trace = os.path.join(self.work, family + ".nd")
        summ = self.harness("drive-" + family, out=trace, timeout=timeout, **drive_args)
        rej, n = self.validate_trace(module, trace, consts, shards=shards, name="TV_" + family, timeout=timeout)
        self.part("tv_" + family, records=n, rejected=len(rej), driver=summ and {k: v for k, v in summ.items() if not k.startswith("_")})
        with open(trace) as f:
            for i, line in enumerate(f):
                if i < 2:
                    self.sample(_shorten(json.loads(line)))
        if rej:
            ids = {r[0] for r in rej}
            recs = {}
            with open(trace) as f:
                for line in f:
                    d = json.loads(line)
                    if d["id"] in ids:
                        recs[d["id"]] = d
            items = [{"prop": r[1], "family": family, "dir": "tv", "module": module, "consts": _jsonable(consts),
                      "case": recs[r[0]], "expected": r[2]} for r in rej if r[0] in recs]
            self.add_mismatches(items, confirm=lambda m: self.confirm_tv(m))
        return summ

    def confirm_tv(self, m):
        """Re-execute one rejected trace record on the real code and validate again."""
        redo = os.path.join(self.work, "redo.nd")
        with open(redo, "w") as f:
            f.write(json.dumps(m["case"]) + "\n")
        out = os.path.join(self.work, "redo-out.nd")
        self.harness("drive-" + m["family"], out=out, redo=redo)
        consts = m.get("consts")
        rej, _ = self.validate_trace(m["module"], out, consts, shards=1, name="Redo_" + m["family"])
        self.cov["traces_validated_against_impl"] -= 1
        self.last_redo = [r for r in rej if m["prop"] in r[1].split("+")]
        return bool(self.last_redo)

    def replay_cases(self, family, cases_path, timeout=3600, **extra):
        """Spec -> impl: execute TLC-emitted cases on the real code; mismatches are
        confirmed by re-running each offending case alone in a fresh process."""
        mm = os.path.join(self.work, family + ".mm")
        summ = self.harness("replay-" + family, cases=cases_path, out=mm, timeout=timeout, **extra)
        items = self.load_ndjson(mm, limit=300)
        self.cov["evaluations"] += int(summ.get("evaluations", 0))
        self.cov["traces_validated_against_impl"] += int(summ.get("cases", 0))
        for it in items:
            it.setdefault("family", family)
            it.setdefault("dir", "replay")
        cx = {k: v for k, v in extra.items() if k not in ("faultout",)}
        self.add_mismatches(items, confirm=lambda m: self.confirm_replay(m, **cx))
        return summ

    def confirm_replay(self, m, **extra):
        if "case" not in m:
            return True
        one = os.path.join(self.work, "one.case")
        with open(one, "w") as f:
            f.write(json.dumps(m["case"]) + "\n")
        mm = os.path.join(self.work, "one.mm")
        self.harness("replay-" + m["family"], cases=one, out=mm, **extra)
        return any(x.get("prop", self.prop) == m.get("prop", self.prop) for x in self.load_ndjson(mm))

    def replay_file(self, path):
        """bin/check Cxx --replay <file>: reproduce one recorded violation."""
        with open(path) as f:
            m = json.load(f)
        self.build()
        ok = self.confirm_tv(m) if m.get("dir") == "tv" else self.confirm_replay(m)
        if ok and m.get("dir") == "tv":
            # judged as it would be today: a recorded finding is not a violation
            fresh = dict(m, expected=self.last_redo[0][2])
            k = match_known(load_known_findings(), m.get("prop", self.prop), fresh)
            if k is not None:
                print("KNOWN-FINDING: property=%s %s" % (self.prop, k["what"]))
                return 0
        if ok:
            print("VIOLATION property=%s replay=%s" % (m.get("prop", self.prop), path))
            print("  detail: " + json.dumps({k: v for k, v in m.items() if k != "case"})[:600])
            return 1
        print("not reproduced: " + path)
        return 0

    # ------------------------------------------------------------ mismatches
    def load_ndjson(self, path, limit=None):
        out = []
        if not os.path.exists(path):
            return out
        with open(path) as f:
            for line in f:
                line = line.strip()
                if line:
                    out.append(json.loads(line))
                    if limit and len(out) >= limit:
                        break
        return out

    def add_mismatches(self, items, confirm=None):
        """items: mismatch dicts observed on the real code (each has 'prop').
        Only those of this property count.  confirm(item) -> bool re-executes the
        case in isolation; unconfirmed mismatches are machinery failures."""
        spec = [m for m in items if m.get("prop") == "SPEC"]
        if spec:
            raise MachineryError("the specification contradicts itself on a logged case (not a verdict on the code): %s" % json.dumps(spec[0])[:1500])
        # a panic or non-termination observed by any driver (prop C20) fails the check that hit it
        # a verdict may name several properties at once ("C02+C07")
        mine = []
        for m in items:
            props = m.get("prop", self.prop).split("+")
            if self.prop in props:
                m["prop"] = self.prop
                mine.append(m)
            elif "C20" in props:
                m["prop"] = "C20"
                mine.append(m)
        kf = load_known_findings()
        for m in mine:
            k = match_known(kf, m.get("prop", self.prop), m)
            if k is not None:
                self.known.append((k, m))
                continue
            if confirm is not None and len(self.violations) < 20:
                if not confirm(m):
                    # not a verdict: remembered, and a machinery error unless another mismatch reproduces
                    self.unconfirmed.append(m)
                    if len(self.unconfirmed) >= 12 and not self.violations:
                        break
                    continue
            self.violations.append(m)

    def sample(self, x):
        if len(self.cov["samples"]) < 12:
            self.cov["samples"].append(x)

    def part(self, name, **kv):
        self.cov["parts"].setdefault(name, {}).update(kv)

    # ---------------------------------------------------------------- finish
    def finish(self, level="model_checking"):
        if self.unconfirmed and not self.violations:
            raise MachineryError("%d mismatch(es) did not reproduce in isolation and none did: %s" % (len(self.unconfirmed), json.dumps(self.unconfirmed[0])[:1500]))
        if self.unconfirmed:
            self.notes.append("%d further mismatches did not reproduce when re-executed alone (history- or schedule-dependent)" % len(self.unconfirmed))
        wall = time.time() - self.t0
        seen = set()
        for k, m in self.known:
            if k["id"] not in seen:
                seen.add(k["id"])
                print("KNOWN-FINDING: property=%s %s" % (self.prop, k["what"]))
        rdir = os.path.join(VERIF, "replays") if not self.seedmode else os.path.join(self.work + "-replays")
        os.makedirs(rdir, exist_ok=True)
        shown = 0
        for m in self.violations:
            h = hashlib.sha1(json.dumps(m, sort_keys=True).encode()).hexdigest()[:12]
            path = os.path.join(rdir, "%s-%s.json" % (self.prop, h))
            with open(path, "w") as f:
                json.dump(m, f)
            if shown < 10:
                print("VIOLATION property=%s replay=%s" % (self.prop, path))
                print("  detail: " + json.dumps({k: v for k, v in m.items() if k != "case"})[:600])
                shown += 1
        if len(self.violations) > shown:
            print("  ... and %d more violations" % (len(self.violations) - shown))
        cov = self.cov
        cov["known_findings_hit"] = sorted(seen)
        cov["notes"] = self.notes
        if not cov["samples"]:
            cov["samples"] = ["(no sample recorded)"]
        ev = {"property_id": self.prop, "tier": self.tier, "seed": self.seed, "level": level,
              "coverage": cov, "assumptions": self.assumptions, "wall_s": round(wall, 2),
              "violations": len(self.violations)}
        evdir = os.path.join(VERIF, "evidence") if not self.seedmode else self.work + "-replays"
        os.makedirs(evdir, exist_ok=True)
        with open(os.path.join(evdir, self.prop + ".json"), "w") as f:
            json.dump(ev, f, indent=1, sort_keys=True)
            f.write("\n")
        print("check %s tier=%s seed=%d: states=%d transitions=%d traces=%d evaluations=%d violations=%d known=%d wall=%.1fs" % (
            self.prop, self.tier, self.seed, cov["states"], cov["transitions"],
            cov["traces_validated_against_impl"], cov["evaluations"], len(self.violations), len(seen), wall))
        if not os.environ.get("VERIF_KEEP_WORK"):
            shutil.rmtree(self.work, ignore_errors=True)
        return 1 if self.violations else 0


def _deep(v):
    if isinstance(v, (set, frozenset)):
        return sorted(_deep(x) for x in v)
    if isinstance(v, (list, tuple)):
        return [_deep(x) for x in v]
    if isinstance(v, dict):
        return {k: _deep(x) for k, x in v.items()}
    return v


def _brief(v):
    d = _deep(v)
    t = json.dumps(d)
    return d if len(t) <= 300 else "(%d items) %s..." % (len(d) if hasattr(d, "__len__") else 1, t[:120])


def _jsonable(c):
    return None if c is None else _deep(c)


def _shorten(x, n=400):
    t = json.dumps(x)
    return x if len(t) <= n else t[:n] + "...(truncated)"


class Raw(str):
    """TLA+ text passed through verbatim."""


def tla_value(v):
    if isinstance(v, Raw):
        return str(v)
    if isinstance(v, bool):
        return "TRUE" if v else "FALSE"
    if isinstance(v, int):
        return str(v)
    if isinstance(v, str):
        return '"' + v + '"'
    if isinstance(v, (set, frozenset)):
        return "{" + ", ".join(tla_value(x) for x in sorted(v)) + "}"
    if isinstance(v, (list, tuple)):
        return "<<" + ", ".join(tla_value(x) for x in v) + ">>"
    if isinstance(v, dict):
        return "[" + ", ".join("%s |-> %s" % (k, tla_value(x)) for k, x in v.items()) + "]"
    raise TypeError(v)


def tla_str(s):
    return '"' + s + '"'


def B(s):
    """bytes of a (latin-1) python string as a list of ints"""
    return list(s.encode("latin-1")) if isinstance(s, str) else list(s)


def load_known_findings():
    p = os.path.join(VERIF, "known_findings.json")
    if not os.path.exists(p):
        return []
    with open(p) as f:
        d = json.load(f)
    return [k for k in d.get("findings", []) if k.get("status", "open") == "open"]


def match_known(kf, prop, m):
    """A known finding is {id, property, what, match:{key: value|{re:..}}}: every key of
    'match' must be present in the mismatch (dotted paths allowed) and equal / match."""
    for k in kf:
        if k["property"] != prop:
            continue
        ok = True
        for key, want in k["match"].items():
            cur = m
            for part in key.split("."):
                if isinstance(cur, dict) and part in cur:
                    cur = cur[part]
                elif isinstance(cur, list) and part.isdigit() and int(part) < len(cur):
                    cur = cur[int(part)]
                else:
                    cur = None
                    break
            if isinstance(want, dict) and "re" in want:
                if cur is None or not re.search(want["re"], cur if isinstance(cur, str) else json.dumps(cur)):
                    ok = False
            elif cur != want:
                ok = False
            if not ok:
                break
        if ok:
            return k
    return None


def main(argv):
    import argparse, importlib
    ap = argparse.ArgumentParser()
    ap.add_argument("prop")
    ap.add_argument("--tier", default=os.environ.get("VERIF_TIER", "quick"), choices=["quick", "thorough"])
    ap.add_argument("--replay")
    a = ap.parse_args(argv)
    seed = int(os.environ.get("VERIF_SEED", "1") or 1)
    sys.path.insert(0, os.path.join(VERIF, "checks"))
    mod = importlib.import_module(a.prop.lower())
    ctx = Ctx(a.prop, a.tier, seed)
    try:
        if a.replay:
            rc = mod.replay(ctx, a.replay) if hasattr(mod, "replay") else ctx.replay_file(a.replay)
            shutil.rmtree(ctx.work, ignore_errors=True)
            return rc
        mod.run(ctx)
        return ctx.finish(getattr(mod, "LEVEL", "model_checking"))
    except MachineryError as e:
        print("MACHINERY-ERROR (%s): %s" % (a.prop, e), file=sys.stderr)
        return 2
