"""C19 - options compose as last-wins maps and apply only where scoped.

Model:   spec/Options.tla: a store (key -> unset | value), setters for every constructor
         (boolean flags, WithIndent/WithIndentPrefix implying Multiline, WithMarshalers/
         WithUnmarshalers, DefaultOptionsV1/V2, nil, JoinOptions as the setter that copies the
         keys its members set) and the documented table of which options matter for which
         operation.  MC_Options checks with TLC over all setter sequences up to the bound: every
         grouping into nested JoinOptions equals applying the setters in order; the last setter
         of a key wins; DefaultOptionsV2 cancels every v1 option.
Replay:  every sequence (all 73 setters pairwise; 20 representatives up to length 3/4) built
         flat, as one join, left-nested, right-nested, pairwise, and through NewEncoder /
         NewDecoder; GetOption of all 34 keys compared with the predicted store.
TV:      behavioural clauses on random option sequences and probe values/texts (Trace_Options):
         separate == joined == nested; options documented as irrelevant to an operation do not
         change its result; MarshalEncode/UnmarshalDecode options take precedence for the call
         only and the coder's options are intact afterwards (success, error, panicking user
         code); v1 functions == v2 + DefaultOptionsV1; DefaultOptionsV2 cancels v1 options.
"""
from optfam import ALL, REPRESENTATIVES


def run(ctx):
    ctx.build()
    total = 0
    for name, setters, n in [("all_pairs", ALL, 2), ("representatives", REPRESENTATIVES, 3 if ctx.quick else 4)]:
        r = ctx.tlc("MC_Options", name="MC_Options_" + name, capture_lines=False,
                    consts={"Setters": setters, "MaxLen": n, "EmitCases": True},
                    invariants=("Grouping", "LastWins", "V2Cancels", "EmitInv"))
        s = ctx.replay_cases("opt", r.out)
        total += int(s.get("cases", 0))
        ctx.part("replay_" + name, sequences=s.get("cases"), executions=s.get("evaluations"), setters=len(setters), max_len=n)
    ctx.sample({"sequence": ["DefaultOptionsV1()", "WithIndent(\"  \")", "Deterministic(false)", "DefaultOptionsV2()"],
                "expected": {"Deterministic": "false", "Multiline": "true", "Indent": "s:  ", "AllowDuplicateNames": "false"}})
    n = 1500 if ctx.quick else 40000
    ctx.tv("opt", "Trace_Options", {"seed": ctx.seed, "n": n})
    ctx.assumptions += [
        "an Encoder created with Multiline reports the defaults it implies (SpaceAfterColon, SpaceAfterComma, Indent) when they were unset",
        "the table of irrelevant options is the documentation's 'encode only / marshal only / unmarshal only' annotation",
        "map-valued probes have one key per map (no Deterministic needed)",
    ]
    ctx.cov["distinct_nontrivial"] = total + n
    ctx.cov["rule"] = "distinct setter sequences (exhaustive) x 7 groupings; distinct random (sequence, probe, clause) records"
