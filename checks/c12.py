"""C12 - reformatting a value never changes what it means (also drives C13).

Model:   spec/Format.tla gives the exact bytes Value.Format / Compact / Indent / Canonicalize /
         AppendFormat produce (whitespace, string spelling, number spelling, member order) and
         when they fail; MC_Format checks with TLC over all byte strings of bounded universes x
         25 (entry point, caller options) pairs: succeeds iff valid under the effective options,
         the result is valid, has the same meaning (JsonValue.tla; member order only under
         ReorderRawObjects, numbers by normal form), is a fixed point, and on error the input
         is unchanged.
Replay:  every (string, case) with the predicted result on the real entry points.
TV:      generated / mutated texts x random option subsets (indent/prefix strings, duplicate
         names and invalid UTF-8 under the permissive presets), validated by TLC (Trace_Format);
         canonical spellings of numbers with more than 15 significant digits use the logged
         projection (math/big-free: strconv shortest digits of the nearest float64).
"""
from encfam import FMT_CASES
from common import B

UNIVERSES = [
    # name, alphabet, prefix, len quick, len thorough, laws
    ("struct", '{}[],:" a01-.e', "", 4, 5),
    ("members", 'ab":0}, ', '{"b":1,"', 5, 6),
    ("strings", '"\\/bu0c<a\xc3\xa9\xe2\x80\xa8', '["', 4, 5),
    ("numbers", '-+.0159eE]', "[", 5, 6),
    ("nested", '[]{}"a:0, ', '{"a":[{"c":1,"b":', 4, 5),
]


def run_format(ctx, prop, cases, entry_filter=None):
    ctx.build()
    total = 0
    for name, alpha, prefix, lq, lt in UNIVERSES:
        n = lq if ctx.quick else lt
        # theorems on a smaller bound, emission on the full bound
        ctx.tlc("MC_Format", name="MC_Format_laws_" + name, capture_lines=False,
                consts={"Alphabet": set(B(alpha)), "Prefix": B(prefix), "MaxLen": n - 1, "Cases": cases, "MaxD": 10000,
                        "EmitCases": False, "CheckLaws": True}, invariants=("Laws",))
        r = ctx.tlc("MC_Format", name="MC_Format_" + name, capture_lines=False,
                    consts={"Alphabet": set(B(alpha)), "Prefix": B(prefix), "MaxLen": n, "Cases": cases, "MaxD": 10000,
                            "EmitCases": True, "CheckLaws": False}, invariants=("EmitInv",))
        s = ctx.replay_cases("fmt", r.out)
        total += int(s.get("cases", 0))
        ctx.part("replay_" + name, cases=s.get("cases"), accepted=s.get("valid"), executions=s.get("evaluations"), max_len=n + len(prefix))
    return total


def run(ctx):
    total = run_format(ctx, "C12", FMT_CASES)
    ctx.sample({"text": '{"b":1,"a":[ 1.0e1,"\\u0041"]}', "entry": "canon", "predicted": '{"a":[10,"A"],"b":1}'})
    n = 1500 if ctx.quick else 40000
    s = ctx.tv("fmt", "Trace_Format", {"seed": ctx.seed, "n": n, "mode": "c12"}, consts={"MaxD": 10000})
    # the depth limit is part of "valid under those options"
    ctx.tv("fmt", "Trace_Format", {"mode": "deep", "stride": 5 if ctx.quick else 1, "prop": "C12"}, consts={"MaxD": 10000})
    ctx.assumptions += [
        "canonical spelling of numbers with > 15 significant digits: nearest float64 and its shortest digits come from the projection (strconv), the ECMA layout from the spec",
        "equal-name ties under ReorderRawObjects+AllowDuplicateNames are ordered by the member text, as the implementation documents",
    ]
    ctx.cov["distinct_nontrivial"] = total + n
    ctx.cov["rule"] = "distinct (byte string, entry point, caller options) triples; TLC enumerates the strings (prefix tree pruned at the first dead byte)"
