"""C03 - Unmarshal into untyped targets yields the exact meaning of the text.

Model:   JsonValue.tla gives the meaning of a text as a value tree (strings by code points after
         RFC 8259 unescaping, arrays in order, objects as their members); Trace_Arshal!CheckUntyped
         expects success iff the text is valid, fits the target kind and no number overflows, and
         the tree the target holds to equal that meaning with numbers as the float64 nearest to the
         literal.
TV:      valid texts with adversarial strings (shared 8-byte prefixes/suffixes for the interning
         cache), 16..19-digit integers, wide objects, mutations, x 10 routes: Unmarshal,
         UnmarshalRead (plain and 1-byte chunks), UnmarshalDecode over a chunked stream,
         AllowDuplicateNames on duplicate-free input, a no-op WithUnmarshalers matching any (both
         disable the specialised untyped decoder), map[string]any, []any, a named empty interface,
         **any.
Replay:  spec/Arshal.tla!Unmarshal on any, []any, map[string]any, *any, [1]any, struct{any}:
         every (pre-existing value, input, options) of a bounded universe under default,
         AllowDuplicateNames, StringifyNumbers, both, RejectUnknownMembers+MatchCaseInsensitive -
         the options that switch the specialised untyped decoder off must not change the tree.
"""


def run(ctx):
    ctx.build()
    n = 5000 if ctx.quick else 200000
    s = ctx.tv("arshal", "Trace_Arshal", {"seed": ctx.seed, "n": n, "mode": "c03"}, consts={"MaxD": 10000})
    ctx.part("driver", **{k: v for k, v in s.items() if not k.startswith("_")})
    ctx.assumptions += ["the float64 nearest to a literal (and its shortest digits, the form in which trees are compared) is computed by the projection with strconv; correct rounding itself is decided in C10"]
    # the type-directed model on untyped destinations: empty, pre-populated, nested, behind
    # pointers and in struct fields, with the options that switch the specialised decoder off
    import arshalfam as af
    af.run_model(ctx, "untyped", af.ANYFAM, {"u"}, "C03", uopts=af.ANY_UOPTS, D=1 if ctx.quick else 2)
    ctx.cov["distinct_nontrivial"] = n
    ctx.cov["rule"] = "random (text, route) pairs"
