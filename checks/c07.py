"""C07 - encoded bytes do not depend on buffering, flushing or the writer.

Model:   Encoder.tla's `out` is the fault-free output; what a writer has accepted must at every
         moment be a prefix of it, an accepted call that returns to depth 0 has flushed everything,
         and a failed/short Write leaves the token accepted (Trace_Encoder).
TV:      random programs of up to 400 calls whose output sweeps the buffer thresholds, on a
         bytes.Buffer and on writers scripted to fail or to accept only part of a Write; every
         call's result, offsets and the number of bytes delivered so far are validated by TLC.
         Marshal vs MarshalWrite vs MarshalEncode with retracted omitempty members: Trace_Arshal
         (see C02) compares the three outputs.
"""
from encfam import CALLS_SMALL, FMTS


def run(ctx):
    ctx.build()
    n = 250 if ctx.quick else 6000
    s = ctx.tv("enc", "Trace_Encoder", {"seed": ctx.seed, "n": n, "mode": "c07"}, consts={"MaxD": 10000})
    if s.get("write_faults", 0) == 0:
        from common import MachineryError
        raise MachineryError("driver delivered no write faults: vacuous")
    # Marshal vs MarshalWrite vs MarshalEncode with omitempty members that are written and then
    # retracted, the padding before them swept across every flush threshold (75% of 64..4096)
    sw = ctx.tv("arshal", "Trace_Arshal", {"seed": ctx.seed, "mode": "c07sweep", "step": 5 if ctx.quick else 1, "maxpad": 5200 if ctx.quick else 9000},
                consts={"MaxD": 10000})
    ctx.part("pad_sweep", **{k: v for k, v in sw.items() if not k.startswith("_")})
    ctx.assumptions += ["the flush policy itself is left open: only 'prefix of the fault-free output' and 'flushed at depth 0' are required"]
    # the model behind the trace spec is the one MC_Encoder checks; run its theorem here too so that
    # the evidence states what the model guarantees
    r = ctx.tlc("MC_Encoder", name="MC_Encoder_c07", capture_lines=False,
                consts={"Calls": CALLS_SMALL, "Fmts": FMTS[:3], "MaxCalls": 3, "MaxD": 10000, "EmitCases": False},
                invariants=("OutInv",))
    ctx.cov["distinct_nontrivial"] = n + int(sw.get("cases", 0))
    ctx.cov["rule"] = "random call programs x writer kinds x short-write/error schedules (40 scripted outcomes per case)"
