"""Shared pieces of the Encoder-family checks (C06, C07, C11, C16)."""
from common import B

def tok(k, b=""):
    return {"op": "tok", "k": k, "b": B(b)}

def val(b):
    return {"op": "val", "k": "", "b": B(b)}

PTR = {"op": "ptr", "k": "", "b": []}

def fmt(**kw):
    f = dict(ai=False, ad=False, ml=False, indent=[-1], prefix=[], sac=-1, sacm=-1, html=False, js=False,
             prs=False, cri=False, crf=False, ror=False)
    for k, v in kw.items():
        f[k] = B(v) if k in ("indent", "prefix") and isinstance(v, str) else v
    f["mlinit"] = f["ml"]      # an Encoder is created with all its options
    return f

# call alphabet: structural and literal tokens; strings a, b, empty, HTML-sensitive, invalid UTF-8;
# numbers; the zero Token; raw values valid, truncated, with trailing garbage, with an inner
# duplicate, with invalid UTF-8, with a lone surrogate, nested, with escapes to be re-spelled
CALLS_FULL = [
    tok("{"), tok("}"), tok("["), tok("]"), tok("null"), tok("true"),
    tok("str", "a"), tok("str", "b"), tok("str", ""), tok("str", "<é>"), tok("str", "\xff"),
    tok("num", "0"), tok("num", "-7"), tok("num", "1.5"), tok("zero"),
    val('"a"'), val(' {"a":1, "c":[]} '), val('[1,"\\u0062" ,{}]'), val('{"a":1,"\\u0061":2}'), val("tru"),
    val("1 2"), val('"\\ud800"'), val('"\xff"'), val("["), val('{"b":[{}]}'), val("-0"), val('"\\/\\u003c"'),
    PTR,
]
CALLS_SMALL = [CALLS_FULL[i] for i in (0, 1, 2, 3, 4, 6, 7, 10, 11, 14, 15, 16, 18, 19, 20, 27)]

FMTS = [
    fmt(),
    fmt(ad=True),
    fmt(ai=True),
    fmt(ml=True),
    fmt(indent="  ", prefix=" ", ml=True),
    fmt(sac=1, sacm=1),
    fmt(ml=True, sacm=1, sac=0),
    fmt(html=True, js=True),
    fmt(prs=True),
    fmt(prs=True, html=True, ai=True),
    fmt(cri=True, crf=True),
    fmt(ror=True),
]


def G(entry, **kw):
    """caller options for the Format family: only the given fields are passed explicitly"""
    g = fmt(**kw)
    g["set"] = set(kw.keys())
    return {"entry": entry, "g": g}


FMT_CASES = [
    G("format"), G("compact"), G("indent"), G("canon"),
    G("format", ml=True), G("format", indent="  ", prefix=" "), G("format", sac=1, sacm=1),
    G("format", ml=True, sacm=1, sac=0), G("format", html=True, js=True), G("format", prs=True),
    G("format", prs=True, html=True), G("format", ai=True, ad=True), G("format", ai=True, prs=True, js=True),
    G("format", cri=True), G("format", crf=True), G("format", ror=True), G("format", ror=True, ad=True),
    G("compact", prs=False), G("compact", ad=False), G("indent", ml=False), G("indent", indent=" "),
    G("canon", ror=False), G("canon", ad=True, ai=True), G("canon", ml=True), G("canon", html=True),
]
