"""C10 - numbers are converted exactly in both directions.

Model:   spec/Numbers.tla: literals as digit strings - normal form, ECMA-262 Number::toString
         layout, integer syntax, ranges of int8..uint64 decided by digit-string comparison,
         Token.Int/Uint value and error class (syntax vs range, truncation, saturation).
         MC_Numbers checks with TLC: the layout parses back to the same (sign, digits, exponent)
         for all digit strings/exponents of the bounded universe (total, injective, denotes the
         value), and the digit-string range predicate equals integer arithmetic for 8/16-bit types.
Replay:  every integer literal within Near of each power-of-two bound of every integer type, with
         and without minus sign, with fraction/exponent variants and -0: Unmarshal into int8..uint64
         plain, quoted (string option) and as map key; Token.Int / Token.Uint value and error class.
TV:      float64 stratified over exponent x mantissa patterns and the neighbours of the 1e-6/1e21
         layout switches, float32 bit patterns, random literals and literals at rounding midpoints
         and at the overflow thresholds: every formatting path's text must equal the spec's layout
         of the projection's shortest digits; 'parses back to identical bits', 'no shorter decimal
         round-trips' and 'correctly rounded (ties to even)' are facts computed by the projection
         with strconv / math/big and required TRUE; an error exactly on overflow.
"""


def run(ctx):
    ctx.build()
    near = 12 if ctx.quick else 400
    r = ctx.tlc("MC_Numbers", capture_lines=False, consts={"Near": near, "EmitCases": True}, invariants=("RangeTwin", "EmitInv"))
    s = ctx.replay_cases("num", r.out)
    ctx.part("replay_integer_literals", literals=s.get("cases"), executions=s.get("evaluations"), near=near)
    ctx.sample({"literal": "-9223372036854775809", "int64": "refused", "Token.Int": "[-9223372036854775808, ErrRange]"})
    n = 6000 if ctx.quick else 400000
    ctx.tv("num", "Trace_Numbers", {"seed": ctx.seed, "n": n})
    ctx.assumptions += [
        "shortest digits come from strconv (the projection); that they round-trip and that no shorter decimal does is verified by the projection with exact arithmetic and required by the spec",
        "correct rounding of literals is verified by the projection with math/big (ties to even, overflow threshold MaxFloat + half ulp)",
        "Token.Int/Uint truncation values are compared only where the implementation's float64 detour is exact (<= 15 significant digits or beyond saturation)",
        "the thorough tier samples 4e5 values; it does not sweep all 2^32 float32 patterns through TLC",
    ]
    ctx.cov["distinct_nontrivial"] = int(s.get("cases", 0)) + n
    ctx.cov["rule"] = "distinct literals (exhaustive near every bound) and distinct floats / literals (sampled, stratified)"
