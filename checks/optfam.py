"""Setter lists for the Options check (C19)."""
import sys
BOOL_KEYS = ["AllowDuplicateNames", "AllowInvalidUTF8", "EscapeForHTML", "EscapeForJS", "PreserveRawStrings",
             "CanonicalizeRawInts", "CanonicalizeRawFloats", "ReorderRawObjects", "Multiline", "SpaceAfterColon", "SpaceAfterComma",
             "StringifyNumbers", "Deterministic", "FormatNilMapAsNull", "FormatNilSliceAsNull", "OmitZeroStructFields",
             "MatchCaseInsensitiveNames", "RejectUnknownMembers", "CallMethodsWithLegacySemantics", "FormatByteArrayAsArray",
             "FormatBytesWithLegacySemantics", "FormatDurationAsNano", "MatchCaseSensitiveDelimiter", "MergeWithLegacySemantics",
             "OmitEmptyWithLegacySemantics", "ParseBytesWithLooseRFC4648", "ParseTimeWithLooseRFC3339",
             "ReportErrorsWithLegacySemantics", "StringifyWithLegacySemantics", "UnmarshalArrayFromAnyLength"]


def S(k, **kw):
    d = {"k": k, "key": "", "v": False, "s": "", "id": 0, "items": []}
    d.update(kw)
    return d


def flag(key, v):
    return S("flag", key=key, v=v)

OTHER = [S("indent", s="  "), S("indent", s=""), S("indent", s="\\t"), S("prefix", s=" "), S("prefix", s=""),
         S("marshalers", id=0), S("marshalers", id=1), S("marshalers", id=2),
         S("unmarshalers", id=0), S("unmarshalers", id=1), S("v1"), S("v2"), S("nil")]

ALL = [flag(k, v) for k in BOOL_KEYS for v in (True, False)] + OTHER

# one representative per setter class (plain coder flag, whitespace flag, v2 arshal flag in the v1 set,
# v2 arshal flag outside it, pure v1 flag), each with both values, plus the composite setters
REPRESENTATIVES = [flag(k, v) for k in ("AllowDuplicateNames", "SpaceAfterColon", "Multiline", "Deterministic", "StringifyNumbers",
                                         "MergeWithLegacySemantics") for v in (True, False)] + \
    [S("indent", s="  "), S("indent", s=""), S("prefix", s=" "), S("marshalers", id=1), S("marshalers", id=0),
     S("v1"), S("v2"), S("nil")]
