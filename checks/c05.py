"""C05 - decoding is independent of how the input arrives or is consumed.

Model:   spec/Decoder.tla - the Decoder as a state machine over the token table of the
         whole input; reader schedules and faults are not part of the state, so every call
         must be a function of (table, state).  MC_Decoder checks with TLC, over all call
         programs on small documents: stack/offsets equal an independent parse of the
         consumed prefix, token path == value path == skip path, failing calls have no effect.
Replay:  every program x every composition of the input into reads (short documents), plus
         empty reads, data-with-EOF, bytes.Buffer: each call compared with TLC's prediction.
TV:      executions with injected transient read faults and retries, and long random
         programs over inputs sized around the buffer thresholds, validated by TLC
         (Trace_Decoder) call by call.
"""
import os
from decfam import mc_decoder


def run(ctx):
    ctx.build()
    ctx.assumptions += [
        "PeekKind's answer at the point where the input ends or becomes invalid is left open by the specification (0 or the kind of the next byte)",
        "a fault interrupts SkipValue at any token boundary (the property exempts SkipValue from the no-effect clause)",
        "byte equality of returned values / unread buffer with the input span is computed by the harness (projection) and required to be TRUE by the spec",
    ]
    calls = 4 if ctx.quick else 6
    r = mc_decoder(ctx, calls)
    ftrace = os.path.join(ctx.work, "dec-fault.nd")
    summ = ctx.replay_cases("dec", r.out, faultout=ftrace, faultsample=16 if ctx.quick else 8)
    ctx.part("replay_programs", programs=summ.get("cases"), executions=summ.get("evaluations"),
             faulted_traces=summ.get("faulted_traces"), calls_per_program=calls)
    ctx.sample({"doc": '{"a":{"b":[]},"c":1} 2', "program": ["tok", "peek", "val", "ptr", "skip"],
                "schedules": "all 2^(n-1) compositions for n<=9 bytes, single cuts, 1-byte, empty reads, data+EOF, bytes.Buffer"})
    rej, n = ctx.validate_trace("Trace_Decoder", ftrace, {"MaxD": 10000}, name="TV_decfault")
    ctx.part("tv_fault_replay", records=n, rejected=len(rej))
    if rej:
        recs = {d["id"]: d for d in ctx.load_ndjson(ftrace)}
        ctx.add_mismatches([{"prop": x[1], "family": "dec", "dir": "tv", "module": "Trace_Decoder", "consts": {"MaxD": 10000},
                             "case": recs[x[0]], "expected": x[2]} for x in rej], confirm=ctx.confirm_tv)
    n = 500 if ctx.quick else 12000
    s2 = ctx.tv("dec", "Trace_Decoder", {"seed": ctx.seed, "n": n, "mode": "c05"}, consts={"MaxD": 10000})
    # "consequently UnmarshalRead equals Unmarshal": texts that fit a generated type except for one
    # value, read whole and from readers that cut inside the run of delimiters and white space
    # before that value - the same final error, offset and pointer (clause of Trace_Arshal)
    ctx.tv("arshal", "Trace_Arshal", {"seed": ctx.seed, "n": 1500 if ctx.quick else 60000, "mode": "c16sem"}, consts={"MaxD": 10000})
    if s2.get("faults_delivered", 0) == 0:
        from common import MachineryError
        raise MachineryError("driver delivered no faults: vacuous")
    ctx.cov["distinct_nontrivial"] = int(summ.get("cases", 0)) + n
    ctx.cov["rule"] = "distinct call programs (TLC-enumerated, all sequences of 5 calls) x documents x option sets; each executed under ~50 reader schedules; plus random long programs with faults"
